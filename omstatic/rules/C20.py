"""C20 -- driver scaling is an exact, invertible affine map applied consistently.

Structural clauses decided from the source (no OpenMDAO import, nothing executed):

* the ref/ref0 -> (adder, scaler) conversion, interpreted symbolically over exact rationals, composed
  with the operation sequence extracted from ``Autoscaler._apply_vec_scaling`` maps ref0 -> 0 and
  ref -> 1 (C20.affine);
* ``_apply_vec_unscaling`` is the exact mirror of ``_apply_vec_scaling`` (C20.mirror) and the
  ``driver_scaling`` typestate flag keeps both idempotent (C20.flag);
* bounds go through the same sequence as values, infinite entries keep their sentinel (C20.bounds,
  C20.bound-slots);
* jacobian blocks: response scaler on rows, 1/desvar scaler on columns, in place, identically for the
  flat and the nested format, for driver scaling and for unit scaling (C20.jac); scaling happens
  once, after the colouring subtractions (C20.order);
* multipliers: scaler / objective scaler, in place, from the matching table (C20.mult) and without
  truth-testing a possibly-array scaler (C20.mult-array);
* every producer/consumer of (adder, scaler) and (factor, offset) pairs keeps the slot order
  (C20.proto); unit conversion on read and on write are mirror images (C20.units-mirror);
* the voi_type dispatch tables agree (C20.dispatch);
* optimizer-facing code never combines a driver-scaled value with a model-space bound (C20.space);
* derivative/multiplier scaling is active whenever value scaling is (C20.gates); BoundsAutoscaler installs
  the pair that sends [lower, upper] to [0, 1] and refreshes the bound cache (C20.bounds-autoscaler).
"""
import ast
from collections import deque
from fractions import Fraction

from .. import astx, cfg as cfgm
from ..core import AnalysisError
from ..engine import rule, describe, selftest, Mutant, Twin

AUTO = 'openmdao/drivers/autoscalers/autoscaler.py'
BAUTO = 'openmdao/drivers/autoscalers/bounds_autoscaler.py'
OVEC = 'openmdao/vectors/optimizer_vector.py'
DRIVER = 'openmdao/core/driver.py'
SYSTEM = 'openmdao/core/system.py'
GUTILS = 'openmdao/utils/general_utils.py'
TOTJAC = 'openmdao/core/total_jac.py'
UNITS = 'openmdao/utils/units.py'

describe('C20',
         'Decides structural necessary conditions of exact driver scaling: (affine) determine_adder_scaler, '
         'interpreted over exact rationals on 8 generic (ref, ref0) points per None-pattern and composed with '
         'the operation sequence extracted from Autoscaler._apply_vec_scaling, sends ref0 to 0 and ref to 1 and '
         'passes adder/scaler through; (mirror) _apply_vec_unscaling is the reversed list of inverse operations '
         'with the same operands and None-guards, both read total_adder/total_scaler of '
         'self._var_meta[vec.voi_type][name]; (flag) the driver_scaling typestate: early return when already in '
         'the target state, flag flipped on every normal path, reset before re-population, written by set_data; '
         '(bounds) _scale_bound applies the same sequence to all finite entries, infinite entries end on the '
         'sentinel of the right sign, call sites pass (bound, total_adder, total_scaler, is_lower) in the '
         'right slots and the (lower, upper, equals) order survives setup/get_bounds_scaling; (jac) row scaling '
         'by the response scaler, column scaling by the reciprocal design-variable scaler, in place, same in '
         'flat and nested format, for Autoscaler.apply_jac_scaling and _TotalJacInfo._apply_unit_scaling, key '
         'order (of, wrt) as produced by _get_dict_J; (order) scaling after _apply_subtractions, exactly once; '
         '(mult) multiplier *= scaler/obj_scaler in place from the matching table; (mult-array) no truth test of '
         'an array-valued scaler; (proto) slot order of every determine_adder_scaler / unit_conversion '
         'producer and consumer; (units-mirror) src->declared on read, declared->src on write; (dispatch) '
         'voi_type tables agree; (space) no arithmetic/comparison between a driver-scaled response value and a '
         'model-space bound in driver code; (gates) _has_scaling covers all three tables, early returns fire only '
         'when nothing is declared, the driver_scaling request reaches the vector; (bounds-autoscaler) the installed '
         'pair sends [lower, upper] to [0, 1].  Does not decide floating point round-off, negative scalers and '
         'bound order, MPI gathers, or what third-party optimizers do with the numbers.',
         ['metadata keys total_adder/total_scaler/unit_scaler/lower/upper/equals are the repository\'s '
          'vocabulary for the roles they name',
          'rational identities are checked on 8 generic points per None-pattern (degree <= 2 expressions)',
          'OptimizerVector.__getitem__ returns a view (in-place updates reach the data)'])


# =========================================================================== generic helpers
_FLIPC = {ast.Gt: 'Lt', ast.GtE: 'LtE'}


def K(node):
    """Structural key ignoring Load/Store context and comparison direction (no deepcopy: nodes carry
    parent links, copying them would copy the whole module)."""
    if node is None:
        return 'None'
    if isinstance(node, ast.expr_context):
        return ''
    if isinstance(node, ast.AST):
        if isinstance(node, ast.Compare) and len(node.ops) == 1 and type(node.ops[0]) in _FLIPC:
            return f'Compare({K(node.comparators[0])},[{_FLIPC[type(node.ops[0])]}()],[{K(node.left)}])'
        if isinstance(node, ast.UnaryOp) and isinstance(node.op, ast.USub) and isinstance(node.operand, ast.Constant) \
                and isinstance(node.operand.value, (int, float)) and not isinstance(node.operand.value, bool):
            return f'Constant({-node.operand.value!r})'
        if isinstance(node, ast.Constant):
            return f'Constant({node.value!r})'
        return f'{type(node).__name__}(' + ','.join(K(getattr(node, f, None)) for f in node._fields) + ')'
    if isinstance(node, list):
        return '[' + ','.join(K(x) for x in node) + ']'
    return repr(node)


def const_num(e):
    """Numeric value of a literal (incl. -literal), else None."""
    if isinstance(e, ast.Constant) and isinstance(e.value, (int, float)) and not isinstance(e.value, bool):
        return e.value
    if isinstance(e, ast.UnaryOp) and isinstance(e.op, ast.USub):
        v = const_num(e.operand)
        return None if v is None else -v
    return None


class Ctx:
    """Function + CFG + reaching definitions."""

    def __init__(self, fn):
        self.fn = fn
        self._g = self._rd = None
        a = fn.node.args
        self.params = [x.arg for x in a.posonlyargs + a.args + a.kwonlyargs]

    @property
    def g(self):
        if self._g is None:
            self._g = cfgm.build(self.fn)
        return self._g

    @property
    def rd(self):
        if self._rd is None:
            self._rd = cfgm.ReachingDefs(self.g)
        return self._rd

    def node(self, stmt):
        ns = self.g.nodes_of(stmt)
        if not ns:
            raise AnalysisError(f'{self.fn.ident}: statement not in CFG (unreachable?): {astx.src(stmt)}')
        return ns[0]

    def defs(self, at, name):
        """Definitions of local *name* reaching *at*: list of (kind, payload, defnode).

        kinds: 'expr' (value expression), 'param', 'unpack' (value expr, index), 'loop' (For stmt, index
        path tuple), 'aug' (AugAssign stmt), 'other'.
        """
        out = []
        for d in sorted(self.rd.defs(at, name), key=lambda n: n.id):
            if d is self.g.entry:
                out.append(('param', name, d))
                continue
            st = d.ast
            if d.kind == 'stmt' and isinstance(st, ast.Assign):
                hit = None
                for t in st.targets:
                    if isinstance(t, ast.Name) and t.id == name:
                        hit = ('expr', st.value, d)
                    elif isinstance(t, (ast.Tuple, ast.List)):
                        for i, e in enumerate(t.elts):
                            if isinstance(e, ast.Name) and e.id == name:
                                if isinstance(st.value, (ast.Tuple, ast.List)) and \
                                        len(st.value.elts) == len(t.elts):
                                    hit = ('expr', st.value.elts[i], d)
                                else:
                                    hit = ('unpack', (st.value, i), d)
                out.append(hit or ('other', st, d))
            elif d.kind == 'stmt' and isinstance(st, ast.AnnAssign) and st.value is not None and \
                    isinstance(st.target, ast.Name):
                out.append(('expr', st.value, d))
            elif d.kind == 'stmt' and isinstance(st, ast.AugAssign):
                out.append(('aug', st, d))
            elif d.kind == 'iter':
                idx = _target_index(st.target, name)
                out.append(('loop', (st, idx), d) if idx is not None else ('other', st, d))
            else:
                out.append(('other', st, d))
        return out

    def resolve(self, e, at, depth=0):
        """Follow a local Name through unique plain assignments (and through small pure helper methods of the
        same class, which are inlined); returns (expr, node-of-evaluation)."""
        while depth < 8:
            if isinstance(e, ast.Name):
                ds = self.defs(at, e.id)
                if len(ds) != 1:
                    break
                if ds[0][0] == 'expr':
                    e, at = ds[0][1], ds[0][2]
                elif ds[0][0] == 'unpack' and isinstance(ds[0][1][0], ast.Call):
                    r = self.inline(ds[0][1][0], ds[0][1][1])
                    if r is None:
                        break
                    e, at = r, ds[0][2]
                else:
                    break
            elif isinstance(e, ast.Call):
                r = self.inline(e, None)
                if r is None:
                    break
                e = r
            else:
                break
            depth += 1
        return e, at

    def inline(self, call, idx):
        """Value of `self.helper(args)` (element idx of the returned tuple when idx is not None) as an expression
        over the caller's names, for helpers that are straight-line code ending in a single return."""
        f = call.func
        if not (isinstance(f, ast.Attribute) and isinstance(f.value, ast.Name) and f.value.id in ('self', 'cls')):
            return None
        qn = self.fn.qualname
        if '.' not in qn:
            return None
        callee = self.fn.module.funcs.get(qn.rsplit('.', 1)[0] + '.' + f.attr)
        if callee is None or callee.node is self.fn.node:
            return None
        key = (id(call), idx)
        cache = self.__dict__.setdefault('_inl', {})
        if key in cache:
            return cache[key]
        cache[key] = None
        b = _bind(call, callee.node)
        if b is None:
            return None
        body = astx.strip_doc(callee.node.body)
        if any(not isinstance(st, (ast.Assign, ast.AnnAssign, ast.Return, ast.Expr, ast.Pass)) for st in body):
            return None
        rets = [st for st in body if isinstance(st, ast.Return)]
        if len(rets) != 1 or rets[0] is not body[-1] or rets[0].value is None:
            return None
        cctx = Ctx(callee)
        params = cctx.params

        def build(x, at_, d=0):
            if d > 10:
                return None
            if isinstance(x, ast.Constant):
                return x
            if isinstance(x, ast.Name):
                if x.id in ('self', 'cls'):
                    return ast.Name(id=x.id, ctx=ast.Load())
                ds = cctx.defs(at_, x.id)
                if len(ds) == 1 and ds[0][0] == 'param':
                    return b.get(x.id) if x.id in b else _default_of(callee.node, x.id)
                if len(ds) == 1 and ds[0][0] == 'expr':
                    return build(ds[0][1], ds[0][2], d + 1)
                return None
            if isinstance(x, ast.Attribute):
                v = build(x.value, at_, d + 1)
                return None if v is None else ast.Attribute(value=v, attr=x.attr, ctx=ast.Load())
            if isinstance(x, ast.Subscript):
                v, sl = build(x.value, at_, d + 1), build(x.slice, at_, d + 1)
                return None if v is None or sl is None else ast.Subscript(value=v, slice=sl, ctx=ast.Load())
            if isinstance(x, (ast.Tuple, ast.List)):
                es = [build(y, at_, d + 1) for y in x.elts]
                return None if any(y is None for y in es) else ast.Tuple(elts=es, ctx=ast.Load())
            if isinstance(x, ast.Call) and isinstance(x.func, ast.Attribute) and x.func.attr == 'get' and \
                    len(x.args) == 1 and not x.keywords and isinstance(x.args[0], ast.Constant):
                v = build(x.func.value, at_, d + 1)       # d.get('k') read as d['k'] (None default irrelevant here)
                return None if v is None else ast.Subscript(value=v, slice=x.args[0], ctx=ast.Load())
            return None
        rn = cctx.g.nodes_of(rets[0])
        if not rn:
            return None
        val = build(rets[0].value, rn[0])
        if val is not None and idx is not None:
            val = val.elts[idx] if isinstance(val, ast.Tuple) and idx < len(val.elts) else None
        cache[key] = val
        return val

    def chain(self, e, at):
        """Flatten nested constant/Name subscripts: (root expr, [(slice expr, at)...]) outermost last."""
        e, at = self.resolve(e, at)
        sl = []
        while isinstance(e, ast.Subscript):
            sl.append((e.slice, at))
            e, at = self.resolve(e.value, at)
        return e, at, sl[::-1]


def _default_of(fdef, pname):
    a = fdef.args
    names = [x.arg for x in a.args]
    if pname in names:
        i = names.index(pname) - (len(names) - len(a.defaults))
        if i >= 0:
            return a.defaults[i]
    for x, dflt in zip(a.kwonlyargs, a.kw_defaults):
        if x.arg == pname:
            return dflt
    return None


def _target_index(t, name, pre=()):
    if isinstance(t, ast.Name):
        return pre if t.id == name else None
    if isinstance(t, (ast.Tuple, ast.List)):
        for i, e in enumerate(t.elts):
            r = _target_index(e, name, pre + (i,))
            if r is not None:
                return r
    return None


def none_test(t):
    """(expr, present) for `E is not None` / `E is None` / `not (...)`, else None."""
    if isinstance(t, ast.UnaryOp) and isinstance(t.op, ast.Not):
        r = none_test(t.operand)
        return None if r is None else (r[0], not r[1])
    if isinstance(t, ast.Compare) and len(t.ops) == 1 and isinstance(t.comparators[0], ast.Constant) \
            and t.comparators[0].value is None:
        if isinstance(t.ops[0], ast.IsNot):
            return t.left, True
        if isinstance(t.ops[0], ast.Is):
            return t.left, False
    return None


def guards(st, stop):
    """[(test expr, polarity)] of the If ancestors of *st* strictly below *stop*; None if another
    compound statement intervenes."""
    out = []
    cur = st
    for a in astx.ancestors(st):
        if a is stop:
            return out
        if isinstance(a, ast.If):
            if cur in a.body:
                out.append((a.test, True))
            elif cur in a.orelse:
                out.append((a.test, False))
            else:
                return None
        elif isinstance(a, ast.stmt):
            return None
        cur = a if isinstance(a, ast.stmt) else cur
    return out


def controlling(g, target, scope_stmt):
    """[(test expr, required outcome)] of the if-tests lexically inside *scope_stmt* that *target* is control
    dependent on: removing that outcome's edge makes the target unreachable (covers nesting and early
    continue/break/return alike)."""
    res = []
    for T in g.nodes:
        if T.kind != 'test' or not isinstance(T.ast, ast.If) or not g.inside(T, scope_stmt):
            continue
        for lab in ('true', 'false'):
            r = bfs(g, [g.entry], lambda n, m, l, T=T, lab=lab: l != 'exc' and not (n is T and l == lab))
            if target not in r:
                res.append((T.ast.test, lab == 'true'))
    return res


def near_guards(st):
    """If-ancestors of *st* up to the nearest enclosing non-If compound statement."""
    out = []
    cur = st
    for a in astx.ancestors(st):
        if isinstance(a, ast.If):
            if cur in a.body:
                out.append((a.test, True))
            elif cur in a.orelse:
                out.append((a.test, False))
            else:
                break
        elif isinstance(a, ast.stmt) or not isinstance(a, ast.AST):
            break
        else:
            break
        cur = a
    return out


def atoms(gl):
    """Split conjunctions: [(expr, polarity)] -> flat list of atomic (expr, polarity)."""
    out = []
    todo = list(gl)
    while todo:
        t, pol = todo.pop()
        if isinstance(t, ast.UnaryOp) and isinstance(t.op, ast.Not):
            todo.append((t.operand, not pol))
        elif isinstance(t, ast.BoolOp) and isinstance(t.op, ast.And) and pol:
            todo.extend((v, True) for v in t.values)
        elif isinstance(t, ast.BoolOp) and isinstance(t.op, ast.Or) and not pol:
            todo.extend((v, False) for v in t.values)
        else:
            out.append((t, pol))
    return out


_AUG = {ast.Add: 'add', ast.Sub: 'sub', ast.Mult: 'mul', ast.Div: 'div'}
_INV = {'add': 'sub', 'sub': 'add', 'mul': 'div', 'div': 'mul'}


def linear_op(st):
    """(target, op, operand) for `T op= E`, `T = T op E` and (commutative) `T = E op T`."""
    if isinstance(st, ast.AugAssign) and type(st.op) in _AUG:
        return st.target, _AUG[type(st.op)], st.value
    if isinstance(st, ast.Assign) and len(st.targets) == 1 and isinstance(st.value, ast.BinOp) and \
            type(st.value.op) in _AUG:
        t, v = st.targets[0], st.value
        if K(t) == K(v.left):
            return t, _AUG[type(v.op)], v.right
        if K(t) == K(v.right) and isinstance(v.op, (ast.Add, ast.Mult)):
            return t, _AUG[type(v.op)], v.left
    return None


def norm_op(op, operand):
    """`*= 1/x` -> ('div', x); `+= -x` -> ('sub', x)."""
    if op in ('mul', 'div') and isinstance(operand, ast.BinOp) and isinstance(operand.op, ast.Div) and \
            const_num(operand.left) == 1:
        return _INV[op], operand.right
    if op in ('add', 'sub') and isinstance(operand, ast.UnaryOp) and isinstance(operand.op, ast.USub):
        return _INV[op], operand.operand
    return op, operand


def bfs(g, starts, edge_ok=None, avoid=()):
    """Reachable node set with a per-edge predicate edge_ok(n, m, label)."""
    avoid = set(avoid)
    seen = set(s for s in starts if s not in avoid)
    dq = deque(seen)
    while dq:
        n = dq.popleft()
        for m, lab in g.succ[n]:
            if m in seen or m in avoid:
                continue
            if edge_ok is not None and not edge_ok(n, m, lab):
                continue
            seen.add(m)
            dq.append(m)
    return seen


def meta_key(ctx, e, at):
    """For an expression that reads `<base>[<const str>]` (through local aliases):
    (key, root expr, [(slice, at)...] of the base) else None."""
    root, rat, sl = ctx.chain(e, at)
    if not sl:
        return None
    k = astx.const_str(sl[-1][0])
    if k is None:
        return None
    return k, root, sl[:-1]


# =========================================================================== vector scaling functions
FWD = [('add', 'total_adder'), ('mul', 'total_scaler')]
INVSEQ = [('div', 'total_scaler'), ('sub', 'total_adder')]
WRONG_KEYS = {'adder', 'scaler', 'ref', 'ref0', 'unit_scaler', 'unit_adder'}


class VecFn:
    """Operation list of Autoscaler._apply_vec_scaling / _apply_vec_unscaling."""

    def __init__(self, repo, qn):
        self.fn = repo.func(AUTO, qn)
        self.ctx = Ctx(self.fn)
        ps = self.ctx.params
        if len(ps) < 2:
            raise AnalysisError(f'{self.fn.ident}: expected (self, vec)')
        self.vec = ps[1]
        self.loop = None
        self.ops = []       # (op, key, stmt)
        self.bad = []       # (stmt, why, slug)
        self.unsure = []    # (stmt, why)
        self._scan()

    def _iter_ok(self, it):
        if isinstance(it, ast.Name) and it.id == self.vec:
            return True
        if isinstance(it, ast.Call) and not it.args and astx.path(it.func) in (
                f'{self.vec}.keys', f'{self.vec}._meta.keys', f'{self.vec}.metadata.keys'):
            return True
        return astx.path(it) in (f'{self.vec}._meta', f'{self.vec}.metadata')

    def _scan(self):
        ctx, V = self.ctx, self.vec
        loops = [st for st in astx.walk_stmts(self.fn.node.body) if isinstance(st, ast.For)
                 and self._iter_ok(st.iter)]
        if len(loops) != 1 or not isinstance(loops[0].target, ast.Name):
            raise AnalysisError(f'{self.fn.ident}: expected exactly one `for name in {V}` loop')
        loop = self.loop = loops[0]
        nm = loop.target.id
        for st in astx.walk_stmts(loop.body):
            if isinstance(st, (ast.If, ast.Pass)):
                continue
            if isinstance(st, ast.Expr) and isinstance(st.value, ast.Constant):
                continue
            tg = astx.assigned_targets(st) if isinstance(st, (ast.Assign, ast.AugAssign, ast.AnnAssign)) else None
            if tg is None:
                self.unsure.append((st, 'unrecognised statement inside the per-variable loop'))
                continue
            on_vec = [t for t in tg if isinstance(t, ast.Subscript) and astx.path(t.value) in (V, f'{V}._data')]
            if not on_vec:
                if all(isinstance(t, ast.Name) for t in tg):
                    continue
                self.unsure.append((st, 'unrecognised store inside the per-variable loop'))
                continue
            lin = linear_op(st)
            if lin is None:
                self.unsure.append((st, f'update of {V}[...] is not of the form `T op= E`'))
                continue
            tgt, op, operand = lin
            if not (astx.path(tgt.value) == V and isinstance(tgt.slice, ast.Name) and tgt.slice.id == nm):
                self.unsure.append((st, f'update target is not {V}[{nm}]'))
                continue
            op, operand = norm_op(op, operand)
            at = ctx.node(st)
            mk = meta_key(ctx, operand, at)
            if mk is None:
                self.unsure.append((st, f'operand `{astx.src(operand)}` is not read from the variable metadata'))
                continue
            key, root, sl = mk
            if key in WRONG_KEYS:
                self.bad.append((st, f"operand is meta['{key}'], not the combined total_adder/total_scaler that "
                                 "determine_adder_scaler produced: ref/ref0 (or scaler/adder) is ignored", 'operand-key'))
                continue
            if key not in ('total_adder', 'total_scaler'):
                self.unsure.append((st, f"operand key '{key}' is not a known scaling slot"))
                continue
            # base must be self._var_meta[vec.voi_type][name]
            if astx.path(root) != 'self._var_meta' or len(sl) != 2:
                self.unsure.append((st, f'metadata of the operand is not self._var_meta[..][..] ({astx.src(root)})'))
                continue
            (t_e, t_at), (n_e, n_at) = sl
            t_e, _ = ctx.resolve(t_e, t_at)
            if astx.const_str(t_e) is not None:
                self.bad.append((st, f"operand is read from the fixed table '{astx.const_str(t_e)}' although the "
                                 f"function serves every {V}.voi_type", 'operand-table'))
                continue
            if astx.path(t_e) != f'{V}.voi_type':
                self.unsure.append((st, f'metadata table is selected by `{astx.src(t_e)}`, expected {V}.voi_type'))
                continue
            if not (isinstance(n_e, ast.Name) and n_e.id == nm):
                self.unsure.append((st, f'metadata is indexed by `{astx.src(n_e)}`, expected the loop variable {nm}'))
                continue
            # guard
            gl = guards(st, loop)
            if gl is None:
                self.unsure.append((st, 'update is nested in an unrecognised compound statement'))
                continue
            gset = set()
            okg = True
            for t, pol in atoms(gl):
                nt = none_test(t)
                mk2 = meta_key(ctx, nt[0], ctx.node(st)) if nt else None
                if nt is None or mk2 is None:
                    self.unsure.append((st, f'unrecognised guard `{astx.src(t)}`'))
                    okg = False
                    break
                gset.add((mk2[0], nt[1] == pol))
            if not okg:
                continue
            if not gset:
                self.unsure.append((st, f"update with meta['{key}'] is not guarded against None"))
                continue
            if gset != {(key, True)}:
                self.bad.append((st, f"update with meta['{key}'] is guarded by "
                                 f"{sorted(('%s is %sNone' % (k, 'not ' if p else '')) for k, p in gset)}: it is "
                                 "skipped/executed for the wrong variables", 'guard'))
                continue
            self.ops.append((op, key, st))
        self.ops.sort(key=lambda o: (o[2].lineno, o[2].col_offset))

    def seq(self):
        return [(o, k) for o, k, _ in self.ops]

    def op_nodes(self):
        return [n for _, _, st in self.ops for n in self.ctx.g.nodes_of(st)]


def _fmt_seq(s):
    sym = {'add': '+=', 'sub': '-=', 'mul': '*=', 'div': '/='}
    return '[' + ', '.join(f'{sym[o]} {k}' for o, k in s) + ']'


def _report_vecfn(out, vf, want, what):
    for st, why in vf.unsure:
        out.unsure(vf.fn, st, why)
    for st, why, slug in vf.bad:
        out.bad(vf.fn, st, why, key=slug)
    if vf.unsure or vf.bad:
        return False
    got = vf.seq()
    if got == want:
        out.ok(vf.fn, vf.loop, f'{what}: {_fmt_seq(got)} on {vf.vec}[name], each under `is not None` of its operand')
        return True
    if sorted(got) == sorted(want):
        why = f'operations are applied in the wrong order: found {_fmt_seq(got)}, required {_fmt_seq(want)}'
    else:
        why = f'operation list is {_fmt_seq(got)}, required {_fmt_seq(want)}'
    out.bad(vf.fn, vf.loop, f'{what}: {why}', key='sequence')
    return False


@rule('C20.mirror', floor=2)
def mirror(repo, out):
    """_apply_vec_scaling = [+= total_adder, *= total_scaler]; _apply_vec_unscaling = exact reversed inverse list."""
    f = VecFn(repo, 'Autoscaler._apply_vec_scaling')
    i = VecFn(repo, 'Autoscaler._apply_vec_unscaling')
    _report_vecfn(out, f, FWD, 'model -> optimizer map (x + adder) * scaler')
    # the inverse is derived from what the forward function actually does when that was recognised
    fwd = f.seq() if not (f.bad or f.unsure) and sorted(f.seq()) == sorted(FWD) else FWD
    want = [(_INV[o], k) for o, k in reversed(fwd)]
    _report_vecfn(out, i, want, 'optimizer -> model map is the reversed list of inverse operations')


# --------------------------------------------------------------------------- affine
class _Abort(Exception):
    pass


class _Raised(Exception):
    pass


class _Ret(Exception):
    def __init__(self, v):
        self.v = v


def _ev(e, env):
    if isinstance(e, ast.Constant):
        v = e.value
        if isinstance(v, bool) or v is None or isinstance(v, str):
            return v
        if isinstance(v, (int, float)):
            return Fraction(str(v))
        raise _Abort(e)
    if isinstance(e, ast.Name):
        if e.id not in env:
            raise _Abort(e)
        return env[e.id]
    if isinstance(e, ast.UnaryOp):
        v = _ev(e.operand, env)
        if isinstance(e.op, ast.Not):
            if not isinstance(v, bool):
                raise _Abort(e)
            return not v
        if isinstance(e.op, ast.USub) and isinstance(v, Fraction):
            return -v
        if isinstance(e.op, ast.UAdd) and isinstance(v, Fraction):
            return v
        raise _Abort(e)
    if isinstance(e, ast.BinOp):
        a, b = _ev(e.left, env), _ev(e.right, env)
        if not isinstance(a, Fraction) or not isinstance(b, Fraction):
            raise _Abort(e)
        if isinstance(e.op, ast.Add):
            return a + b
        if isinstance(e.op, ast.Sub):
            return a - b
        if isinstance(e.op, ast.Mult):
            return a * b
        if isinstance(e.op, ast.Div):
            if b == 0:
                raise _Abort(e)
            return a / b
        raise _Abort(e)
    if isinstance(e, ast.Compare) and len(e.ops) == 1:
        nt = none_test(e)
        if nt is not None:
            v = _ev(nt[0], env)
            return (v is not None) == nt[1]
        raise _Abort(e)
    if isinstance(e, ast.BoolOp):
        vals = [_ev(v, env) for v in e.values]
        if not all(isinstance(v, bool) for v in vals):
            raise _Abort(e)
        return all(vals) if isinstance(e.op, ast.And) else any(vals)
    if isinstance(e, ast.IfExp):
        t = _ev(e.test, env)
        if not isinstance(t, bool):
            raise _Abort(e)
        return _ev(e.body if t else e.orelse, env)
    if isinstance(e, (ast.Tuple, ast.List)):
        return tuple(_ev(x, env) for x in e.elts)
    if isinstance(e, ast.Call):
        nm = astx.callee_attr(e)
        if nm == 'format_as_float_or_array':
            # identity on its 2nd argument, val_if_none (default 0.0) when that is None  [general_utils]
            val = astx.arg(e, 1, 'values')
            if val is None:
                raise _Abort(e)
            v = _ev(val, env)
            if v is None:
                d = astx.arg(e, 2, 'val_if_none')
                return _ev(d, env) if d is not None else Fraction(0)
            return v
        if nm in ('float', 'asarray', 'atleast_1d', 'array') and len(e.args) >= 1:
            return _ev(e.args[0], env)
        if nm in ('item', 'copy', 'ravel', 'flatten') and not e.args and isinstance(e.func, ast.Attribute):
            return _ev(e.func.value, env)
        raise _Abort(e)
    raise _Abort(e)


def _run(stmts, env):
    for st in stmts:
        if isinstance(st, ast.Expr) and isinstance(st.value, ast.Constant):
            continue
        if isinstance(st, ast.Pass):
            continue
        if isinstance(st, ast.Assign) and len(st.targets) == 1 and isinstance(st.targets[0], ast.Name):
            env[st.targets[0].id] = _ev(st.value, env)
        elif isinstance(st, ast.Assign) and len(st.targets) == 1 and isinstance(st.targets[0], ast.Tuple) \
                and all(isinstance(t, ast.Name) for t in st.targets[0].elts):
            v = _ev(st.value, env)
            if not isinstance(v, tuple) or len(v) != len(st.targets[0].elts):
                raise _Abort(st)
            for t, x in zip(st.targets[0].elts, v):
                env[t.id] = x
        elif isinstance(st, ast.If):
            t = _ev(st.test, env)
            if not isinstance(t, bool):
                raise _Abort(st)
            _run(st.body if t else st.orelse, env)
        elif isinstance(st, ast.Raise):
            raise _Raised()
        elif isinstance(st, ast.Return):
            raise _Ret(_ev(st.value, env) if st.value is not None else None)
        else:
            raise _Abort(st)


def _call_das(fn, **kw):
    ps = [a.arg for a in fn.node.args.args]
    if sorted(ps) != ['adder', 'ref', 'ref0', 'scaler']:
        raise AnalysisError(f'{fn.ident}: parameters are {ps}, expected ref0/ref/adder/scaler')
    env = {p: kw.get(p) for p in ps}
    try:
        _run(fn.node.body, env)
    except _Ret as r:
        if not (isinstance(r.v, tuple) and len(r.v) == 2):
            raise _Abort(fn.node)
        return r.v
    raise _Abort(fn.node)


_PTS = [(3, 1), (-2, 5), (Fraction(1, 2), Fraction(-7, 3)), (10, 0), (0, 4), (-3, -8), (Fraction(5, 4), 7),
        (100, Fraction(-1, 10))]


def _apply_seq(seq, x, adder, scaler):
    for op, key in seq:
        v = adder if key == 'total_adder' else scaler
        if op == 'add':
            x = x + v
        elif op == 'sub':
            x = x - v
        elif op == 'mul':
            x = x * v
        else:
            if v == 0:
                raise _Abort(None)
            x = x / v
    return x


@rule('C20.affine', floor=5)
def affine(repo, out):
    """determine_adder_scaler composed with the extracted scaling sequence maps ref0 -> 0 and ref -> 1; adder/scaler pass through."""
    fn = repo.func(GUTILS, 'determine_adder_scaler')
    vf = VecFn(repo, 'Autoscaler._apply_vec_scaling')
    seq = vf.seq()
    if vf.bad or vf.unsure or sorted(seq) != sorted(FWD):
        seq = FWD   # C20.mirror reports the function itself; here the documented map is used
    cases = [('ref and ref0 given', True, True), ('only ref given', True, False), ('only ref0 given', False, True)]
    for label, has_ref, has_ref0 in cases:
        bad = None
        try:
            for ref, ref0 in _PTS:
                ref, ref0 = Fraction(ref), Fraction(ref0)
                if not has_ref0 and ref == 0:
                    continue
                if not has_ref and ref0 == 1:
                    continue
                a, s = _call_das(fn, ref=ref if has_ref else None, ref0=ref0 if has_ref0 else None)
                if not isinstance(a, Fraction) or not isinstance(s, Fraction):
                    raise _Abort(fn.node)
                if s == 0:
                    bad = f'scaler is 0 for ref={ref}, ref0={ref0}: the map is not invertible'
                    break
                if has_ref0 and _apply_seq(seq, ref0, a, s) != 0:
                    bad = (f'with ref={ref if has_ref else None}, ref0={ref0} the returned (adder={a}, scaler={s}) '
                           f'maps ref0 to {_apply_seq(seq, ref0, a, s)} under {_fmt_seq(seq)}, not to 0')
                    break
                if has_ref and _apply_seq(seq, ref, a, s) != 1:
                    bad = (f'with ref={ref}, ref0={ref0 if has_ref0 else None} the returned (adder={a}, scaler={s}) '
                           f'maps ref to {_apply_seq(seq, ref, a, s)} under {_fmt_seq(seq)}, not to 1')
                    break
                if has_ref and not has_ref0 and _apply_seq(seq, Fraction(0), a, s) != 0:
                    bad = f'with only ref={ref} given the map has an offset: 0 -> {_apply_seq(seq, Fraction(0), a, s)}'
                    break
        except _Raised:
            bad = 'raises for a plain ref/ref0 request'
        except _Abort as ab:
            n = ab.args[0] if ab.args else None
            out.unsure(fn, n if isinstance(n, ast.AST) else fn.node,
                       f'{label}: construct outside the interpreted fragment')
            continue
        if bad:
            out.bad(fn, fn.node, f'{label}: {bad}', key='ref-ref0-' + label.replace(' ', '-'))
        else:
            out.ok(fn, fn.node, f'{label}: (x + adder) * scaler sends ref0 to 0 and ref to 1 on {len(_PTS)} exact points')
    # pass-through of adder/scaler
    bad = None
    try:
        for a0, s0 in _PTS:
            a0, s0 = Fraction(a0), Fraction(s0)
            if s0 == 0:
                continue
            for ga, gs in ((True, True), (True, False), (False, True), (False, False)):
                a, s = _call_das(fn, adder=a0 if ga else None, scaler=s0 if gs else None)
                wa, ws = (a0 if ga else Fraction(0)), (s0 if gs else Fraction(1))
                for x in (Fraction(0), Fraction(1), Fraction(-7, 2)):
                    if _apply_seq(seq, x, a, s) != _apply_seq(seq, x, wa, ws):
                        bad = (f'adder={a0 if ga else None}, scaler={s0 if gs else None} is turned into '
                               f'(adder={a}, scaler={s}): x={x} maps to {_apply_seq(seq, x, a, s)}, declared map gives '
                               f'{_apply_seq(seq, x, wa, ws)}')
                        break
                if bad:
                    break
            if bad:
                break
    except _Raised:
        bad = 'raises for a plain adder/scaler request'
    except _Abort as ab:
        n = ab.args[0] if ab.args else None
        out.unsure(fn, n if isinstance(n, ast.AST) else fn.node, 'adder/scaler: construct outside the interpreted fragment')
        return
    if bad:
        out.bad(fn, fn.node, f'adder/scaler pass-through: {bad}', key='adder-scaler-passthrough')
    else:
        out.ok(fn, fn.node, 'adder/scaler are returned unchanged (None -> neutral element)')
    # mixing both families must not silently pick one
    try:
        _call_das(fn, ref=Fraction(2), scaler=Fraction(3))
        out.bad(fn, fn.node, 'ref together with scaler is accepted silently: one of the two declarations is dropped',
                key='mutually-exclusive')
    except _Raised:
        out.ok(fn, fn.node, 'ref/ref0 together with scaler/adder is rejected')
    except _Abort:
        pass


# --------------------------------------------------------------------------- flag
def _flag_test(t, V):
    """True/False = truth of test implies flag value; None if not a flag test."""
    pol = True
    while isinstance(t, ast.UnaryOp) and isinstance(t.op, ast.Not):
        t, pol = t.operand, not pol
    if astx.path(t) in (f'{V}.driver_scaling', f'{V}._driver_scaling'):
        return pol
    if isinstance(t, ast.Compare) and len(t.ops) == 1 and isinstance(t.ops[0], (ast.Is, ast.Eq, ast.IsNot, ast.NotEq)) \
            and astx.path(t.left) in (f'{V}.driver_scaling', f'{V}._driver_scaling') \
            and isinstance(t.comparators[0], ast.Constant) and isinstance(t.comparators[0].value, bool):
        v = t.comparators[0].value
        if isinstance(t.ops[0], (ast.IsNot, ast.NotEq)):
            v = not v
        return pol == v
    return None


def _flag_writes(g, V):
    """[(node, constant value or Name id or None)] for writes of V.driver_scaling / V._driver_scaling."""
    res = []
    for n in g.nodes:
        if n.kind != 'stmt' or not isinstance(n.ast, (ast.Assign, ast.AugAssign, ast.AnnAssign)):
            continue
        for t in astx.assigned_targets(n.ast):
            if astx.path(t) in (f'{V}.driver_scaling', f'{V}._driver_scaling'):
                v = getattr(n.ast, 'value', None)
                if isinstance(v, ast.Constant):
                    res.append((n, v.value))
                elif isinstance(v, ast.Name):
                    res.append((n, v.id))
                else:
                    res.append((n, None))
    return res


def _check_flag(out, vf, want):
    """Typestate discipline of one (un)scaling function; want = flag value after the function."""
    fn, g, V = vf.fn, vf.ctx.g, vf.vec
    ops = vf.op_nodes()
    if not ops:
        raise AnalysisError(f'{fn.ident}: no recognised scaling operation')
    tests = {}
    for n in g.nodes:
        if n.kind == 'test' and isinstance(n.ast, ast.If):
            p = _flag_test(n.ast.test, V)
            if p is not None:
                tests[n] = p
            elif astx.mentions(n.ast.test, 'driver_scaling', '_driver_scaling'):
                out.unsure(fn, n.ast, 'unrecognised test of the driver_scaling flag')
                return
    word = 'scaled' if want else 'unscaled'

    def already(n, m, lab):
        # follow only edges compatible with "flag already == want"
        if lab == 'exc':
            return False
        if n in tests and lab in ('true', 'false'):
            flag_val = tests[n] if lab == 'true' else not tests[n]
            return flag_val == want
        return True
    r = bfs(g, [g.entry], already)
    hit = [n for n in ops if n in r]
    if hit:
        out.bad(fn, hit[0].ast, f'the operation is applied although {V}.driver_scaling says the vector is already '
                f'{word}: a second call {"scales" if want else "unscales"} the values twice', key='flag-early-return')
        return
    out.ok(fn, next(iter(tests)).ast, f'no operation is reachable when the vector is already {word}')

    def proceed(n, m, lab):
        if lab == 'exc':
            return False
        if n in tests and lab in ('true', 'false'):
            flag_val = tests[n] if lab == 'true' else not tests[n]
            return flag_val != want
        return True
    writes = _flag_writes(g, V)
    odd = [n for n, v in writes if not isinstance(v, bool)]
    if odd:
        out.unsure(fn, odd[0].ast, 'driver_scaling flag is written with a non-literal value')
        return
    wrong = [n for n, v in writes if v is not want]
    if wrong:
        out.bad(fn, wrong[0].ast, f'{V}.driver_scaling is set to `{astx.src(wrong[0].ast.value)}` after the vector '
                f'was {word}; it must become {want}', key='flag-set')
        return
    sets = [n for n, v in writes if v is want]
    r = bfs(g, [m for o in ops for m in g.normal_succ(o)], proceed, avoid=sets)
    if g.exit in r or not sets:
        out.bad(fn, vf.loop, f'the function can return after {"scaling" if want else "unscaling"} without setting '
                f'{V}.driver_scaling = {want}: the next (un)scaling call acts on the wrong state', key='flag-set')
        return
    out.ok(fn, sets[0].ast, f'{V}.driver_scaling = {want} on every normal path that applies the operations')


def _class_funcs(repo, rel, cls, name):
    """All FunctionDefs called *name* in the class body (property getter and setter share a name)."""
    c = repo.cls(rel, cls)
    return [st for st in c.body if isinstance(st, ast.FunctionDef) and st.name == name]


@rule('C20.flag', floor=9)
def flag(repo, out):
    """driver_scaling typestate: early return, flag flip, reset before re-population, set_data and property write it."""
    _check_flag(out, VecFn(repo, 'Autoscaler._apply_vec_scaling'), True)
    _check_flag(out, VecFn(repo, 'Autoscaler._apply_vec_unscaling'), False)
    # update_from_model: the vector is refilled with model values, so the flag must be False before the
    # autoscaler is asked to scale it (otherwise _apply_vec_scaling returns early on a stale True)
    fn = repo.func(OVEC, 'OptimizerVector.update_from_model')
    g = cfgm.build(fn)
    calls = [n for n in g.nodes if n.kind == 'stmt' and any(
        (astx.callee_attr(c) or '').startswith('apply_') and (astx.callee_attr(c) or '').endswith('_scaling')
        and any(isinstance(a, ast.Name) and a.id == 'self' for a in c.args) for c in n.calls())]
    if not calls:
        raise AnalysisError(f'{fn.ident}: no apply_*_scaling(self) call')
    writes = _flag_writes(g, 'self')
    resets = [n for n, v in writes if v is False]
    stale = [n for n, v in writes if v is not False]
    w = None
    for c in calls:
        w = w or g.dominated_by(c, resets, labels=cfgm.noexc)
    if w is not None or not resets:
        out.bad(fn, calls[0].ast, 'the autoscaler is called without first resetting self._driver_scaling to False: '
                'after a previous scaled update the fresh model values are returned unscaled', key='reset-before-scale')
    elif any(s_ in bfs(g, g.normal_succ(r), lambda n, m, lab: lab != 'exc') and
             set(calls) & bfs(g, g.normal_succ(s_), lambda n, m, lab: lab != 'exc')
             for r in resets for s_ in stale):
        out.bad(fn, stale[0].ast, 'self._driver_scaling is overwritten between the reset and the scaling call',
                key='reset-before-scale')
    else:
        out.ok(fn, resets[0].ast, 'self._driver_scaling = False dominates every apply_*_scaling(self)')
    # populate-before-scale: the model values are written before the scaling call
    stores = [n for n in g.calling('_get_voi_val')]
    if not stores:
        raise AnalysisError(f'{fn.ident}: _get_voi_val not called')
    late = [s for s in stores if any(s in bfs(g, g.normal_succ(c), lambda n, m, lab: lab != 'exc') for c in calls)]
    if late:
        out.bad(fn, late[0].ast, 'model values are written after the vector was scaled', key='populate-order')
    else:
        out.ok(fn, stores[0].ast, 'the vector is populated before it is scaled')
    # set_data writes the flag from its argument
    fn = repo.func(OVEC, 'OptimizerVector.set_data')
    g = cfgm.build(fn)
    ps = [a.arg for a in fn.node.args.args]
    writes = _flag_writes(g, 'self')
    good = [n for n, v in writes if isinstance(v, str) and v in ps and v != 'self' and 'scaling' in v]
    other = [n for n, v in writes if n not in good]
    if other:
        out.bad(fn, other[0].ast, 'set_data stores something other than its driver_scaling argument in the flag',
                key='set-data-flag')
    elif not good or g.path([g.entry], [g.exit], avoid=good, labels=cfgm.noexc) is not None:
        out.bad(fn, fn.node, 'set_data can return without recording in which space the new data is: the next '
                '_set_design_vars() skips (or repeats) the unscaling', key='set-data-flag')
    else:
        out.ok(fn, good[0].ast, 'set_data records the space of the data on every path')
    # property pair
    defs = _class_funcs(repo, OVEC, 'OptimizerVector', 'driver_scaling')
    getter = [d for d in defs if any(isinstance(x, ast.Name) and x.id == 'property' for x in d.decorator_list)]
    setter = [d for d in defs if any(isinstance(x, ast.Attribute) and x.attr == 'setter' for x in d.decorator_list)]
    if len(getter) != 1 or len(setter) != 1:
        raise AnalysisError('OptimizerVector.driver_scaling property pair not found')
    rets = [st for st in astx.walk_stmts(getter[0].body) if isinstance(st, ast.Return)]
    if len(rets) == 1 and astx.path(rets[0].value) == 'self._driver_scaling':
        out.ok((OVEC, 'OptimizerVector.driver_scaling'), rets[0], 'getter returns self._driver_scaling')
    elif len(rets) == 1 and isinstance(rets[0].value, (ast.Constant, ast.UnaryOp)):
        out.bad((OVEC, 'OptimizerVector.driver_scaling'), rets[0], 'getter does not return the stored flag',
                key='flag-getter')
    else:
        out.unsure((OVEC, 'OptimizerVector.driver_scaling'), getter[0], 'unrecognised getter')
    sp = [a.arg for a in setter[0].args.args]
    sts = [st for st in astx.walk_stmts(astx.strip_doc(setter[0].body))]
    if len(sts) == 1 and isinstance(sts[0], ast.Assign) and astx.path(sts[0].targets[0]) == 'self._driver_scaling' \
            and isinstance(sts[0].value, ast.Name) and len(sp) == 2 and sts[0].value.id == sp[1]:
        out.ok((OVEC, 'OptimizerVector.driver_scaling'), sts[0], 'setter stores its argument')
    elif len(sts) == 1 and isinstance(sts[0], ast.Assign) and astx.path(sts[0].targets[0]) == 'self._driver_scaling':
        out.bad((OVEC, 'OptimizerVector.driver_scaling'), sts[0], 'setter does not store its argument', key='flag-setter')
    else:
        out.unsure((OVEC, 'OptimizerVector.driver_scaling'), setter[0], 'unrecognised setter')


# =========================================================================== bounds
def _mask_root(e):
    """For `P`, `np.asarray(P)`, `np.asarray(P)[M]`, `P[M]`: (root Name id, mask Name id or None)."""
    mask = None
    if isinstance(e, ast.Subscript):
        if not isinstance(e.slice, ast.Name):
            return None
        mask = e.slice.id
        e = e.value
    while isinstance(e, ast.Call) and astx.callee_attr(e) in ('asarray', 'array', 'atleast_1d', 'ravel', 'flatten') \
            and (e.args or isinstance(e.func, ast.Attribute)):
        e = e.args[0] if e.args else e.func.value
    if isinstance(e, ast.Name):
        return e.id, mask
    return None


class BoundFn:
    """Autoscaler._scale_bound: masked affine update of a bound array."""

    def __init__(self, repo):
        self.fn = repo.func(AUTO, 'Autoscaler._scale_bound')
        self.ctx = Ctx(self.fn)
        self.ops = []       # (op, param, stmt, target-mask or None)
        self.bad, self.unsure = [], []
        self.W = None
        self.extra_guards = {}   # id(stmt) -> [(test atom, polarity)] that are not None-tests
        self._scan()

    def _scan(self):
        ctx = self.ctx
        ps = set(ctx.params)
        cand = []
        for st in astx.walk_stmts(self.fn.node.body):
            lin = linear_op(st)
            if lin is None:
                continue
            tgt, op, operand = lin
            if isinstance(tgt, ast.Subscript) and isinstance(tgt.value, ast.Name):
                cand.append((st, tgt.value.id, tgt.slice, op, operand))
            elif isinstance(tgt, ast.Name):
                cand.append((st, tgt.id, None, op, operand))
        # the work array is the one the arithmetic is applied to
        names = {c[1] for c in cand if not isinstance(c[4], ast.Constant)}
        if len(names) != 1:
            raise AnalysisError(f'{self.fn.ident}: expected arithmetic on exactly one work array, found {sorted(names)}')
        W = self.W = names.pop()
        for st, nm, sl, op, operand in cand:
            if nm != W:
                continue
            if sl is None or isinstance(sl, ast.Constant) and sl.value is Ellipsis or \
                    (isinstance(sl, ast.Slice) and sl.lower is None and sl.upper is None and sl.step is None):
                tmask = None
            elif isinstance(sl, ast.Name):
                tmask = sl.id
            else:
                self.unsure.append((st, f'unrecognised index of {W} in the update'))
                continue
            op, operand = norm_op(op, operand)
            alts = [(operand, None)]
            if isinstance(operand, ast.IfExp):
                t, pol = operand.test, True
                while isinstance(t, ast.UnaryOp) and isinstance(t.op, ast.Not):
                    t, pol = t.operand, not pol
                sc = isinstance(t, ast.Call) and astx.callee_attr(t) == 'isscalar'
                alts = [(operand.body, (pol if sc else None)), (operand.orelse, ((not pol) if sc else None))]
            roots = set()
            okm = True
            for a, is_scalar in alts:
                mr = _mask_root(a)
                if mr is None or mr[0] not in ps:
                    self.unsure.append((st, f'operand `{astx.src(a)}` is not one of the parameters'))
                    okm = False
                    break
                roots.add(mr[0])
                if mr[1] is None and tmask is not None and is_scalar is not True:
                    if is_scalar is False:
                        self.bad.append((st, f'the array branch of the operand (`{astx.src(a)}`) is not restricted to '
                                         f'`{tmask}` like the target: with a partly unbounded variable the shapes differ',
                                         'operand-mask'))
                    else:
                        self.unsure.append((st, f'operand `{astx.src(a)}` is not restricted to `{tmask}` like the target'))
                    okm = False
                    break
                if mr[1] is not None and mr[1] != tmask:
                    self.bad.append((st, f'operand is indexed by `{mr[1]}` but the target by `{tmask}`: '
                                     'array adder/scaler elements are paired with the wrong bound elements',
                                     'operand-mask'))
                    okm = False
                    break
            if not okm:
                continue
            if len(roots) != 1:
                self.bad.append((st, f'scalar and array branch of the operand use different parameters {sorted(roots)}',
                                 'operand-mixed'))
                continue
            P = roots.pop()
            gl = guards(st, self.fn.node)
            gset = set()
            und = False
            extra = []
            for t, pol in atoms(gl or []):
                nt = none_test(t)
                if nt is not None and isinstance(nt[0], ast.Name) and nt[0].id in ps:
                    gset.add((nt[0].id, nt[1] == pol))
                elif nt is not None:
                    und = True
                else:
                    extra.append((t, pol))
            self.extra_guards[id(st)] = extra
            if gl is None or und:
                self.unsure.append((st, 'unrecognised guard of the bound update'))
                continue
            if not gset:
                self.unsure.append((st, f'update with `{P}` is not guarded against None'))
                continue
            if gset != {(P, True)}:
                self.bad.append((st, f'update with `{P}` is guarded by a None-test of {sorted(k for k, _ in gset)}',
                                 'guard'))
                continue
            self.ops.append((op, P, st, tmask))
        self.ops.sort(key=lambda o: (o[2].lineno, o[2].col_offset))


def _inf_compare(e, W):
    """For `W <= -C` / `W >= C` (either direction): ('lower'|'upper', dump of the constant side)."""
    if isinstance(e, ast.Compare) and len(e.ops) == 1:
        l, r, op = e.left, e.comparators[0], type(e.ops[0])
        if astx.path(r) == W and astx.path(l) != W:
            l, r = r, l
            op = {ast.Lt: ast.Gt, ast.LtE: ast.GtE, ast.Gt: ast.Lt, ast.GtE: ast.LtE}.get(op)
        if astx.path(l) == W and op in (ast.Lt, ast.LtE):
            return 'lower', K(r)
        if astx.path(l) == W and op in (ast.Gt, ast.GtE):
            return 'upper', K(r)
    return None


def _by_flag(e, flag):
    """Split an expression selected by the boolean parameter *flag*: (expr if flag, expr if not flag)."""
    if isinstance(e, ast.IfExp):
        t, pol = e.test, True
        while isinstance(t, ast.UnaryOp) and isinstance(t.op, ast.Not):
            t, pol = t.operand, not pol
        if isinstance(t, ast.Name) and t.id == flag:
            return (e.body, e.orelse) if pol else (e.orelse, e.body)
    return None


@rule('C20.bounds', floor=4)
def bounds(repo, out):
    """_scale_bound: same [+= adder, *= scaler] list as the values, on every finite entry; infinite entries end on the sentinel of their side."""
    bf = BoundFn(repo)
    fn, ctx, g, W = bf.fn, bf.ctx, bf.ctx.g, bf.W
    for st, why in bf.unsure:
        out.unsure(fn, st, why)
    for st, why, slug in bf.bad:
        out.bad(fn, st, why, key=slug)
    if bf.unsure or bf.bad:
        return
    roles = _bound_param_roles(repo, out, report=False)
    if roles is None:
        out.unsure(fn, fn.node, 'call sites of _scale_bound do not identify the adder/scaler parameters (see C20.bound-slots)')
        return
    vf = VecFn(repo, 'Autoscaler._apply_vec_scaling')
    want = vf.seq() if not (vf.bad or vf.unsure) and sorted(vf.seq()) == sorted(FWD) else FWD
    got = [(op, roles.get(P, P)) for op, P, _, _ in bf.ops]
    if got != want:
        out.bad(fn, bf.ops[0][2] if bf.ops else fn.node,
                f'bounds are transformed by {_fmt_seq(got) if all(k in ("total_adder", "total_scaler") for _, k in got) else got} '
                f'but values by {_fmt_seq(want)}: a value on its bound is no longer on the scaled bound', key='sequence')
        return
    out.ok(fn, bf.ops[0][2], f'bound entries go through {_fmt_seq(got)}, the same list as the values')
    # which entries: the complement of the infinity mask, or everything followed by the sentinel restore
    flagp = None
    infmask = None
    infdef = None
    for n in g.nodes:
        if n.kind == 'stmt' and isinstance(n.ast, ast.Assign) and len(n.ast.targets) == 1 and \
                isinstance(n.ast.targets[0], ast.Name):
            for p in ctx.params:
                sp = _by_flag(n.ast.value, p)
                if sp and _inf_compare(sp[0], W) and _inf_compare(sp[1], W):
                    flagp, infmask, infdef = p, n.ast.targets[0].id, (n, sp)
    if infmask is None:
        out.unsure(fn, fn.node, 'infinity mask `(W <= -INF) if is_lower else (W >= INF)` not found')
        return
    (dn, (e_low, e_up)) = infdef
    c_low, c_up = _inf_compare(e_low, W), _inf_compare(e_up, W)
    if c_low[0] != 'lower' or c_up[0] != 'upper':
        out.bad(fn, dn.ast, f'the infinity mask tests the {c_low[0]} side when {flagp} is true and the {c_up[0]} side '
                'otherwise: finite bounds are treated as unbounded and vice versa', key='inf-mask-side')
        return
    restores = []
    for n in g.nodes:
        if n.kind == 'stmt' and isinstance(n.ast, ast.Assign) and len(n.ast.targets) == 1:
            t = n.ast.targets[0]
            if isinstance(t, ast.Subscript) and astx.path(t.value) == W and isinstance(t.slice, ast.Name) and \
                    t.slice.id == infmask:
                restores.append(n)
    opnodes = [n for _, _, st, _ in bf.ops for n in g.nodes_of(st)]
    masked_ok = True
    for op, P, st, tmask in bf.ops:
        if tmask is None:
            masked_ok = False
            continue
        if tmask == infmask:
            out.bad(fn, st, f'the update is applied to the infinite entries ({infmask}) instead of the finite ones',
                    key='finite-mask')
            return
        mds = ctx.defs(ctx.node(st), tmask)
        if len(mds) != 1 or mds[0][0] != 'expr':
            out.unsure(fn, st, f'mask `{tmask}` has no unique definition')
            return
        e = mds[0][1]
        if isinstance(e, ast.UnaryOp) and isinstance(e.op, ast.Invert) and astx.path(e.operand) == infmask:
            continue
        if isinstance(e, ast.Call) and astx.callee_attr(e) == 'logical_not' and e.args and \
                astx.path(e.args[0]) == infmask:
            continue
        if astx.path(e) == infmask:
            out.bad(fn, st, f'`{tmask}` is the infinity mask itself, not its complement: finite bounds stay unscaled',
                    key='finite-mask')
            return
        out.unsure(fn, st, f'mask `{tmask}` is not recognisably the complement of `{infmask}`')
        return
    # guard clause: the finite entries must be transformed whenever at least one entry is finite
    def is_complement(name, at):
        mds_ = ctx.defs(at, name)
        if len(mds_) != 1 or mds_[0][0] != 'expr':
            return False
        e_ = mds_[0][1]
        return (isinstance(e_, ast.UnaryOp) and isinstance(e_.op, ast.Invert) and astx.path(e_.operand) == infmask) or \
            (isinstance(e_, ast.Call) and astx.callee_attr(e_) == 'logical_not' and bool(e_.args) and
             astx.path(e_.args[0]) == infmask)

    # truth of inf_mask.all(), inf_mask.any() per pattern of the bound array
    PAT = {'all entries finite': (False, False), 'finite and infinite entries mixed': (False, True),
           'all entries infinite': (True, True)}

    def mask_atom(t, at):
        """(quantifier 'all'|'any', on_complement) for M.all() / M.any() / np.all(M) / np.any(M)."""
        if not isinstance(t, ast.Call) or astx.callee_attr(t) not in ('all', 'any'):
            return None
        q = astx.callee_attr(t)
        m_ = t.args[0] if t.args else (t.func.value if isinstance(t.func, ast.Attribute) else None)
        if isinstance(t.func, ast.Attribute) and astx.path(t.func.value) in ('np', 'numpy') and not t.args:
            return None
        if isinstance(m_, ast.UnaryOp) and isinstance(m_.op, ast.Invert) and astx.path(m_.operand) == infmask:
            return q, True
        if isinstance(m_, ast.Call) and astx.callee_attr(m_) == 'logical_not' and m_.args and \
                astx.path(m_.args[0]) == infmask:
            return q, True
        if not isinstance(m_, ast.Name):
            return None
        if m_.id == infmask:
            return q, False
        if is_complement(m_.id, at):
            return q, True
        return None
    for op, P, st, tmask in bf.ops:
        extra = bf.extra_guards.get(id(st), [])
        at = ctx.node(st)
        parsed = []
        for t, pol in extra:
            if isinstance(t, ast.Constant) and bool(t.value) == pol:
                continue
            ma = mask_atom(t, at)
            if ma is None:
                out.unsure(fn, st, f'unrecognised condition `{astx.src(t)}` around the bound update')
                return
            parsed.append((ma, pol))
        for pname, (inf_all, inf_any) in PAT.items():
            run = True
            for (q, comp), pol in parsed:
                if comp:
                    v = (not inf_any) if q == 'all' else (not inf_all)
                else:
                    v = inf_all if q == 'all' else inf_any
                run = run and (v == pol)
            if not run and pname != 'all entries infinite':
                conds = ' and '.join(('' if pol else 'not ') + astx.src(t) for t, pol in extra)
                out.bad(fn, st, f'the update runs only under `{conds}`, which is false when the bound array has {pname}: '
                        'its finite entries reach the optimizer unscaled while the values are scaled', key='finite-guard')
                return
    if any(bf.extra_guards.get(id(st)) for _, _, st, _ in bf.ops):
        out.ok(fn, bf.ops[0][2], 'the enclosing mask condition holds whenever some entry is finite (all-finite, mixed patterns)')
    after = set()
    for n in opnodes:
        after |= bfs(g, g.normal_succ(n), lambda a, b, lab: lab != 'exc')
    live_restores = [r for r in restores if not (set(opnodes) & bfs(g, g.normal_succ(r), lambda a, b, lab: lab != 'exc'))]
    restored = bool(live_restores) and \
        bfs(g, [m for n in opnodes for m in g.normal_succ(n)], lambda a, b, lab: lab != 'exc',
            avoid=live_restores).isdisjoint({g.exit})
    if not masked_ok and not restored:
        out.bad(fn, bf.ops[0][2], 'the whole array is scaled and the infinity sentinel is not restored afterwards: '
                'an unbounded side becomes a finite bound (e.g. -1e30 * 0.1)', key='sentinel')
        return
    out.ok(fn, bf.ops[0][2], 'exactly the finite entries are transformed' if masked_ok else
           'whole array transformed, sentinel restored afterwards')
    # sentinel sign pairing (when a restore exists it must write the constant the mask compares against)
    for r in restores:
        sp = _by_flag(r.ast.value, flagp)
        if sp is None:
            out.unsure(fn, r.ast, f'sentinel value is not selected by `{flagp}`')
            return
        if K(sp[0]) != c_low[1] or K(sp[1]) != c_up[1]:
            out.bad(fn, r.ast, f'unbounded entries of a lower bound are set to `{astx.src(sp[0])}` and of an upper '
                    f'bound to `{astx.src(sp[1])}`, but the mask recognises `{astx.src(e_low)}` / `{astx.src(e_up)}`: '
                    'an open side turns into a bound on the opposite side', key='sentinel-sign')
            return
        out.ok(fn, r.ast, 'sentinel restore writes the constant of the same side as the mask')
    # the None default of `val` must be the infinity of the right side
    for n in g.nodes:
        if n.kind == 'test' and isinstance(n.ast, ast.If):
            t, pol = n.ast.test, True
            while isinstance(t, ast.UnaryOp) and isinstance(t.op, ast.Not):
                t, pol = t.operand, not pol
            if isinstance(t, ast.Name) and t.id == flagp and len(n.ast.body) == 1 and len(n.ast.orelse) == 1 and \
                    all(isinstance(s, ast.Assign) for s in n.ast.body + n.ast.orelse):
                a, b = n.ast.body[0].value, n.ast.orelse[0].value
                if not pol:
                    a, b = b, a
                if {K(a), K(b)} == {c_low[1], c_up[1]}:
                    if K(a) != c_low[1]:
                        out.bad(fn, n.ast, 'a missing (None) lower bound defaults to +INF and a missing upper bound to '
                                '-INF', key='none-default-side')
                    else:
                        out.ok(fn, n.ast, 'None defaults to the infinity of its own side')


def _bind(call, fdef, skip_self=True):
    """Map callee parameter name -> argument expression for a call of a method."""
    ps = [a.arg for a in fdef.args.args]
    if skip_self and ps and ps[0] in ('self', 'cls'):
        ps = ps[1:]
    if any(isinstance(a, ast.Starred) for a in call.args) or any(k.arg is None for k in call.keywords):
        return None
    m = {}
    for p, a in zip(ps, call.args):
        m[p] = a
    for k in call.keywords:
        m[k.arg] = k.value
    return m


def _bound_kind(ctx, e, at):
    """('lower'|'upper'|'equals', dump of the metadata dict) for meta['lower'] / meta.get('lower', d)."""
    e, at = ctx.resolve(e, at)
    if isinstance(e, ast.Call) and astx.callee_attr(e) == 'get' and e.args:
        k = astx.const_str(e.args[0])
        base, _ = ctx.resolve(e.func.value, at)
        if k in ('lower', 'upper', 'equals'):
            return k, K(base), (e.args[1] if len(e.args) > 1 else None)
    if isinstance(e, ast.Subscript):
        k = astx.const_str(e.slice)
        base, _ = ctx.resolve(e.value, at)
        if k in ('lower', 'upper', 'equals'):
            return k, K(base), None
    return None


def _bound_param_roles(repo, out, report=True):
    """Check the call sites of _scale_bound in _compute_scaled_bounds; returns {param: metadata key}."""
    bf = BoundFn(repo)
    callee = bf.fn.node
    add_p = [P for op, P, _, _ in bf.ops if op in ('add', 'sub')]
    mul_p = [P for op, P, _, _ in bf.ops if op in ('mul', 'div')]
    fn = repo.func(AUTO, 'Autoscaler._compute_scaled_bounds')
    ctx = Ctx(fn)
    roles = {}
    sites = []
    for n in ctx.g.nodes:
        if n.kind != 'stmt':
            continue
        for c in n.calls():
            if astx.callee_attr(c) == '_scale_bound' and astx.path(astx.receiver(c)) == 'self':
                sites.append((n, c))
    if not sites:
        raise AnalysisError(f'{fn.ident}: no call of self._scale_bound')
    okall = True
    for n, c in sites:
        b = _bind(c, callee)
        if b is None:
            if report:
                out.unsure(fn, n.ast, 'star-arguments in the _scale_bound call')
            okall = False
            continue
        site_ok = True
        keys = {}
        for p, a in b.items():
            mk = meta_key(ctx, a, n)
            if mk is not None and mk[0] in {'total_adder', 'total_scaler'} | WRONG_KEYS:
                keys[p] = (mk[0], K(ctx.resolve(mk[1], n)[0]) if not mk[2] else K(mk[1]) + repr([K(s) for s, _ in mk[2]]))
        for p in add_p + mul_p:
            want = 'total_adder' if p in add_p else 'total_scaler'
            got = keys.get(p, (None,))[0]
            if got is None:
                if report:
                    out.unsure(fn, n.ast, f'argument for `{p}` is not read from the variable metadata')
                site_ok = False
            elif got != want:
                if report:
                    out.bad(fn, n.ast, f"parameter `{p}` of _scale_bound ({'added' if p in add_p else 'multiplied'}) "
                            f"receives meta['{got}'], expected meta['{want}']", key='slot-' + p)
                site_ok = False
            else:
                roles.setdefault(p, got)
        okall = okall and site_ok
    return roles if okall and roles else None


@rule('C20.bound-slots', floor=6)
def bound_slots(repo, out):
    """_scale_bound call sites pass (bound, total_adder, total_scaler, is_lower) in the right slots; (lower, upper, equals) order is kept through setup and get_bounds_scaling."""
    bf = BoundFn(repo)
    callee = bf.fn.node
    if _bound_param_roles(repo, out, report=True) is None:
        return
    fn = repo.func(AUTO, 'Autoscaler._compute_scaled_bounds')
    ctx = Ctx(fn)
    g = ctx.g
    # which parameter is the side flag: the one that selects the infinity mask
    flagp = None
    for st in astx.walk_stmts(callee.body):
        if isinstance(st, ast.Assign):
            for p in bf.ctx.params:
                sp = _by_flag(st.value, p)
                if sp and _inf_compare(sp[0], bf.W) and _inf_compare(sp[1], bf.W):
                    flagp = p
    valp = bf.ctx.params[1] if len(bf.ctx.params) > 1 else None
    arr_kind = {}     # data array name -> bound kind
    for n in g.nodes:
        if n.kind != 'stmt' or not isinstance(n.ast, ast.Assign):
            continue
        c = n.ast.value
        if not (isinstance(c, ast.Call) and astx.callee_attr(c) == '_scale_bound'):
            continue
        b = _bind(c, callee)
        bk = _bound_kind(ctx, b.get(valp), n) if b and valp in b else None
        if bk is None:
            out.unsure(fn, n.ast, 'bound argument is not meta[lower|upper|equals]')
            continue
        kind, mdump, dflt = bk
        # same metadata dict for bound and scaling
        ok = True
        for p, a in b.items():
            mk = meta_key(ctx, a, n)
            if mk is not None and mk[0] in ('total_adder', 'total_scaler'):
                base = a
                e, at = ctx.resolve(a, n)
                if isinstance(e, ast.Subscript) and K(ctx.resolve(e.value, at)[0]) != mdump:
                    out.bad(fn, n.ast, f'the bound is read from `{mdump[:40]}` but `{p}` from another metadata dict',
                            key='meta-mismatch')
                    ok = False
        fl = b.get(flagp) if flagp else None
        if fl is None or not (isinstance(fl, ast.Constant) and isinstance(fl.value, bool)):
            out.unsure(fn, n.ast, f'`{flagp}` argument is not a literal')
            continue
        if kind == 'lower' and fl.value is not True or kind == 'upper' and fl.value is not False:
            out.bad(fn, n.ast, f"meta['{kind}'] is scaled with {flagp}={fl.value}: the wrong infinity sentinel is "
                    'recognised/restored', key=f'side-{kind}')
            ok = False
        if dflt is not None and kind in ('lower', 'upper'):
            v = K(dflt)
            neg = isinstance(dflt, ast.UnaryOp) and isinstance(dflt.op, ast.USub)
            if (kind == 'lower') != neg:
                out.bad(fn, n.ast, f"default of a missing '{kind}' bound is `{astx.src(dflt)}`", key=f'default-{kind}')
                ok = False
        t = n.ast.targets[0]
        if isinstance(t, ast.Subscript) and isinstance(t.value, ast.Name):
            if arr_kind.setdefault(t.value.id, kind) != kind:
                out.bad(fn, n.ast, f"array `{t.value.id}` receives both '{arr_kind[t.value.id]}' and '{kind}' bounds",
                        key='array-kind')
                ok = False
        else:
            out.unsure(fn, n.ast, 'scaled bound is not stored into a slice of a data array')
            continue
        if ok:
            out.ok(fn, n.ast, f"meta['{kind}'] -> {t.value.id}[...] with {flagp}={fl.value}, adder/scaler in their slots")
    # data array -> OptimizerVector -> position in the returned tuple
    vec_kind = {}
    for n in g.nodes:
        if n.kind == 'stmt' and isinstance(n.ast, ast.Assign) and len(n.ast.targets) == 1 and \
                isinstance(n.ast.targets[0], ast.Name):
            for c in astx.calls(n.ast.value):
                if astx.callee_attr(c) == 'OptimizerVector' and len(c.args) >= 2 and isinstance(c.args[1], ast.Name) \
                        and c.args[1].id in arr_kind:
                    vec_kind[n.ast.targets[0].id] = arr_kind[c.args[1].id]
    rets = [st for st in astx.walk_stmts(fn.node.body) if isinstance(st, ast.Return)]
    ORDER = ['lower', 'upper', 'equals']
    for r in rets:
        if not isinstance(r.value, ast.Tuple) or not all(isinstance(e, ast.Name) for e in r.value.elts):
            out.unsure(fn, r, 'return value is not a tuple of names')
            continue
        got = [vec_kind.get(e.id) for e in r.value.elts]
        if None in got:
            out.unsure(fn, r, f'returned names do not resolve to bound vectors: {got}')
        elif got != ORDER:
            out.bad(fn, r, f'_compute_scaled_bounds returns {got}; every consumer unpacks (lower, upper, equals)',
                    key='return-order')
        else:
            out.ok(fn, r, 'returns (lower, upper, equals)')
    # setup stores position i into attribute A_i, get_bounds_scaling returns the A_i in the same order
    getter = repo.func(AUTO, 'Autoscaler.get_bounds_scaling')
    gr = [st for st in astx.walk_stmts(getter.node.body) if isinstance(st, ast.Return)]
    if len(gr) != 1 or not isinstance(gr[0].value, ast.Tuple):
        out.unsure(getter, getter.node, 'get_bounds_scaling does not return a tuple')
        return
    gattrs = [astx.path(e.value) if isinstance(e, ast.Subscript) else None for e in gr[0].value.elts]
    for rel, qn in ((AUTO, 'Autoscaler.setup'), (BAUTO, 'BoundsAutoscaler.setup')):
        f2 = repo.func(rel, qn)
        n_sites = 0
        for st in astx.walk_stmts(f2.node.body):
            if isinstance(st, ast.Assign) and isinstance(st.value, ast.Call) and \
                    astx.callee_attr(st.value) == '_compute_scaled_bounds' and isinstance(st.targets[0], ast.Tuple):
                n_sites += 1
                tattrs = [astx.path(e.value) if isinstance(e, ast.Subscript) else None for e in st.targets[0].elts]
                if None in tattrs or None in gattrs:
                    out.unsure(f2, st, 'unpack targets are not self._scaled_X[voi_type]')
                elif tattrs != gattrs:
                    out.bad(f2, st, f'result of _compute_scaled_bounds is unpacked into {tattrs} but get_bounds_scaling '
                            f'returns {gattrs}: lower/upper/equals are permuted for every driver', key='cache-order')
                else:
                    out.ok(f2, st, 'cache attributes are filled in the order get_bounds_scaling returns them')
        if not n_sites:
            raise AnalysisError(f'{f2.ident}: no unpacking call of _compute_scaled_bounds')


# =========================================================================== jacobian scaling
def _scal(e):
    """Scaler expression: Name -> (id, +1); 1/Name -> (id, -1)."""
    if isinstance(e, ast.Name):
        return e.id, 1
    if isinstance(e, ast.BinOp) and isinstance(e.op, ast.Div) and const_num(e.left) == 1:
        r = _scal(e.right)
        return None if r is None else (r[0], -r[1])
    return None


def _blockexp(e, B):
    """Abstract value of an expression built from block B: (transposed?, [(scaler name, power, axis)])."""
    if isinstance(e, ast.Name) and e.id == B:
        return False, []
    if isinstance(e, ast.Attribute) and e.attr == 'T':
        r = _blockexp(e.value, B)
        return None if r is None else (not r[0], r[1])
    if isinstance(e, ast.Call) and isinstance(e.func, ast.Attribute) and e.func.attr == 'transpose' and not e.args:
        r = _blockexp(e.func.value, B)
        return None if r is None else (not r[0], r[1])
    if isinstance(e, ast.BinOp) and isinstance(e.op, (ast.Mult, ast.Div)):
        cands = [(e.left, e.right)]
        if isinstance(e.op, ast.Mult):
            cands.append((e.right, e.left))
        for blk, sc in cands:
            rb, rs = _blockexp(blk, B), _scal(sc)
            if rb is not None and rs is not None:
                p = rs[1] if isinstance(e.op, ast.Mult) else -rs[1]
                # numpy broadcasting aligns a 1-D scaler with the LAST axis of what it multiplies
                axis = 'row' if rb[0] else 'col'
                return rb[0], rb[1] + [(rs[0], p, axis)]
    return None


def _whole(sl):
    if isinstance(sl, ast.Constant) and sl.value is Ellipsis:
        return True
    if isinstance(sl, ast.Slice) and sl.lower is None and sl.upper is None and sl.step is None:
        return True
    if isinstance(sl, ast.Tuple):
        return all(_whole(x) for x in sl.elts)
    return False


def _block_updates(ctx, loops):
    """Yield (stmt, block name, [(scaler, power, axis)] | 'rebind' | None) for statements that update a
    loop value variable (the jacobian block views)."""
    blocks = set()
    for lp in loops:
        for nm in _value_names(lp):
            blocks.add(nm)
    for st in astx.walk_stmts(ctx.fn.node.body):
        if isinstance(st, ast.AugAssign):
            t = st.target
            B = t.id if isinstance(t, ast.Name) else (t.value.id if isinstance(t, ast.Subscript) and
                                                      isinstance(t.value, ast.Name) and _whole(t.slice) else None)
            if B in blocks:
                sc = _scal(st.value)
                if sc is None or not isinstance(st.op, (ast.Mult, ast.Div)):
                    yield st, B, None
                else:
                    yield st, B, [(sc[0], sc[1] if isinstance(st.op, ast.Mult) else -sc[1], 'col')]
        elif isinstance(st, ast.Assign) and len(st.targets) == 1:
            t = st.targets[0]
            if isinstance(t, ast.Name) and t.id in blocks:
                r = _blockexp(st.value, t.id)
                yield st, t.id, ('rebind' if r is not None and r[1] else None)
            elif isinstance(t, ast.Subscript) and isinstance(t.value, ast.Name) and t.value.id in blocks:
                if not _whole(t.slice):
                    yield st, t.value.id, None
                    continue
                r = _blockexp(st.value, t.value.id)
                yield st, t.value.id, (None if r is None or r[0] else r[1])


def _value_names(loop):
    """Names bound to the VALUE of a `for k, v in X.items()` loop."""
    it = loop.iter
    while isinstance(it, ast.Call) and isinstance(it.func, ast.Name) and it.func.id in ('list', 'tuple', 'sorted') \
            and len(it.args) == 1:
        it = it.args[0]
    if isinstance(it, ast.Call) and astx.callee_attr(it) == 'items' and \
            isinstance(loop.target, ast.Tuple) and len(loop.target.elts) == 2 and \
            isinstance(loop.target.elts[1], ast.Name):
        return [loop.target.elts[1].id]
    return []


def _auto_scaler_role(ctx, name, at):
    """Role of a scaler local in Autoscaler.apply_jac_scaling: ('out'|'in', index name, problems)."""
    tables, idx, probs = set(), set(), []
    for kind, payload, d in ctx.defs(at, name):
        if kind != 'expr':
            return None
        mk = meta_key(ctx, payload, d)
        if mk is None or astx.path(mk[1]) != 'self._var_meta' or len(mk[2]) != 2:
            return None
        key, root, sl = mk
        T = astx.const_str(sl[0][0])
        if T is None or not isinstance(sl[1][0], ast.Name):
            return None
        if key != 'total_scaler':
            probs.append((d.ast, f"jacobian scaler is read from meta['{key}'], expected meta['total_scaler']", 'jac-key'))
        tables.add(T)
        idx.add(sl[1][0].id)
        # membership gate: the definition must sit under `idx in self._var_meta[T]`
        gate = None
        for t, pol in atoms(near_guards(d.ast)):
            if isinstance(t, ast.Compare) and len(t.ops) == 1 and isinstance(t.ops[0], ast.In) and pol and \
                    isinstance(t.left, ast.Name) and t.left.id == sl[1][0].id:
                c = t.comparators[0]
                if isinstance(c, ast.Subscript) and astx.path(c.value) == 'self._var_meta':
                    gate = astx.const_str(c.slice)
        if gate is not None and gate != T:
            probs.append((d.ast, f"membership is tested in table '{gate}' but the scaler is read from '{T}'", 'jac-gate'))
    if len(idx) != 1:
        return None
    if tables <= {'objective', 'constraint'}:
        if tables != {'objective', 'constraint'}:
            probs.append((None, f"response scaler is looked up only in {sorted(tables)}: the other response kind is "
                          'never scaled', 'jac-table'))
        return 'out', idx.pop(), probs
    if tables == {'design_var'}:
        return 'in', idx.pop(), probs
    probs.append((None, f'scaler is read from tables {sorted(tables)}', 'jac-table'))
    return 'mixed', idx.pop(), probs


def _unit_scaler_role(ctx, name, at):
    """Role of a scaler local in _TotalJacInfo._apply_unit_scaling."""
    roles, idx = set(), set()
    for kind, payload, d in ctx.defs(at, name):
        if kind != 'expr':
            return None
        e = payload
        if isinstance(e, ast.Call) and astx.callee_attr(e) == 'get' and len(e.args) == 1 and isinstance(e.args[0], ast.Name):
            tbl = astx.path(ctx.resolve(e.func.value, d)[0])
        elif isinstance(e, ast.Subscript) and isinstance(e.slice, ast.Name):
            tbl = astx.path(ctx.resolve(e.value, d)[0])
            e = ast.Call(func=None, args=[e.slice], keywords=[])
        else:
            return None
        if tbl == 'self._resp_unit_scalers':
            roles.add('out')
        elif tbl == 'self._desvar_unit_scalers':
            roles.add('in')
        else:
            return None
        idx.add(e.args[0].id)
    if len(roles) != 1 or len(idx) != 1:
        return None
    return roles.pop(), idx.pop(), []


def _key_position(ctx, name, at, outer, inner):
    """Where an index name comes from: ('flat', i) = i-th element of the outer key tuple, ('outer',) = the
    outer key itself, ('inner',) = key of the inner dict."""
    res = set()
    for kind, payload, d in ctx.defs(at, name):
        if kind == 'unpack' and isinstance(payload[0], ast.Name):
            src = ctx.defs(d, payload[0].id)
            if len(src) == 1 and src[0][0] == 'loop' and src[0][1][0] is outer and src[0][1][1] == (0,):
                res.add(('flat', payload[1]))
                continue
            return None
        if kind == 'expr' and isinstance(payload, ast.Name):
            src = ctx.defs(d, payload.id)
            if len(src) == 1 and src[0][0] == 'loop' and src[0][1][0] is outer and src[0][1][1] == (0,):
                res.add(('outer',))
                continue
            return None
        if kind == 'loop':
            lp, ix = payload
            if lp is outer and ix == (0, 0):
                res.add(('flat', 0))
            elif lp is outer and ix == (0, 1):
                res.add(('flat', 1))
            elif lp is outer and ix == (0,):
                res.add(('outer',))
            elif inner is not None and lp is inner and ix == (0,):
                res.add(('inner',))
            else:
                return None
            continue
        return None
    return res.pop() if len(res) == 1 else None


def _jac_function(out, fn, role_of, guard_kind, need_axis):
    """Check one in-place jacobian scaling function.  Returns {format: set of factors} or None."""
    ctx = Ctx(fn)
    loops = [st for st in astx.walk_stmts(fn.node.body) if isinstance(st, ast.For)]
    outers = [lp for lp in loops if not any(isinstance(a, ast.For) for a in astx.ancestors(lp))]
    result = {}
    clean = True
    per_fmt = {}
    all_updates = list(_block_updates(ctx, loops))
    scal_names = {nm_ for _, _, fl in all_updates if isinstance(fl, list) for nm_, _, _ in fl}
    for st, B, facs in all_updates:
        lp = astx.enclosing(st, (ast.For,))
        outer = lp
        while astx.enclosing(outer, (ast.For,)) is not None:
            outer = astx.enclosing(outer, (ast.For,))
        inner = lp if lp is not outer else None
        if B not in _value_names(lp):
            out.unsure(fn, st, f'`{B}` is not the value of the innermost enclosing items() loop')
            clean = False
            continue
        fmt = ('nested' if inner is not None else 'flat', outer.lineno)
        if facs == 'rebind':
            stored_back = [s2 for s2 in astx.walk_stmts(lp.body) if isinstance(s2, ast.Assign) and s2 is not st and
                           any(isinstance(t, ast.Subscript) and astx.path(t.value) != B for t in s2.targets) and
                           B in astx.names(s2.value)]
            if stored_back:
                out.unsure(fn, st, f'`{B}` is rebound and stored back through another statement (not recognised)')
                clean = False
                continue
            out.bad(fn, st, f'`{B} = ...` rebinds the local name instead of updating the array in place: the block is a '
                    'view into the total jacobian, so the scaling is silently lost', key='jac-rebind')
            clean = False
            continue
        if facs is None:
            out.unsure(fn, st, 'unrecognised block update')
            clean = False
            continue
        at = ctx.node(st)
        for nm, power, axis in facs:
            r = role_of(ctx, nm, at)
            if r is None:
                out.unsure(fn, st, f'cannot resolve where scaler `{nm}` comes from')
                clean = False
                continue
            role, idxname, probs = r
            for pst, why, slug in probs:
                out.bad(fn, pst or st, why, key=slug)
                clean = False
            # guard: every test inside the outermost loop whose outcome decides whether this statement runs
            # (nested ifs as well as early `continue`), restricted to tests of scaler locals
            gl = controlling(ctx.g, at, outer)
            gok = None
            gs = set()
            for t, pol in atoms(gl):
                nt = none_test(t)
                if nt is not None and isinstance(nt[0], ast.Name):
                    a_ = (nt[0].id, nt[1] == pol)
                elif guard_kind != 'none' and isinstance(t, ast.Name):
                    a_ = (t.id, pol)
                elif guard_kind == 'none' and isinstance(t, ast.Name) and t.id in scal_names:
                    a_ = ('?', True)     # truth test of a possibly-array scaler
                else:
                    continue
                if a_[0] in scal_names or a_[0] == '?':
                    gs.add(a_)
            if gs == {(nm, True)}:
                gok = True
            elif ('?', True) in gs or not gs:
                gok = None
            else:
                gok = False
            if gok is None:
                out.unsure(fn, st, f'update with `{nm}` has no recognisable None-guard')
                clean = False
                continue
            if gok is False:
                out.bad(fn, st, f'update with `{nm}` is guarded by a test of a different scaler', key='jac-guard')
                clean = False
                continue
            pos = _key_position(ctx, idxname, at, outer, inner)
            per_fmt.setdefault(fmt, []).append((role, power, axis if need_axis else '-', pos, st, nm))
    if not clean:
        return None
    for fmt, lst in sorted(per_fmt.items()):
        kind = fmt[0]
        facs = sorted((r, p, a) for r, p, a, _, _, _ in lst)
        want = sorted([('out', 1, 'row' if need_axis else '-'), ('in', -1, 'col' if need_axis else '-')])
        if facs != want:
            def w(f):
                r, p, a = f
                return f"{'response' if r == 'out' else 'design-var' if r == 'in' else r} scaler^{p:+d}" + \
                    (f' along {a}s' if a != '-' else '')
            out.bad(fn, lst[0][4], f'{kind} format: blocks are scaled by {[w(f) for f in facs]}; required '
                    f'{[w(f) for f in want]} (J_scaled = diag(s_resp) J diag(1/s_dv))', key=f'jac-factors-{kind}')
            clean = False
            continue
        # key orientation
        okpos = True
        for r, p, a, pos, st, nm in lst:
            exp = ({'out': ('flat', 0), 'in': ('flat', 1)} if kind == 'flat' else
                   {'out': ('outer',), 'in': ('inner',)})[r]
            if pos is None:
                out.unsure(fn, st, f'cannot see which part of the dict key indexes the {r}-scaler table')
                okpos = clean = False
            elif pos != exp:
                out.bad(fn, st, f'{kind} format: the {"response" if r == "out" else "design-var"} scaler is looked up '
                        f'with key part {pos}, but _get_dict_J builds keys as (of, wrt)', key=f'jac-key-order-{kind}')
                okpos = clean = False
        if okpos:
            result[kind] = facs
            out.ok(fn, lst[0][4], f'{kind} format: rows x response scaler, columns / design-var scaler, in place, '
                   'keys read as (of, wrt)')
    if clean and set(result) != {'flat', 'nested'}:
        seen_st = {id(st) for lst in per_fmt.values() for _, _, _, _, st, _ in lst}
        arith = [st for st in astx.walk_stmts(fn.node.body)
                 if id(st) not in seen_st and (
                     isinstance(st, ast.AugAssign) and isinstance(st.op, (ast.Mult, ast.Div)) or
                     isinstance(st, ast.Assign) and any(isinstance(w, ast.BinOp) and isinstance(w.op, (ast.Mult, ast.Div))
                                                        for w in astx.walk(st.value)))]
        if arith:
            out.unsure(fn, arith[0], 'arithmetic that is not recognised as an in-place block update')
            return None
        out.bad(fn, fn.node, f'only the {sorted(result)} return format is scaled; the other format is returned unscaled',
                key='jac-format-missing')
        return None
    return result if clean else None


@rule('C20.jac', floor=10)
def jac(repo, out):
    """Jacobian blocks: rows * response scaler, columns / design-var scaler, in place, same for flat and nested keys (driver and unit scaling)."""
    fa = repo.func(AUTO, 'Autoscaler.apply_jac_scaling')
    _jac_function(out, fa, _auto_scaler_role, 'none', True)
    fu = repo.func(TOTJAC, '_TotalJacInfo._apply_unit_scaling')
    _jac_function(out, fu, _unit_scaler_role, 'truth', False)
    # producer of the unit-scaler tables
    fi = repo.func(TOTJAC, '_TotalJacInfo._identify_unit_active_vars')
    SRC = {'self._driver._cons': 'out', 'self._driver._objs': 'out', 'self._driver._designvars': 'in'}
    DST = {'self._resp_unit_scalers': 'out', 'self._desvar_unit_scalers': 'in'}
    seen = {}
    ctx = Ctx(fi)
    for lp in [st for st in astx.walk_stmts(fi.node.body) if isinstance(st, ast.For)]:
        src = astx.path(lp.iter.func.value) if isinstance(lp.iter, ast.Call) and astx.callee_attr(lp.iter) == 'items' else None
        if src not in SRC:
            continue
        for st in astx.walk_stmts(lp.body):
            if isinstance(st, ast.Assign) and isinstance(st.targets[0], ast.Subscript):
                dst = astx.path(st.targets[0].value)
                if dst not in DST:
                    continue
                v, at = ctx.resolve(st.value, ctx.node(st))
                k = None
                if isinstance(v, ast.Call) and astx.callee_attr(v) == 'get' and v.args:
                    k = astx.const_str(v.args[0])
                elif isinstance(v, ast.Subscript):
                    k = astx.const_str(v.slice)
                if k != 'unit_scaler':
                    out.bad(fi, st, f"unit scaler table is filled from meta['{k}'], expected meta['unit_scaler']",
                            key='unit-table-key')
                elif DST[dst] != SRC[src]:
                    out.bad(fi, st, f'unit scalers of {src} are stored in {dst}: responses and design variables are '
                            'swapped', key='unit-table-role')
                else:
                    seen[src] = st
                    out.ok(fi, st, f"{src}[...]['unit_scaler'] -> {dst}")
    missing = sorted(set(SRC) - set(seen))
    if missing and not any(i['status'] == 'violation' and i['func'] == fi.qualname for i in out.items):
        out.bad(fi, fi.node, f'unit scalers of {missing} are never collected: their jacobian rows/columns stay in '
                'model units while the values are converted', key='unit-table-missing')
    # producer of the dict keys
    fp = repo.func(TOTJAC, '_TotalJacInfo._get_dict_J')
    n_ok = 0
    for st in astx.walk_stmts(fp.node.body):
        if not (isinstance(st, ast.Assign) and len(st.targets) == 1 and isinstance(st.targets[0], ast.Subscript)
                and isinstance(st.value, ast.Subscript) and isinstance(st.value.slice, ast.Tuple)
                and len(st.value.slice.elts) == 2 and astx.path(st.value.value) == 'J'):
            continue
        loops = [a for a in astx.ancestors(st) if isinstance(a, ast.For)]
        if len(loops) != 2:
            continue
        inner, outer = loops[0], loops[1]
        def it(lp):
            return astx.path(lp.iter.func.value) if isinstance(lp.iter, ast.Call) and \
                astx.callee_attr(lp.iter) == 'items' else None
        def names(lp):
            return [e.id for e in lp.target.elts] if isinstance(lp.target, ast.Tuple) and \
                all(isinstance(e, ast.Name) for e in lp.target.elts) else [None, None]
        if it(outer) != 'of_metadata' or it(inner) != 'wrt_metadata':
            out.bad(fp, st, f'blocks are enumerated with {it(outer)} outside and {it(inner)} inside; consumers read '
                    'the first key part as the response', key='dictJ-loops')
            continue
        ok_, ik_ = names(outer), names(inner)
        row, col = st.value.slice.elts
        cctx = Ctx(fp) if n_ok == 0 else cctx
        rowe, _ = cctx.resolve(row, cctx.node(st))
        cole, _ = cctx.resolve(col, cctx.node(st))
        row_ok = isinstance(rowe, ast.Subscript) and astx.path(rowe.value) == ok_[1]
        col_ok = isinstance(cole, ast.Subscript) and astx.path(cole.value) == ik_[1]
        key = st.targets[0].slice
        if isinstance(key, ast.Tuple) and len(key.elts) == 2:
            kk = [astx.path(e) for e in key.elts]
            key_ok = kk == [ok_[0], ik_[0]]
        elif isinstance(key, ast.JoinedStr):
            kk = [astx.path(v.value) for v in key.values if isinstance(v, ast.FormattedValue)]
            key_ok = kk == [ok_[0], ik_[0]]
        else:
            kk = [astx.path(key)]
            key_ok = kk == [ik_[0]]     # nested: outer[inp] = ...
        if not (row_ok and col_ok):
            out.bad(fp, st, 'rows of the block do not come from the `of` metadata / columns from the `wrt` metadata',
                    key='dictJ-slices')
        elif not key_ok:
            out.bad(fp, st, f'block of rows `{ok_[0]}` and columns `{ik_[0]}` is stored under key {kk}: consumers '
                    'scale it with the scalers of other variables', key='dictJ-key')
        else:
            n_ok += 1
            out.ok(fp, st, 'key (of, wrt) <-> J[of rows, wrt columns]')


# =========================================================================== multipliers
def _unwrap_default(e):
    """`X or 1.0` / `1.0 if X is None else X` / `X if X is not None else 1.0` -> (X, default value, idiom)."""
    if isinstance(e, ast.BoolOp) and isinstance(e.op, ast.Or) and len(e.values) == 2 and \
            const_num(e.values[1]) is not None:
        return e.values[0], const_num(e.values[1]), 'truth-or'
    if isinstance(e, ast.IfExp):
        nt = none_test(e.test)
        if nt is not None:
            x, dflt = (e.body, e.orelse) if nt[1] else (e.orelse, e.body)
            if const_num(dflt) is not None and K(x) == K(nt[0]):
                return x, const_num(dflt), 'none'
        elif const_num(e.orelse) is not None and K(e.test) == K(e.body):
            return e.body, const_num(e.orelse), 'truth-ifexp'
    return e, None, None


_MULT_BIND = {}     # loop variable -> constant of the row of a constant-tuple loop currently analysed


def _mult_scaler(ctx, name, at):
    """Resolve a multiplier scaler local: (table, index expr key, meta key, default, idiom, def stmt)."""
    ds = ctx.defs(at, name)
    exprs = [d for d in ds if d[0] == 'expr']
    if len(exprs) != len(ds) or not ds:
        return None
    main = None
    dflt = idiom = None
    for kind, e, d in exprs:
        if const_num(e) is not None:
            # `if s is None: s = 1.0`
            gl = atoms(near_guards(d.ast))
            nts = [(none_test(t), pol) for t, pol in gl]
            if any(nt is not None and isinstance(nt[0], ast.Name) and nt[0].id == name and (nt[1] != pol)
                   for nt, pol in nts):
                dflt, idiom = const_num(e), 'none'
                continue
            if any(isinstance(t, ast.Name) and t.id == name and not pol for t, pol in gl):
                dflt, idiom = const_num(e), 'truth-if'
                continue
            return None
        if main is not None:
            return None
        main = (e, d)
    if main is None:
        return None
    e, d = main
    x, d2, i2 = _unwrap_default(e)
    if d2 is not None:
        dflt, idiom = d2, i2
    mk = meta_key(ctx, x, d)
    if mk is None or astx.path(mk[1]) not in ('self._var_meta',) and not isinstance(mk[1], ast.Name):
        return None
    key, root, sl = mk
    root_r, _ = ctx.resolve(root, d)
    chain = []
    if isinstance(root_r, ast.Subscript) and astx.path(root_r.value) == 'self._var_meta':
        chain = [root_r.slice] + [s for s, _ in sl]
    elif astx.path(root_r) == 'self._var_meta':
        chain = [s for s, _ in sl]
    else:
        return None
    if len(chain) != 2:
        return None
    T = astx.const_str(chain[0])
    if T is None and isinstance(chain[0], ast.Name) and chain[0].id in _MULT_BIND:
        T = astx.const_str(_MULT_BIND[chain[0].id])
    if T is None:
        return None
    return T, chain[1], key, dflt, idiom, d.ast


def _factor(e):
    """Product/quotient of Names: {name: power} or None."""
    if isinstance(e, ast.Name):
        return {e.id: 1}
    if isinstance(e, ast.BinOp) and isinstance(e.op, (ast.Mult, ast.Div)):
        a, b = _factor(e.left), _factor(e.right)
        if a is None or b is None:
            if isinstance(e.op, ast.Div) and const_num(e.left) == 1 and b is not None:
                return {k: -v for k, v in b.items()}
            return None
        res = dict(a)
        for k, v in b.items():
            res[k] = res.get(k, 0) + (v if isinstance(e.op, ast.Mult) else -v)
        return res
    return None


class MultFn:
    def __init__(self, repo):
        self.fn = repo.func(AUTO, 'Autoscaler.apply_mult_unscaling')
        self.ctx = Ctx(self.fn)
        ps = self.ctx.params
        if len(ps) != 3:
            raise AnalysisError(f'{self.fn.ident}: expected (self, desvar_multipliers, con_multipliers)')
        self.table_of = {ps[1]: 'design_var', ps[2]: 'constraint'}
        self.loops = []      # (inner loop, role parameter, name used in the code, {loop var: constant expr})
        for st in astx.walk_stmts(self.fn.node.body):
            if isinstance(st, ast.For) and isinstance(st.iter, ast.Call) and astx.callee_attr(st.iter) == 'items':
                recv = astx.path(st.iter.func.value)
                if recv in self.table_of:
                    self.loops.append((st, recv, recv, {}))
                    continue
                # `for key, mults in ((K1, P1), (K2, P2)):` -- one shared body instead of repeated statements
                for a in astx.ancestors(st):
                    if isinstance(a, ast.For) and isinstance(a.iter, (ast.Tuple, ast.List)) and \
                            isinstance(a.target, (ast.Tuple, ast.List)) and \
                            all(isinstance(e, ast.Name) for e in a.target.elts) and \
                            all(isinstance(e, (ast.Tuple, ast.List)) and len(e.elts) == len(a.target.elts) for e in a.iter.elts):
                        tn = [e.id for e in a.target.elts]
                        if recv in tn:
                            for row in a.iter.elts:
                                val = row.elts[tn.index(recv)]
                                if isinstance(val, ast.Name) and val.id in self.table_of:
                                    self.loops.append((st, val.id, recv, {n_: v_ for n_, v_ in zip(tn, row.elts)}))


@rule('C20.mult', floor=3)
def mult(repo, out):
    """apply_mult_unscaling: every multiplier array is multiplied in place by (own total_scaler / objective total_scaler)."""
    mf = MultFn(repo)
    fn, ctx = mf.fn, mf.ctx
    seen = set()
    for lp, P, PN, bnd in mf.loops:
        _MULT_BIND.clear()
        _MULT_BIND.update(bnd)
        want_T = mf.table_of[P]
        if not (isinstance(lp.target, ast.Tuple) and len(lp.target.elts) == 2 and
                all(isinstance(e, ast.Name) for e in lp.target.elts)):
            out.unsure(fn, lp, 'loop target is not (name, mult)')
            continue
        nm, mv = lp.target.elts[0].id, lp.target.elts[1].id
        ups = []
        for st in astx.walk_stmts(lp.body):
            tg = astx.assigned_targets(st) if isinstance(st, (ast.Assign, ast.AugAssign)) else []
            for t in tg:
                if isinstance(t, ast.Name) and t.id == mv or isinstance(t, ast.Subscript) and (
                        astx.path(t.value) == mv or astx.path(t.value) == PN):
                    ups.append(st)
        if len(ups) == 2 and isinstance(ups[0], ast.Assign) and isinstance(ups[0].targets[0], ast.Name) and \
                isinstance(ups[1], ast.Assign) and isinstance(ups[1].targets[0], ast.Subscript):
            out.unsure(fn, ups[0], 'multiplier is rebound and stored back through a second statement (not recognised)')
            continue
        if len(ups) > 1 and not all(linear_op(u) is not None and linear_op(u)[1] in ('mul', 'div') for u in ups):
            out.unsure(fn, ups[0], 'several statements write the multiplier (not recognised)')
            continue
        if len(ups) != 1:
            out.bad(fn, lp, f'{len(ups)} updates of the multiplier in the `{P}` loop (exactly one expected): the '
                    f'multipliers are {"left in optimizer scaling" if not ups else "rescaled twice"}',
                    key=f'mult-once-{want_T}')
            continue
        st = ups[0]
        lin = linear_op(st)
        inplace = False
        fac = None
        if isinstance(st, ast.AugAssign) and lin:
            t = st.target
            inplace = isinstance(t, ast.Name) or True
            tgt, op, operand = lin
            fac = _factor(operand)
            if fac is not None and op == 'div':
                fac = {k: -v for k, v in fac.items()}
            if op not in ('mul', 'div'):
                fac = None
        elif isinstance(st, ast.Assign) and isinstance(st.targets[0], ast.Subscript):
            # P[name] = mult * f  /  mult[:] = mult * f
            t = st.targets[0]
            whole = astx.path(t.value) == mv and _whole(t.slice)
            keyed = astx.path(t.value) == PN and isinstance(t.slice, ast.Name) and t.slice.id == nm
            f2 = _factor(st.value)
            if (whole or keyed) and f2 is not None and f2.get(mv) == 1:
                inplace = True
                fac = {k: v for k, v in f2.items() if k != mv}
        elif isinstance(st, ast.Assign) and isinstance(st.targets[0], ast.Name) and st.targets[0].id == mv:
            out.bad(fn, st, f'`{mv} = ...` rebinds the loop variable: the array stored in `{P}` (which is what the '
                    'caller receives) is not modified, multipliers stay in optimizer scaling', key=f'mult-rebind-{want_T}')
            continue
        if fac is None or not inplace:
            out.unsure(fn, st, 'unrecognised multiplier update')
            continue
        at = ctx.node(st)
        roles = {}
        okr = True
        def expand(name_, power, at_, depth=0):
            r_ = _mult_scaler(ctx, name_, at_)
            if r_ is not None:
                return [(r_, power)]
            ds_ = ctx.defs(at_, name_)
            if depth < 4 and len(ds_) == 1 and ds_[0][0] == 'aug' and isinstance(ds_[0][1].op, (ast.Mult, ast.Div)):
                # `s op= f` (whether that is allowed on this object is C20.meta-readonly's question)
                f_ = _factor(ds_[0][1].value)
                preds = [p_ for p_, lab in ctx.g.pred[ds_[0][2]] if lab != 'exc']
                if f_ is not None and preds:
                    res_ = expand(name_, power, ds_[0][2], depth + 1)   # definitions reaching the op= itself
                    sign = 1 if isinstance(ds_[0][1].op, ast.Mult) else -1
                    for n2, p2 in f_.items():
                        sub = expand(n2, power * p2 * sign, ds_[0][2], depth + 1)
                        if sub is None or res_ is None:
                            return None
                        res_ = res_ + sub
                    return res_
            if depth < 4 and len(ds_) == 1 and ds_[0][0] == 'expr':
                f_ = _factor(ds_[0][1])
                if f_ is not None:
                    res_ = []
                    for n2, p2 in f_.items():
                        sub = expand(n2, power * p2, ds_[0][2], depth + 1)
                        if sub is None:
                            return None
                        res_ += sub
                    return res_
            return None
        resolved = []
        for name_, power in fac.items():
            ex = expand(name_, power, at)
            if ex is None:
                out.unsure(fn, st, f'cannot resolve scaler `{name_}`')
                okr = False
                break
            resolved += ex
        for r, power in (resolved if okr else []):
            T, idx, key, dflt, idiom, dst = r
            if key != 'total_scaler':
                out.bad(fn, dst, f"multiplier factor is read from meta['{key}'], expected meta['total_scaler']",
                        key=f'mult-key-{want_T}')
                okr = False
                break
            if dflt is not None and dflt != 1:
                out.bad(fn, dst, f'a missing scaler defaults to {dflt}, not to 1', key=f'mult-default-{want_T}')
                okr = False
                break
            if T == 'objective':
                roles['obj'] = roles.get('obj', 0) + power
            else:
                if T != want_T:
                    out.bad(fn, dst, f"multipliers of `{P}` are unscaled with the scalers of table '{T}', expected "
                            f"'{want_T}'", key=f'mult-table-{want_T}')
                    okr = False
                    break
                if not (isinstance(idx, ast.Name) and idx.id == nm):
                    out.unsure(fn, dst, f'scaler is indexed by `{astx.src(idx)}`, expected the loop name `{nm}`')
                    okr = False
                    break
                roles['own'] = roles.get('own', 0) + power
        if not okr:
            continue
        if roles != {'own': 1, 'obj': -1}:
            out.bad(fn, st, f'multiplier is scaled by own_scaler^{roles.get("own", 0)} * obj_scaler^{roles.get("obj", 0)}; '
                    'model-space multiplier = optimizer-space multiplier * own_scaler / obj_scaler',
                    key=f'mult-factor-{want_T}')
            continue
        seen.add(want_T)
        out.ok(fn, st, f"`{P}`: in place *= {want_T} total_scaler / objective total_scaler")
    for T in ('design_var', 'constraint'):
        if T not in seen and not any(i['status'] in ('violation', 'undecided') for i in out.items):
            out.bad(fn, fn.node, f'no loop unscales the {T} multipliers', key=f'mult-missing-{T}')
    # returned in the order received (caller: dv_multipliers, con_multipliers = ...)
    ps = ctx.params
    okret = True
    rets = [s for s in astx.walk_stmts(fn.node.body) if isinstance(s, ast.Return)]
    for r in rets:
        v = r.value
        if not (isinstance(v, ast.Tuple) and len(v.elts) == 2 and all(isinstance(e, ast.Name) for e in v.elts)):
            out.unsure(fn, r, 'return value is not a pair of names')
            okret = False
        elif [e.id for e in v.elts] != ps[1:3]:
            out.bad(fn, r, f'returns ({v.elts[0].id}, {v.elts[1].id}) but receives and is unpacked as ({ps[1]}, {ps[2]})',
                    key='mult-return-order')
            okret = False
    if okret and rets:
        out.ok(fn, rets[-1], 'returns (desvar multipliers, constraint multipliers) in the order received')


@rule('C20.mult-array', floor=3)
def mult_array(repo, out):
    """A scaler that may be an ndarray (design variables, constraints) is defaulted by an `is None` test, never by its truth value."""
    mf = MultFn(repo)
    fn, ctx = mf.fn, mf.ctx
    done = set()
    for st in astx.walk_stmts(fn.node.body):
        if not isinstance(st, ast.Assign) or len(st.targets) != 1 or not isinstance(st.targets[0], ast.Name):
            continue
        x, dflt, idiom = _unwrap_default(st.value)
        if idiom is None:
            continue
        mk = meta_key(ctx, x, ctx.node(st))
        if mk is None or mk[0] != 'total_scaler':
            continue
        binds = [bnd for lp, P, PN, bnd in mf.loops if any(a_ is lp for a_ in astx.ancestors(st))] or [{}]
        Ts = []
        for bnd in binds:
            _MULT_BIND.clear()
            _MULT_BIND.update(bnd)
            r = _mult_scaler(ctx, st.targets[0].id, [m for m in ctx.g.normal_succ(ctx.node(st))][0]) \
                if ctx.g.normal_succ(ctx.node(st)) else None
            Ts.append(r[0] if r else None)
        _MULT_BIND.clear()
        if None in Ts:
            out.unsure(fn, st, 'cannot see which table the defaulted scaler comes from')
            continue
        done.update(Ts)
        for T in sorted(set(Ts)):     # one obligation per table the statement serves
            if idiom.startswith('truth') and T in ('design_var', 'constraint'):
                out.bad(fn, st, f"`{astx.src(st.value)}` takes the truth value of the {T} total_scaler; for a vector variable "
                        'with an array ref/scaler that is an ndarray and `or` raises ValueError (ambiguous truth value): '
                        'multipliers in model units cannot be computed for array scalings. Use `is None`.',
                        key=f'truthiness-{T}' + ('' if idiom == 'truth-or' else '-' + idiom))
            elif idiom.startswith('truth'):
                out.ok(fn, st, 'truth-value default on the objective scaler (objectives are scalar: float or size-1 array)')
            else:
                out.ok(fn, st, f'{T} scaler defaulted through an `is None` test')
    # `s = meta[...]; if <test on s>: s = 1.0` form, found through the operands of the multiplier updates
    seen_dst = set()
    for lp, P, PN, bnd in mf.loops:
        _MULT_BIND.clear()
        _MULT_BIND.update(bnd)
        cands = {t.id for st0 in astx.walk_stmts(lp.body) if isinstance(st0, ast.Assign) and const_num(st0.value) is not None
                 for t in st0.targets if isinstance(t, ast.Name)}
        for st in astx.walk_stmts(lp.body):
            if isinstance(st, (ast.If, ast.For)):
                continue
            for nm_ in sorted(cands):
                w = ast.Name(id=nm_, ctx=ast.Load())
                ns = ctx.g.nodes_of(st)
                r = _mult_scaler(ctx, w.id, ns[0]) if ns else None
                if r is None or r[4] not in ('truth-if', 'none') or id(r[5]) in seen_dst:
                    continue
                if any(it['line'] == r[5].lineno for it in out.items):
                    continue
                seen_dst.add(id(r[5]))
                T = r[0]
                if r[4] == 'truth-if' and T in ('design_var', 'constraint'):
                    out.bad(fn, r[5], f"the {T} total_scaler is replaced by its default under a truth test of the value; for a "
                            'vector variable with an array ref/scaler that raises ValueError (ambiguous truth value). '
                            'Use `is None`.', key=f'truthiness-{T}-truth-if')
                else:
                    out.ok(fn, r[5], f'{T} scaler defaulted through an `is None` test')
                done.add(T)
    if not done:
        # no defaulting idiom at all: the None case must be handled elsewhere (C20.mult resolves the operands)
        out.ok(fn, fn.node, 'no truth-value defaulting of scalers')


# =========================================================================== slot protocol
_DAS_SLOT = {'adder': 'adder', 'total_adder': 'adder', 'scaler': 'scaler', 'total_scaler': 'scaler'}


def _stored_keys(ctx, name, defnode):
    """Constant dict keys under which local *name* (as defined at *defnode*) is stored in this function."""
    keys = set()
    for n in ctx.g.nodes:
        if n.kind != 'stmt' or n is defnode:
            continue
        if defnode not in ctx.rd.defs(n, name):
            continue
        for e in n.exprs():
            for w in astx.walk(e):
                if isinstance(w, ast.Dict):
                    for k, v in zip(w.keys, w.values):
                        if isinstance(v, ast.Name) and v.id == name and astx.const_str(k) is not None:
                            keys.add(astx.const_str(k))
                if isinstance(w, ast.Call):
                    for kw in w.keywords:
                        if kw.arg and isinstance(kw.value, ast.Name) and kw.value.id == name and \
                                astx.callee_attr(w) in ('update', 'dict'):
                            keys.add(kw.arg)
        if isinstance(n.ast, ast.Assign) and isinstance(n.ast.value, ast.Name) and n.ast.value.id == name:
            for t in n.ast.targets:
                if isinstance(t, ast.Subscript) and astx.const_str(t.slice) is not None:
                    keys.add(astx.const_str(t.slice))
    return keys


def _slot_of_target(ctx, t, defnode, table):
    """Role of an unpack target through the metadata key it ends up under."""
    if isinstance(t, ast.Subscript) and astx.const_str(t.slice) is not None:
        return table.get(astx.const_str(t.slice)), astx.const_str(t.slice)
    if isinstance(t, ast.Name):
        if t.id == '_':
            return 'ignored', '_'
        ks = _stored_keys(ctx, t.id, defnode)
        roles = {table.get(k) for k in ks} - {None}
        if len(roles) == 1:
            return roles.pop(), sorted(ks)[0]
        return None, t.id
    return None, astx.src(t)


def _units_role(ctx, e, at):
    """'source' (units of the model variable) / 'declared' (units given to the driver) / None."""
    e0 = e
    e, at = ctx.resolve(e, at)
    if isinstance(e, ast.Subscript) and astx.const_str(e.slice) == 'units':
        root, _, _sl = ctx.chain(e, at)
        if astx.mentions(e.value, 'abs2meta', '_var_allprocs_abs2meta', '_var_abs2meta') or \
                astx.mentions(root, 'abs2meta', '_var_allprocs_abs2meta', '_var_abs2meta'):
            return 'source'
        return 'declared'
    if isinstance(e, ast.Call) and astx.callee_attr(e) == 'get' and e.args and astx.const_str(e.args[0]) == 'units':
        return 'declared'
    if isinstance(e, ast.Name):
        ds = ctx.defs(at, e.id)
        if len(ds) == 1 and ds[0][0] == 'param' and e.id == 'units':
            return 'declared'
        if len(ds) == 1 and ds[0][0] == 'loop':
            lp, ix = ds[0][1]
            if isinstance(lp.iter, ast.Call) and astx.callee_attr(lp.iter) == 'items' and ix == (1,) and \
                    (astx.path(lp.iter.func.value) or '').endswith('_units'):
                return 'declared'
    return None


@rule('C20.proto', floor=11)
def proto(repo, out):
    """Producers/consumers of (adder, scaler) and (factor, offset) pairs keep the slot order; arguments go to the parameters of the same meaning."""
    _proto_scan(repo, out, [SYSTEM, TOTJAC])
    _proto_convert_units(repo, out)


@rule('C20.proto-all', floor=1, tier='thorough')
def proto_all(repo, out):
    """Every other call site of determine_adder_scaler in the shipped package keeps the (adder, scaler) order."""
    rest = [r for r in repo.shipped() if r not in (SYSTEM, TOTJAC, UNITS, GUTILS)]
    n0 = len(out.items)
    _proto_scan(repo, out, rest)
    if len(out.items) == n0:
        out.ok((GUTILS, 'determine_adder_scaler'), None, f'no call site outside core/system.py in {len(rest)} shipped modules')


def _proto_scan(repo, out, rels):
    das = repo.func(GUTILS, 'determine_adder_scaler')
    dparams = [a.arg for a in das.node.args.args]
    for rel in rels:
        src = repo.source(rel)
        if 'determine_adder_scaler(' not in src and not (rel in (SYSTEM, TOTJAC, UNITS) and 'unit_conversion(' in src):
            continue
        m = repo.module(rel)
        for f in m.funcs.values():
            if 'determine_adder_scaler' not in src and rel not in (SYSTEM, TOTJAC):
                continue
            calls = [c for c in astx.calls(f.node) if astx.callee_attr(c) in ('determine_adder_scaler', 'unit_conversion')
                     and astx.enclosing(c, (ast.FunctionDef, ast.AsyncFunctionDef, ast.Lambda)) is f.node]
            if rel not in (SYSTEM, TOTJAC):
                calls = [c for c in calls if astx.callee_attr(c) == 'determine_adder_scaler']
            if not calls:
                continue
            if rel == UNITS:
                continue
            ctx = Ctx(f)
            for c in calls:
                st = astx.stmt_of(c)
                which = astx.callee_attr(c)
                if not (isinstance(st, ast.Assign) and st.value is c and st.targets and
                        all(isinstance(t, ast.Tuple) and len(t.elts) == 2 for t in st.targets)):
                    out.unsure(f, st, f'result of {which} is not unpacked into a pair')
                    continue
                dn = ctx.node(st)
                for t0, t1 in [t.elts for t in st.targets]:   # `a, b = c, d = call(...)` stores the pair twice
                    if which == 'determine_adder_scaler':
                        r0, k0 = _slot_of_target(ctx, t0, dn, _DAS_SLOT)
                        r1, k1 = _slot_of_target(ctx, t1, dn, _DAS_SLOT)
                        if r0 is None or r1 is None:
                            out.unsure(f, st, 'cannot see under which metadata key the unpacked values are stored')
                            continue
                        if (r0, r1) != ('adder', 'scaler'):
                            out.bad(f, st, f"determine_adder_scaler returns (adder, scaler) but the result is stored as "
                                    f"('{k0}', '{k1}'): the additive and the multiplicative part are exchanged",
                                    key='das-unpack')
                            continue
                        b = _bind(c, das.node, skip_self=False)
                        if b is None:
                            out.unsure(f, st, 'star arguments')
                            continue
                        okargs = True
                        for p, a in b.items():
                            if isinstance(a, ast.Constant) and a.value is None:
                                continue
                            nm = a.id if isinstance(a, ast.Name) else (astx.const_str(a.slice) if isinstance(a, ast.Subscript) else None)
                            if nm == p:
                                continue
                            if nm in dparams:
                                out.bad(f, st, f'`{astx.src(a)}` is passed as parameter `{p}` of determine_adder_scaler',
                                        key='das-args')
                            else:
                                out.unsure(f, st, f'cannot tell the meaning of argument `{astx.src(a)}` for parameter `{p}`')
                            okargs = False
                        if okargs:
                            out.ok(f, st, f"(adder, scaler) -> ('{k0}', '{k1}'); arguments match ref0/ref/adder/scaler")
                    else:
                        tab = {'unit_scaler': 'factor', 'unit_adder': 'offset', '_resp_unit_scalers': 'factor',
                               '_desvar_unit_scalers': 'factor'}
                        r0, k0 = _slot_of_target(ctx, t0, dn, tab)
                        r1, k1 = _slot_of_target(ctx, t1, dn, tab)
                        if isinstance(t0, ast.Name) and r0 is None:
                            # scaler local stored into self._resp_unit_scalers[...] / self._desvar_unit_scalers[...]
                            for n in ctx.g.nodes:
                                if n.kind == 'stmt' and isinstance(n.ast, ast.Assign) and isinstance(n.ast.value, ast.Name) \
                                        and n.ast.value.id == t0.id and dn in ctx.rd.defs(n, t0.id):
                                    for t in n.ast.targets:
                                        if isinstance(t, ast.Subscript) and (astx.path(t.value) or '').split('.')[-1] in tab:
                                            r0, k0 = 'factor', astx.path(t.value)
                        if not (k0 in tab or r0 == 'factor') and not (k1 in tab):
                            continue   # a consumer outside the driver-scaling metadata (connections, get_val, ...)
                        if r0 != 'factor' or r1 not in ('offset', 'ignored'):
                            out.bad(f, st, f"unit_conversion returns (factor, offset) but the result is stored as ('{k0}', '{k1}')",
                                    key='unitconv-unpack')
                            continue
                        if len(c.args) != 2:
                            out.unsure(f, st, 'unit_conversion not called with two positional arguments')
                            continue
                        a0, a1 = _units_role(ctx, c.args[0], dn), _units_role(ctx, c.args[1], dn)
                        if (a0, a1) == ('source', 'declared'):
                            out.ok(f, st, f"(factor, offset) of model units -> declared units stored as ('{k0}', '{k1}')")
                        elif (a0, a1) == ('declared', 'source'):
                            out.bad(f, st, 'unit_conversion(declared units, model units): the stored factor is the reciprocal '
                                    'of the one the values are converted with (convert_units(val, model, declared))',
                                    key='unitconv-args')
                        else:
                            out.unsure(f, st, f'cannot classify the unit arguments ({a0}, {a1})')


def _proto_convert_units(repo, out):
    # convert_units applies the pair it unpacks as (val + offset) * factor
    cu = repo.func(UNITS, 'convert_units')
    pair = None
    for st in astx.walk_stmts(cu.node.body):
        if isinstance(st, ast.Assign) and isinstance(st.targets[0], ast.Tuple) and len(st.targets[0].elts) == 2 and \
                isinstance(st.value, ast.Call) and astx.callee_attr(st.value) == 'conversion_tuple_to' and \
                all(isinstance(e, ast.Name) for e in st.targets[0].elts):
            pair = [e.id for e in st.targets[0].elts]
    rets = [st for st in astx.walk_stmts(cu.node.body) if isinstance(st, ast.Return) and st.value is not None
            and not isinstance(st.value, ast.Name)]
    vparam = cu.node.args.args[0].arg
    if pair is None or len(rets) != 1:
        out.unsure(cu, cu.node, 'convert_units: (factor, offset) unpack or arithmetic return not found')
    else:
        try:
            bad = None
            for x, fct, off in ((Fraction(3), Fraction(5, 9), Fraction(-32)), (Fraction(-7, 2), Fraction(1000), Fraction(0)),
                                (Fraction(11), Fraction(9, 5), Fraction(2297, 5))):
                got = _ev(rets[0].value, {vparam: x, pair[0]: fct, pair[1]: off})
                if got != (x + off) * fct:
                    bad = f'val={x}, factor={fct}, offset={off} gives {got}, expected (val + offset) * factor = {(x + off) * fct}'
                    break
            if bad:
                out.bad(cu, rets[0], f'convert_units does not apply the conversion tuple as (val + offset) * factor: {bad}',
                        key='convert-units-formula')
            else:
                out.ok(cu, rets[0], 'convert_units applies (factor, offset) as (val + offset) * factor')
        except (_Abort, _Raised):
            out.unsure(cu, rets[0], 'convert_units return expression outside the interpreted fragment')


# =========================================================================== units mirror
def _temp_store(ctx, n, call):
    """For `X[...] = f(X, ..)` / `X op= ..` / `X[:] = f(X)` where local X was taken as `A[idx]`: (X, the `A[idx]` expr)."""
    st = n.ast
    if not (isinstance(st, ast.Assign) and len(st.targets) == 1):
        return None
    t = st.targets[0]
    if not (isinstance(t, ast.Subscript) and isinstance(t.value, ast.Name) and _whole(t.slice)):
        return None
    X = t.value.id
    a0 = call.args[0] if call.args else None
    if not (isinstance(a0, ast.Name) and a0.id == X):
        return None
    ds = ctx.defs(n, X)
    if len(ds) != 1 or ds[0][0] != 'expr' or not isinstance(ds[0][1], ast.Subscript):
        return None
    return X, ds[0][1]


@rule('C20.units-mirror', floor=3)
def units_mirror(repo, out):
    """_get_voi_val converts model units -> declared units; _set_design_var converts declared units -> model units, in place."""
    for qn, want, word in (('Driver._get_voi_val', ('source', 'declared'), 'read'),
                           ('Driver._set_design_var', ('declared', 'source'), 'write')):
        fn = repo.func(DRIVER, qn)
        ctx = Ctx(fn)
        n_sites = 0
        for n in ctx.g.nodes:
            if n.kind != 'stmt':
                continue
            for c in n.calls():
                if astx.callee_attr(c) != 'convert_units':
                    continue
                n_sites += 1
                if len(c.args) != 3:
                    out.unsure(fn, n.ast, 'convert_units not called as (val, old, new)')
                    continue
                a1, a2 = _units_role(ctx, c.args[1], n), _units_role(ctx, c.args[2], n)
                if a1 is None or a2 is None:
                    out.unsure(fn, n.ast, f'cannot classify the unit arguments ({a1}, {a2})')
                    continue
                if (a1, a2) != want:
                    out.bad(fn, n.ast, f'on {word} the value is converted {a1} -> {a2} units; required {want[0]} -> '
                            f'{want[1]} (the driver works in the declared units, the model in its own)',
                            key=f'units-direction-{word}')
                    continue
                if not (isinstance(n.ast, ast.Assign) and len(n.ast.targets) == 1 and n.ast.value is c and
                        K(n.ast.targets[0]) in (K(c.args[0]), K(ctx.resolve(c.args[0], n)[0]))):
                    tmp = _temp_store(ctx, n, c)
                    if tmp is not None:
                        X, d_expr = tmp
                        if isinstance(d_expr.slice, ast.Slice):
                            out.ok(fn, n.ast, f'{word}: {want[0]} -> {want[1]} units, written through the slice view `{X}`')
                        else:
                            out.bad(fn, n.ast, f'the converted value is written into `{X}`, a temporary taken as '
                                    f'`{astx.src(d_expr)}`: for an index array (list/array `indices=` of the variable) that '
                                    f'is a copy, so the conversion never reaches `{astx.src(d_expr.value)}` and the model '
                                    f'keeps the value in the wrong units. Store into `{astx.src(d_expr)}` directly.',
                                    key=f'units-store-through-copy-{word}')
                        continue
                    out.unsure(fn, n.ast, 'converted value is not stored back where it was read from')
                    continue
                # the conversion must be skipped exactly when no units were declared
                gl = guards(n.ast, fn.node)
                decl = c.args[1] if want[0] == 'declared' else c.args[2]
                tested = False
                for t, pol in atoms(gl or []):
                    nt = none_test(t)
                    if nt is not None and K(nt[0]) == K(decl) and (nt[1] == pol):
                        tested = True
                if not tested:
                    out.unsure(fn, n.ast, f'conversion is not guarded by `{astx.src(decl)} is not None`')
                    continue
                out.ok(fn, n.ast, f'{word}: {want[0]} -> {want[1]} units, stored back in place')
        if not n_sites:
            out.bad(fn, fn.node, f'no unit conversion on {word}: declared driver units are ignored', key=f'units-missing-{word}')


# =========================================================================== dispatch tables
_ROLE = {'_remote_dvs': 'design_var', '_remote_cons': 'constraint', '_remote_objs': 'objective',
         'apply_design_var_scaling': 'design_var', 'apply_constraint_scaling': 'constraint',
         'apply_objective_scaling': 'objective', '_designvars': 'design_var', '_cons': 'constraint',
         '_objs': 'objective'}
_VOI = ['design_var', 'constraint', 'objective']


def _voi_chain(if_stmt, var):
    """[(voi key, body)] of an if/elif/else chain on `var == '<key>'`; else branch gets the missing key."""
    res = []
    cur = if_stmt
    while True:
        t = cur.test
        k = None
        if isinstance(t, ast.Compare) and len(t.ops) == 1 and isinstance(t.ops[0], ast.Eq):
            vs = (var, 'self.' + var, 'cls.' + var, 'out.' + var)
            if astx.path(t.left) in vs:
                k = astx.const_str(t.comparators[0])
            elif astx.path(t.comparators[0]) in vs:
                k = astx.const_str(t.left)
        if k is None:
            return None
        res.append((k, cur.body))
        if len(cur.orelse) == 1 and isinstance(cur.orelse[0], ast.If):
            cur = cur.orelse[0]
            continue
        if cur.orelse:
            rest = [v for v in _VOI if v not in [r[0] for r in res]]
            res.append((rest[0] if len(rest) == 1 else None, cur.orelse))
        return res


@rule('C20.dispatch', floor=22)
def dispatch(repo, out):
    """voi_type selects the same kind of metadata, remote table and autoscaler entry point everywhere; wrappers delegate in the right direction; _set_design_vars unscales before reading."""
    for qn in ('OptimizerVector.update_from_model', 'OptimizerVector.create_from_model'):
        fn = repo.func(OVEC, qn)
        ctx = Ctx(fn)
        var = 'voi_type'
        chains = 0
        for st in astx.walk_stmts(fn.node.body):
            if isinstance(st, ast.If) and not (isinstance(st._parent, ast.If) and st in st._parent.orelse):
                ch = _voi_chain(st, var)
                if ch is None:
                    continue
                chains += 1
                for k, body in ch:
                    acts = set()
                    for s in body:
                        for w in astx.walk(s):
                            if isinstance(w, ast.Attribute) and w.attr in _ROLE:
                                acts.add(w.attr)
                    if k is None or k not in _VOI:
                        out.unsure(fn, st, f'branch key {k!r} is not a voi_type')
                        continue
                    if not acts:
                        out.unsure(fn, body[0], f"nothing recognisable is selected for voi_type '{k}'")
                        continue
                    wrong = sorted(a for a in acts if _ROLE[a] != k)
                    if wrong:
                        out.bad(fn, body[0], f"voi_type '{k}' selects {wrong} (the {_ROLE[wrong[0]]} one)",
                                key=f'dispatch-{k}-{wrong[0]}')
                    else:
                        out.ok(fn, body[0], f"voi_type '{k}' -> {sorted(acts)}")
        if chains != 2:
            out.unsure(fn, fn.node, f'expected the remote-table chain and the scaling chain, found {chains} chain(s)')
        # _get_voi_val(..., driver_units=True)
        for c in astx.calls(fn.node):
            if astx.callee_attr(c) == '_get_voi_val':
                du = astx.kwarg(c, 'driver_units')
                if du is None and len(c.args) >= 6:
                    du = c.args[5]
                if isinstance(du, ast.Constant) and du.value is True:
                    out.ok(fn, astx.stmt_of(c), 'values are fetched in the declared driver units')
                elif du is None or isinstance(du, ast.Constant):
                    out.bad(fn, astx.stmt_of(c), 'values are fetched without driver_units=True: declared units are applied '
                            'to the jacobian and the bounds but not to the values', key='driver-units')
                else:
                    out.unsure(fn, astx.stmt_of(c), 'driver_units is not a literal')
    # the three voi_type -> metadata maps
    maps = [(OVEC, 'OptimizerVector.update_from_model'), (OVEC, 'OptimizerVector.create_from_model'),
            (AUTO, 'Autoscaler.setup')]
    for rel, qn in maps:
        fn = repo.func(rel, qn)
        found = False
        for w in astx.walk(fn.node):
            if isinstance(w, ast.Dict) and w.keys and all(astx.const_str(k) in _VOI for k in w.keys):
                found = True
                ks = [astx.const_str(k) for k in w.keys]
                wrong = [(k, v) for k, v in zip(ks, w.values)
                         if not (isinstance(v, ast.Attribute) and _ROLE.get(v.attr) == k)]
                unk = [(k, v) for k, v in wrong if not (isinstance(v, ast.Attribute) and v.attr in _ROLE)]
                if unk:
                    out.unsure(fn, astx.stmt_of(w), f'unrecognised metadata source `{astx.src(unk[0][1])}`')
                elif wrong:
                    out.bad(fn, astx.stmt_of(w), f"'{wrong[0][0]}' is mapped to `{astx.src(wrong[0][1])}`: values and "
                            'scaling metadata of different variable kinds are combined', key=f'varmeta-{wrong[0][0]}')
                elif sorted(ks) != sorted(_VOI):
                    out.bad(fn, astx.stmt_of(w), f'metadata map lacks {sorted(set(_VOI) - set(ks))}', key='varmeta-missing')
                else:
                    out.ok(fn, astx.stmt_of(w), 'design_var/constraint/objective -> _designvars/_cons/_objs')
        if not found:
            raise AnalysisError(f'{fn.ident}: voi_type -> metadata dict literal not found')
    # wrappers
    for name, target in (('apply_design_var_scaling', '_apply_vec_scaling'),
                         ('apply_constraint_scaling', '_apply_vec_scaling'),
                         ('apply_objective_scaling', '_apply_vec_scaling'),
                         ('apply_design_var_unscaling', '_apply_vec_unscaling')):
        fn = repo.func(AUTO, f'Autoscaler.{name}')
        ps = [a.arg for a in fn.node.args.args]
        cs = [c for c in astx.calls(fn.node) if (astx.callee_attr(c) or '').startswith('_apply_vec_')]
        if len(cs) != 1 or len(ps) != 2:
            out.unsure(fn, fn.node, 'wrapper does not make exactly one _apply_vec_* call')
            continue
        c = cs[0]
        if astx.callee_attr(c) != target:
            out.bad(fn, astx.stmt_of(c), f'{name} delegates to {astx.callee_attr(c)}: the map is applied in the wrong '
                    'direction', key=f'wrapper-{name}')
        elif not (len(c.args) == 1 and isinstance(c.args[0], ast.Name) and c.args[0].id == ps[1]):
            out.unsure(fn, astx.stmt_of(c), 'wrapper does not pass its vector argument through')
        else:
            out.ok(fn, astx.stmt_of(c), f'{name} -> {target}({ps[1]})')
    # _set_design_vars: unscale, then read, then hand over with the declared units
    fn = repo.func(DRIVER, 'Driver._set_design_vars')
    ctx = Ctx(fn)
    g = ctx.g
    uns = [n for n in g.nodes if n.kind == 'stmt' and any(astx.callee_attr(c) == 'apply_design_var_unscaling'
                                                           for c in n.calls())]
    scl = [n for n in g.nodes if n.kind == 'stmt' and any(astx.callee_attr(c) == 'apply_design_var_scaling'
                                                           for c in n.calls())]
    sets = [n for n in g.nodes if n.kind == 'stmt' and any(astx.callee_attr(c) == '_set_design_var' for c in n.calls())]
    if scl:
        out.bad(fn, scl[0].ast, 'the optimizer vector is SCALED before its values are written into the model',
                key='setdv-direction')
    elif not uns or not sets:
        out.bad(fn, fn.node, 'design variables are written into the model without unscaling the optimizer vector',
                key='setdv-unscale')
    else:
        vec_arg = uns[0].calls()[0].args[0] if uns[0].calls()[0].args else None
        tests = [n for n in g.nodes if n.kind == 'test' and isinstance(n.ast, ast.If) and
                 isinstance(n.ast.test, ast.Name) and n.ast.test.id == 'driver_scaling']

        def scaled_path(n, m, lab):
            if lab == 'exc':
                return False
            if n in tests and lab == 'false':
                return False
            return True
        r = bfs(g, [g.entry], scaled_path, avoid=uns)
        if any(s in r for s in sets):
            out.bad(fn, sets[0].ast, 'with driver_scaling=True the vector can be read before (or without) being unscaled',
                    key='setdv-order')
        else:
            # the value handed to _set_design_var is read from the vector that was unscaled
            c = [c for c in sets[0].calls() if astx.callee_attr(c) == '_set_design_var'][0]
            val = c.args[1] if len(c.args) > 1 else astx.kwarg(c, 'value')
            ve, vat = ctx.resolve(val, sets[0]) if val is not None else (None, None)
            src_ok = isinstance(ve, ast.Subscript) and vec_arg is not None and K(ve.value) == K(vec_arg)
            un = astx.kwarg(c, 'units') or (c.args[3] if len(c.args) > 3 else None)
            if not src_ok:
                out.unsure(fn, sets[0].ast, 'value written into the model is not an element of the unscaled vector')
            elif un is not None and _units_role(ctx, un, sets[0]) != 'declared':
                out.unsure(fn, sets[0].ast, 'units argument is not recognisably the declared units')
            else:
                # without a units argument _set_design_var falls back to meta['units'] (C20.units-mirror)
                out.ok(fn, sets[0].ast, 'unscale -> read element -> _set_design_var (declared units)')


# =========================================================================== order in compute_totals
_ORDER_EVENTS = ('_apply_unit_scaling', 'apply_jac_scaling', '_apply_subtractions')


def _order_fn(repo, out, fn, top, depth):
    """Order/once/gating check of the jacobian post-processing in one function; helper methods of the same class
    that contain some of the steps are analysed the same way and their call sites stand for those steps.
    Returns {'unit','drv','sub': bool} (what the function is guaranteed to do) or None when a verdict was emitted."""
    g = cfgm.build(fn)
    qn = fn.qualname

    def ne(n, m, lab):
        return lab != 'exc'
    hn = {}
    if depth < 2 and '.' in qn:
        cls_ = qn.rsplit('.', 1)[0]
        for n in g.nodes:
            if n.kind not in ('stmt', 'test', 'with'):
                continue
            for c in n.calls():
                if isinstance(c.func, ast.Attribute) and astx.path(c.func.value) == 'self' and \
                        c.func.attr not in _ORDER_EVENTS + ('_compute_totals_approx', 'compute_totals'):
                    h = fn.module.funcs.get(f'{cls_}.{c.func.attr}')
                    if h is not None and h.node is not fn.node and \
                            any(astx.callee_attr(x) in _ORDER_EVENTS for x in astx.calls(h.node)):
                        summ = _order_fn(repo, out, h, False, depth + 1)
                        if summ is None:
                            return None
                        hn[n] = summ
    unit_d = g.calling('_apply_unit_scaling')
    drv_d = g.calling('apply_jac_scaling')
    unit = unit_d + [n for n, sm in hn.items() if sm['unit'] and n not in unit_d]
    drv = drv_d + [n for n, sm in hn.items() if sm['drv'] and n not in drv_d]
    sub = g.calling('_apply_subtractions') + [n for n, sm in hn.items() if sm['sub']]
    scal_any = unit + drv + [n for n, sm in hn.items() if sm['scales'] and n not in unit + drv]
    deleg = g.calling('_compute_totals_approx') if qn.endswith('compute_totals') else []
    for s_ in scal_any:
        after = bfs(g, g.normal_succ(s_), ne)
        if set(sub) & after:
            out.bad(fn, s_.ast, 'the jacobian is rescaled before simul_coloring._apply_subtractions(J): the subtraction '
                    'combines entries of different rows/columns that by then carry different scale factors',
                    key='scale-before-subtract')
            return None
        if s_ in after:
            out.bad(fn, s_.ast, 'the in-place scaling call sits in a loop: blocks are scaled more than once',
                    key='scale-twice')
            return None
    if len(unit) > 1 and any(u2 in bfs(g, g.normal_succ(u), ne) for u in unit for u2 in unit if u2 is not u) or \
            len(drv) > 1 and any(d2 in bfs(g, g.normal_succ(d), ne) for d in drv for d2 in drv if d2 is not d):
        out.bad(fn, (unit + drv)[0].ast, 'scaling is applied twice on one path', key='scale-twice')
        return None
    lin = ([m for n in g.calling('_linearize') for m in g.normal_succ(n)] if top else []) or [g.entry]
    odd_guard = None
    for sc_node in scal_any:
        for a in astx.ancestors(sc_node.ast):
            if isinstance(a, ast.If) and astx.path(a.test) != 'self.has_scaling' and \
                    not (isinstance(a.test, ast.Constant)) and astx.path(a.test) != 'self.approx':
                odd_guard = a
    if odd_guard is not None:
        out.unsure(fn, odd_guard, 'jacobian scaling sits under an unrecognised condition')
        return None
    unit_all = bool(unit) and g.path(lin, [g.exit], avoid=unit + deleg, labels=cfgm.noexc) is None
    tests = [n for n in g.nodes if n.kind == 'test' and isinstance(n.ast, ast.If) and
             astx.path(n.ast.test) == 'self.has_scaling']

    def gated(n, m, lab):
        return lab != 'exc' and not (n in tests and lab == 'false')
    drv_all = bool(drv) and g.exit not in bfs(g, lin, gated, avoid=drv + deleg)
    ungated = [d for d in drv_d if d in bfs(g, [g.entry], lambda n, m, lab: lab != 'exc' and
                                             not (n in tests and lab == 'true'))]
    if ungated:
        out.bad(fn, ungated[0].ast, 'apply_jac_scaling is reachable when has_scaling is false '
                '(driver_scaling=False was requested)', key='driver-scale-ungated')
        return None
    if top:
        if not unit_all:
            out.bad(fn, fn.node, 'totals can be returned without unit scaling: values are in declared units, derivatives '
                    'are not', key='unit-scale-missing')
            return None
        if not drv_all:
            out.bad(fn, fn.node, 'totals can be returned without driver scaling although has_scaling is set',
                    key='driver-scale-missing')
            return None
        via = f' (through {", ".join(sorted({astx.callee_attr(c) for n in hn for c in n.calls() if astx.path(astx.receiver(c)) == "self"} & {x.name for x in fn.module.funcs.values()}))})' if hn else ''
        out.ok(fn, unit[0].ast, 'unit scaling exactly once on every path, after the subtractions' + via)
        out.ok(fn, drv[0].ast, 'driver scaling exactly once iff has_scaling, after the subtractions' + via)
    return dict(unit=unit_all, drv=drv_all, sub=bool(sub), scales=bool(scal_any))


@rule('C20.order', floor=5)
def order(repo, out):
    """Total jacobian: unit and driver scaling are applied exactly once, after the colouring subtractions; driver scaling is gated by the driver_scaling request."""
    for qn in ('_TotalJacInfo.compute_totals', '_TotalJacInfo._compute_totals_approx'):
        _order_fn(repo, out, repo.func(TOTJAC, qn), True, 0)
    fn = repo.func(TOTJAC, '_TotalJacInfo.__init__')
    hs = [st for st in astx.walk_stmts(fn.node.body) if isinstance(st, ast.Assign) and
          any(astx.path(t) == 'self.has_scaling' for t in st.targets)]
    if len(hs) != 1:
        out.unsure(fn, fn.node, f'{len(hs)} assignments of self.has_scaling')
    else:
        v = hs[0].value
        if isinstance(v, ast.BoolOp) and isinstance(v.op, ast.And) and \
                any(isinstance(x, ast.Name) and x.id == 'driver_scaling' for x in v.values) and \
                any(astx.mentions(x, '_has_scaling') for x in v.values):
            out.ok(fn, hs[0], 'has_scaling = driver has scaling AND driver_scaling requested')
        elif not astx.mentions(v, 'driver_scaling'):
            out.bad(fn, hs[0], 'has_scaling ignores the driver_scaling argument: unscaled totals cannot be requested',
                    key='has-scaling')
        else:
            out.unsure(fn, hs[0], 'unrecognised has_scaling formula')


# =========================================================================== spaces (driver-scaled vs model)
_GETTERS = {'get_constraint_values': 'con', 'get_design_var_values': 'dv', 'get_objective_values': 'obj'}
_META_TABLES = {'self._cons': 'con', 'self._designvars': 'dv', 'self._objs': 'obj',
                'self.driver._cons': 'con', 'self.driver._designvars': 'dv', 'driver._cons': 'con',
                'driver._designvars': 'dv'}


def _getter_space(repo, call):
    """'driver' / 'model' / None (undetermined, or a violation distance) for a get_*_values(...) call."""
    nm = astx.callee_attr(call)
    fdef = repo.func(DRIVER, f'Driver.{nm}').node
    b = _bind(call, fdef)
    if b is None:
        return None
    if 'viol' in b and not (isinstance(b['viol'], ast.Constant) and b['viol'].value is False):
        return None
    if 'driver_scaling' in b:
        v = b['driver_scaling']
        if isinstance(v, ast.Constant) and isinstance(v.value, bool):
            return 'driver' if v.value else 'model'
        return None
    # default from the signature
    args = fdef.args
    names = [a.arg for a in args.args]
    if 'driver_scaling' in names:
        i = names.index('driver_scaling') - (len(names) - len(args.defaults))
        if i >= 0 and isinstance(args.defaults[i], ast.Constant):
            return 'driver' if args.defaults[i].value else 'model'
    return None


class _Spaces:
    def __init__(self, repo, ctx):
        self.repo, self.ctx = repo, ctx

    def _strip(self, e):
        while isinstance(e, ast.Call) and isinstance(e.func, ast.Attribute) and not e.args and \
                e.func.attr in ('flatten', 'ravel', 'copy'):
            e = e.func.value
        return e

    def value_space(self, e, at, depth=0):
        """Space of an expression that is (an element of) a get_*_values() result, else None."""
        ctx = self.ctx
        e = self._strip(e)
        if depth > 4:
            return None
        if isinstance(e, ast.Call) and astx.callee_attr(e) in _GETTERS:
            return ('dict', _getter_space(self.repo, e))
        if isinstance(e, ast.Subscript):
            r = self.value_space(e.value, at, depth + 1)
            if r and r[0] == 'dict':
                return ('elem', r[1])
            return None
        if isinstance(e, ast.Name):
            ds = ctx.defs(at, e.id)
            if len(ds) != 1:
                return None
            kind, payload, d = ds[0]
            if kind == 'expr':
                return self.value_space(payload, d, depth + 1)
            if kind == 'loop':
                lp, ix = payload
                it = lp.iter
                if isinstance(it, ast.Call) and astx.callee_attr(it) == 'items' and ix == (1,):
                    r = self.value_space(it.func.value, d, depth + 1)
                    if r and r[0] == 'dict':
                        return ('elem', r[1])
        return None

    def meta_table(self, e, at, depth=0):
        """'con'/'dv' when e denotes the model metadata dict of ONE variable."""
        ctx = self.ctx
        if depth > 4:
            return None
        if isinstance(e, ast.Subscript):
            base, bat = ctx.resolve(e.value, at)
            p = astx.path(base)
            if p in _META_TABLES:
                return _META_TABLES[p]
            return None
        if isinstance(e, ast.Name):
            ds = ctx.defs(at, e.id)
            if len(ds) != 1:
                return None
            kind, payload, d = ds[0]
            if kind == 'expr':
                return self.meta_table(payload, d, depth + 1)
            if kind == 'loop':
                lp, ix = payload
                it = lp.iter
                if isinstance(it, ast.Call) and astx.callee_attr(it) == 'items' and ix == (1,):
                    base, _ = ctx.resolve(it.func.value, d)
                    return _META_TABLES.get(astx.path(base))
        return None

    def bound_space(self, e, at, depth=0):
        """('model'|'driver', kind) for a bound expression, else None."""
        ctx = self.ctx
        e = self._strip(e)
        if depth > 4:
            return None
        if isinstance(e, ast.Subscript):
            k = astx.const_str(e.slice)
            if k in ('lower', 'upper', 'equals'):
                t = self.meta_table(e.value, at)
                if t is not None:
                    return 'model', k
                return None
            # element of a vector returned by get_bounds_scaling
            if isinstance(e.value, ast.Name):
                ds = ctx.defs(at, e.value.id)
                if len(ds) == 1 and ds[0][0] == 'unpack':
                    c, i = ds[0][1]
                    if isinstance(c, ast.Call) and astx.callee_attr(c) == 'get_bounds_scaling' and i in (0, 1, 2):
                        return 'driver', ('lower', 'upper', 'equals')[i]
            return None
        if isinstance(e, ast.Name):
            ds = ctx.defs(at, e.id)
            if len(ds) == 1 and ds[0][0] == 'expr':
                return self.bound_space(ds[0][1], ds[0][2], depth + 1)
        return None


_GA = 'openmdao/drivers/genetic_algorithm_driver.py'
_DE_ = 'openmdao/drivers/differential_evolution_driver.py'


@rule('C20.space', floor=8)
def space(repo, out):
    """Driver base class and the two penalty-method drivers never subtract/compare a driver-scaled value with a model-space bound (meta['lower'|'upper'|'equals'])."""
    _space_scan(repo, out, [DRIVER, _DE_, _GA])


@rule('C20.space-all', floor=1, tier='thorough')
def space_all(repo, out):
    """Same as C20.space over every module in openmdao/drivers/."""
    rest = [r for r in repo.shipped() if r.startswith('openmdao/drivers/') and r not in (_DE_, _GA)]
    n0 = len(out.items)
    _space_scan(repo, out, rest)
    if len(out.items) == n0:
        out.ok((DRIVER, 'Driver.get_constraint_values'), None,
               f'no value/bound combination recognised in the other {len(rest)} driver modules')


def _space_scan(repo, out, rels):
    for rel in rels:
        src = repo.source(rel)
        if not any(gname in src for gname in _GETTERS):
            continue
        if not any(tok in src for tok in ("'lower']", "'upper']", "'equals']", '"lower"]', '"upper"]', '"equals"]',
                                           'get_bounds_scaling')):
            continue   # no bound is read in this module: nothing to combine a value with
        m = repo.module(rel)
        for f in m.funcs.values():
            cs = astx.calls(f.node)
            if not any(astx.callee_attr(c) in _GETTERS for c in cs):
                continue
            if not any(astx.callee_attr(c) == 'get_bounds_scaling' for c in cs) and not any(
                    isinstance(w, ast.Subscript) and astx.const_str(w.slice) in ('lower', 'upper', 'equals')
                    for w in astx.walk(f.node)):
                continue
            ctx = Ctx(f)
            sp = _Spaces(repo, ctx)
            for n in ctx.g.nodes:
                if n.kind not in ('stmt', 'test'):
                    continue
                for e in n.exprs():
                    for w in astx.walk(e):
                        pairs = []
                        if isinstance(w, ast.BinOp) and isinstance(w.op, ast.Sub):
                            pairs = [(w.left, w.right)]
                        elif isinstance(w, ast.Compare) and len(w.ops) == 1 and \
                                isinstance(w.ops[0], (ast.Lt, ast.LtE, ast.Gt, ast.GtE)):
                            pairs = [(w.left, w.comparators[0])]
                        elif isinstance(w, ast.Call) and astx.callee_attr(w) == 'isclose' and len(w.args) >= 2:
                            pairs = [(w.args[0], w.args[1])]
                        for a, b in pairs:
                            for val, bnd in ((a, b), (b, a)):
                                vs = sp.value_space(val, n)
                                if not vs or vs[0] != 'elem':
                                    continue
                                bs = sp.bound_space(bnd, n)
                                if bs is None:
                                    continue
                                if vs[1] is None:
                                    out.unsure(f, n.ast, 'cannot tell whether the value was requested with driver scaling')
                                    continue
                                if vs[1] != bs[0]:
                                    out.bad(f, n.ast, f"`{astx.src(val)}` is a {vs[1]}-space value "
                                            f"({'driver_scaling defaults to True' if vs[1] == 'driver' else 'driver_scaling=False'}) "
                                            f"but `{astx.src(bnd)}` is the {bs[1]} bound in {bs[0]} space: with a "
                                            'ref/scaler on the variable the optimizer enforces a different bound than '
                                            'the declared one', key=f'mixed-space-{bs[1]}')
                                else:
                                    out.ok(f, n.ast, f'{vs[1]}-space value against {bs[0]}-space {bs[1]} bound')


# =========================================================================== activity gates
def _truth(e, env):
    """Boolean value of a test over known atoms (paths in env); None when an unknown atom matters."""
    if isinstance(e, ast.UnaryOp) and isinstance(e.op, ast.Not):
        v = _truth(e.operand, env)
        return None if v is None else not v
    if isinstance(e, ast.BoolOp):
        vals = [_truth(v, env) for v in e.values]
        if isinstance(e.op, ast.And):
            if any(v is False for v in vals):
                return False
            return None if any(v is None for v in vals) else True
        if any(v is True for v in vals):
            return True
        return None if any(v is None for v in vals) else False
    p = astx.path(e)
    p = env.get('@alias', {}).get(p, p)
    if p in env:
        return env[p]
    return None


def _local_aliases(fn):
    """{local name: attribute path} for locals assigned exactly once from a plain attribute path."""
    cnt, val = {}, {}
    for st in astx.walk_stmts(fn.node.body):
        for t in astx.assigned_targets(st) if isinstance(st, (ast.Assign, ast.AugAssign, ast.AnnAssign, ast.For, ast.With)) else []:
            if isinstance(t, ast.Name):
                cnt[t.id] = cnt.get(t.id, 0) + 1
                if isinstance(st, ast.Assign) and len(st.targets) == 1 and astx.path(st.value) and \
                        isinstance(st.value, ast.Attribute):
                    val[t.id] = astx.path(st.value)
    return {k: v for k, v in val.items() if cnt.get(k) == 1}


def _gate_check(out, fn, active, work_nodes, what):
    """Whenever one of the *active* flags/tables is truthy, no early return may skip the work."""
    import itertools
    g = cfgm.build(fn)
    aliases = _local_aliases(fn)
    names = {a.split('.')[-1] for a in active} | {k for k, v in aliases.items() if v in active}
    tests = [n for n in g.nodes if n.kind == 'test' and isinstance(n.ast, ast.If) and
             any(astx.mentions(n.ast.test, a) for a in names)]
    work = [n for st in work_nodes for n in g.nodes_of(st)]
    if not work:
        raise AnalysisError(f'{fn.ident}: no work statements for the gate check')
    for combo in itertools.product((False, True), repeat=len(active)):
        if not any(combo):
            continue
        env = dict(zip(active, combo))
        env['@alias'] = aliases

        def ok(n, m, lab):
            if lab == 'exc':
                return False
            if n in tests and lab in ('true', 'false'):
                v = _truth(n.ast.test, env)
                if v is not None and v != (lab == 'true'):
                    return False
            return True
        r = bfs(g, [g.entry], ok)
        if not any(w in r for w in work):
            st_ = ', '.join(f'{a.split(".")[-1]}={"set" if v else "empty"}' for a, v in env.items() if a != '@alias')
            out.bad(fn, tests[0].ast if tests else fn.node,
                    f'{what} is skipped although scaling is declared ({st_}): values are scaled, this quantity is not',
                    key='gate-' + '-'.join(a.split('.')[-1] for a, v in env.items() if v and a != '@alias'))
            return False
    out.ok(fn, tests[0].ast if tests else fn.node, f'{what} is reached whenever scaling is declared')
    return True


@rule('C20.gates', floor=9)
def gates(repo, out):
    """Scaling of derivatives/multipliers is active whenever scaling of values is: _has_scaling covers every table, early returns only fire when nothing is declared, requests are forwarded."""
    # Autoscaler.setup: _has_scaling accumulates over all three tables
    fn = repo.func(AUTO, 'Autoscaler.setup')
    ctx = Ctx(fn)
    acc = [st for st in astx.walk_stmts(fn.node.body) if isinstance(st, ast.Assign) and
           any(astx.path(t) == 'self._has_scaling' for t in st.targets) and not isinstance(st.value, ast.Constant)]
    if len(acc) != 1:
        out.unsure(fn, fn.node, f'{len(acc)} accumulating assignments of self._has_scaling')
    else:
        st = acc[0]
        v = st.value
        keys = set()
        selfref = False
        odd = None
        terms = v.values if isinstance(v, ast.BoolOp) and isinstance(v.op, ast.Or) else None
        if terms is None:
            if isinstance(v, ast.BoolOp):
                out.bad(fn, st, 'self._has_scaling is combined with `and`: one unscaled variable switches jacobian and '
                        'multiplier scaling off for all', key='has-scaling-and')
            else:
                out.unsure(fn, st, 'unrecognised accumulation of self._has_scaling')
        else:
            for t in terms:
                if astx.path(t) == 'self._has_scaling':
                    selfref = True
                    continue
                if isinstance(t, ast.BoolOp) and isinstance(t.op, ast.And) and astx.mentions(t, '_has_scaling'):
                    out.bad(fn, st, f'`{astx.src(t)}`: the accumulated flag is AND-ed with a per-variable test, so it can '
                            'never become true through this term', key='has-scaling-and')
                    odd = t
                    continue
                nt = none_test(t)
                mk = meta_key(ctx, nt[0], ctx.node(st)) if nt else None
                if nt is None or mk is None:
                    odd = t
                elif not nt[1]:
                    odd = t
                    out.bad(fn, st, f"`{astx.src(t)}` marks scaling as active when meta['{mk[0]}'] is None", key='has-scaling-polarity')
                else:
                    keys.add(mk[0])
            loops = [a for a in astx.ancestors(st) if isinstance(a, ast.For)]
            types = None
            for lp in loops:
                if isinstance(lp.iter, (ast.List, ast.Tuple)) and all(astx.const_str(e) for e in lp.iter.elts):
                    types = {astx.const_str(e) for e in lp.iter.elts}
                elif astx.path(lp.iter) == 'self._var_meta' or (isinstance(lp.iter, ast.Call) and
                                                                astx.path(lp.iter.func) in ('self._var_meta.values', 'self._var_meta.items')):
                    types = set(_VOI)
            if odd is not None and not any(i['status'] == 'violation' for i in out.items):
                out.unsure(fn, st, f'unrecognised term `{astx.src(odd)}`')
            elif odd is None:
                if not selfref:
                    out.bad(fn, st, 'self._has_scaling is overwritten per variable instead of accumulated: only the last '
                            'variable decides', key='has-scaling-overwrite')
                elif 'total_scaler' not in keys:
                    out.bad(fn, st, "self._has_scaling does not look at meta['total_scaler']", key='has-scaling-key')
                elif types is None:
                    out.unsure(fn, st, 'cannot see which voi tables are visited')
                elif not set(_VOI) <= types:
                    out.bad(fn, st, f'self._has_scaling only considers {sorted(types)}: scaling declared on '
                            f'{sorted(set(_VOI) - types)} scales the values but not the jacobian/multipliers',
                            key='has-scaling-tables')
                else:
                    out.ok(fn, st, '_has_scaling = OR over design_var/constraint/objective of (total_scaler or total_adder set)')
    # early returns
    fj = repo.func(AUTO, 'Autoscaler.apply_jac_scaling')
    ups = [st for st, B, f in _block_updates(Ctx(fj), [s for s in astx.walk_stmts(fj.node.body) if isinstance(s, ast.For)])]
    _gate_check(out, fj, ['self._has_scaling'], ups, 'jacobian scaling')
    fm = repo.func(AUTO, 'Autoscaler.apply_mult_unscaling')
    mups = [st for st in astx.walk_stmts(fm.node.body) if isinstance(st, (ast.AugAssign, ast.Assign)) and
            any(isinstance(a, ast.For) for a in astx.ancestors(st)) and linear_op(st) is not None]
    _gate_check(out, fm, ['self._has_scaling'], mups, 'multiplier unscaling')
    fu = repo.func(TOTJAC, '_TotalJacInfo._apply_unit_scaling')
    uups = [st for st, B, f in _block_updates(Ctx(fu), [s for s in astx.walk_stmts(fu.node.body) if isinstance(s, ast.For)])]
    _gate_check(out, fu, ['self._resp_unit_scalers', 'self._desvar_unit_scalers'], uups, 'unit scaling of the jacobian')
    # the driver_scaling request reaches the vector
    for qn in ('Driver.get_design_var_values', 'Driver.get_objective_values', 'Driver.get_constraint_values'):
        fn = repo.func(DRIVER, qn)
        cs = [c for c in astx.calls(fn.node) if astx.callee_attr(c) == 'update_from_model']
        if len(cs) != 1:
            out.unsure(fn, fn.node, f'{len(cs)} update_from_model calls')
            continue
        a = astx.kwarg(cs[0], 'driver_scaling') or (cs[0].args[1] if len(cs[0].args) > 1 else None)
        if a is None or isinstance(a, ast.Constant):
            out.bad(fn, astx.stmt_of(cs[0]), 'the driver_scaling argument is not forwarded to update_from_model: '
                    f'{"always" if a is None or a.value else "never"} scaled', key='request-not-forwarded')
        elif isinstance(a, ast.Name) and a.id == 'driver_scaling' or (
                isinstance(a, ast.BoolOp) and isinstance(a.op, ast.And) and
                any(isinstance(x, ast.Name) and x.id == 'driver_scaling' for x in a.values)):
            out.ok(fn, astx.stmt_of(cs[0]), 'driver_scaling request forwarded to the vector')
        else:
            out.unsure(fn, astx.stmt_of(cs[0]), 'unrecognised driver_scaling argument')
    for qn in ('OptimizerVector.update_from_model', 'OptimizerVector.create_from_model'):
        fn = repo.func(OVEC, qn)
        g = cfgm.build(fn)
        calls = [n for n in g.nodes if n.kind == 'stmt' and any(
            (astx.callee_attr(c) or '').startswith('apply_') and (astx.callee_attr(c) or '').endswith('_scaling')
            for c in n.calls())]
        tests = [n for n in g.nodes if n.kind == 'test' and isinstance(n.ast, ast.If)
                 and _flag_test(n.ast.test, '') is None and
                 (isinstance(n.ast.test, ast.Name) and n.ast.test.id == 'driver_scaling' or
                  isinstance(n.ast.test, ast.UnaryOp) and isinstance(n.ast.test.op, ast.Not) and
                  isinstance(n.ast.test.operand, ast.Name) and n.ast.test.operand.id == 'driver_scaling')]
        if not calls:
            raise AnalysisError(f'{fn.ident}: no scaling call')
        odd_guard = None
        for c in calls:
            for a in astx.ancestors(c.ast):
                if isinstance(a, ast.If) and not any(a is t.ast for t in tests) and _voi_chain(a, 'voi_type') is None \
                        and not (isinstance(a._parent, ast.If) and a in a._parent.orelse) \
                        and not isinstance(a.test, ast.Constant):
                    odd_guard = a
        if odd_guard is not None:
            out.unsure(fn, odd_guard, 'scaling call sits under an unrecognised condition')
            continue

        def edge(req):
            def ok(n, m, lab):
                if lab == 'exc':
                    return False
                if n in tests and lab in ('true', 'false'):
                    pos = isinstance(n.ast.test, ast.Name)
                    return ((lab == 'true') == pos) == req
                return True
            return ok
        r_off = bfs(g, [g.entry], edge(False))
        r_on = bfs(g, [g.entry], edge(True), avoid=calls)
        if any(c in r_off for c in calls):
            out.bad(fn, calls[0].ast, 'the vector is scaled although driver_scaling=False was requested', key='scaled-unrequested')
        elif g.exit in r_on:
            out.bad(fn, calls[0].ast, 'with driver_scaling=True the function can return without scaling the vector',
                    key='unscaled-requested')
        else:
            out.ok(fn, calls[0].ast, 'scaled iff driver_scaling is requested')


@rule('C20.bounds-autoscaler', floor=2)
def bounds_autoscaler(repo, out):
    """BoundsAutoscaler: the installed (total_adder, total_scaler) send lower to 0 and upper to 1 under the scaling sequence."""
    fn = repo.func(BAUTO, 'BoundsAutoscaler.setup')
    ctx = Ctx(fn)
    vf = VecFn(repo, 'Autoscaler._apply_vec_scaling')
    seq = vf.seq() if not (vf.bad or vf.unsure) and sorted(vf.seq()) == sorted(FWD) else FWD
    stores = {}
    for st in astx.walk_stmts(fn.node.body):
        if isinstance(st, ast.Assign) and len(st.targets) == 1 and isinstance(st.targets[0], ast.Subscript) and \
                astx.const_str(st.targets[0].slice) in ('total_scaler', 'total_adder'):
            stores[astx.const_str(st.targets[0].slice)] = st
    if set(stores) != {'total_scaler', 'total_adder'}:
        raise AnalysisError(f'{fn.ident}: stores of total_scaler/total_adder not found')

    def sym(e, at, env, depth=0):
        """All possible exact values of e (set), following local definitions."""
        if depth > 12:
            raise _Abort(e)
        if isinstance(e, ast.Name):
            vals = set()
            ds = ctx.defs(at, e.id)
            if not ds:
                raise _Abort(e)
            for kind, payload, d in ds:
                if kind != 'expr':
                    raise _Abort(e)
                vals |= sym(payload, d, env, depth + 1)
            return vals
        if isinstance(e, ast.Call):
            nm = astx.callee_attr(e)
            if nm == 'get' and e.args and astx.const_str(e.args[0]) in env:
                return {env[astx.const_str(e.args[0])]}
            if nm == '_as_bound_array' and e.args:
                return sym(e.args[0], at, env, depth + 1)
            if nm in ('float', 'asarray', 'array') and e.args:
                return sym(e.args[0], at, env, depth + 1)
            if nm in ('item', 'copy', 'ravel') and not e.args and isinstance(e.func, ast.Attribute):
                return sym(e.func.value, at, env, depth + 1)
            raise _Abort(e)
        if isinstance(e, ast.Subscript) and astx.const_str(e.slice) in env:
            return {env[astx.const_str(e.slice)]}
        if isinstance(e, ast.Constant) and isinstance(e.value, (int, float)) and not isinstance(e.value, bool):
            return {Fraction(str(e.value))}
        if isinstance(e, ast.UnaryOp) and isinstance(e.op, ast.USub):
            return {-v for v in sym(e.operand, at, env, depth + 1)}
        if isinstance(e, ast.BinOp) and type(e.op) in _AUG:
            res = set()
            for a in sym(e.left, at, env, depth + 1):
                for b in sym(e.right, at, env, depth + 1):
                    if isinstance(e.op, ast.Add):
                        res.add(a + b)
                    elif isinstance(e.op, ast.Sub):
                        res.add(a - b)
                    elif isinstance(e.op, ast.Mult):
                        res.add(a * b)
                    else:
                        if b == 0:
                            raise _Abort(e)
                        res.add(a / b)
            return res
        raise _Abort(e)
    bad = None
    try:
        for lo, up in ((Fraction(-3), Fraction(5)), (Fraction(1, 2), Fraction(7, 3)), (Fraction(10), Fraction(1000)),
                       (Fraction(-8), Fraction(-2))):
            env = {'lower': lo, 'upper': up}
            ss = sym(stores['total_scaler'].value, ctx.node(stores['total_scaler']), env)
            aa = sym(stores['total_adder'].value, ctx.node(stores['total_adder']), env)
            for s_ in ss:
                for a_ in aa:
                    if _apply_seq(seq, lo, a_, s_) != 0 or _apply_seq(seq, up, a_, s_) != 1:
                        bad = (f'lower={lo}, upper={up}: installed (adder={a_}, scaler={s_}) maps lower to '
                               f'{_apply_seq(seq, lo, a_, s_)} and upper to {_apply_seq(seq, up, a_, s_)} under {_fmt_seq(seq)}')
                        break
                if bad:
                    break
            if bad:
                break
    except _Abort as ab:
        n = ab.args[0] if ab.args else None
        out.unsure(fn, stores['total_scaler'], f'construct outside the interpreted fragment: {astx.src(n) if isinstance(n, ast.AST) else n}')
        return
    if bad:
        out.bad(fn, stores['total_scaler'], f'bounds normalisation does not send [lower, upper] to [0, 1]: {bad}',
                key='bounds-normalisation')
    else:
        out.ok(fn, stores['total_scaler'], 'installed total_adder/total_scaler send lower to 0 and upper to 1 (4 exact intervals)')
    # the bound cache is refreshed after the metadata was replaced
    g = ctx.g
    inst = [n for n in g.nodes if n.kind == 'stmt' and isinstance(n.ast, ast.Assign) and
            any(isinstance(t, ast.Subscript) and astx.path(t.value) == 'self._var_meta' and
                astx.const_str(t.slice) == 'design_var' for t in n.ast.targets)]
    refresh = [n for n in g.nodes if n.kind == 'stmt' and any(astx.callee_attr(c) == '_compute_scaled_bounds' for c in n.calls())]
    if inst and refresh and all(g.dominated_by(r, inst, labels=cfgm.noexc) is None for r in refresh):
        out.ok(fn, refresh[0].ast, 'scaled bounds are recomputed after the new scaling was installed')
    elif inst and not refresh:
        out.bad(fn, inst[0].ast, 'the design-variable scaling is replaced but the cached scaled bounds are not recomputed: '
                'values and bounds are in different spaces', key='bounds-cache-stale')
    elif inst:
        out.bad(fn, refresh[0].ast, 'scaled bounds are recomputed before the new scaling is installed', key='bounds-cache-stale')
    else:
        out.unsure(fn, fn.node, "assignment of self._var_meta['design_var'] not found")


# =========================================================================== metadata is read-only
_META_KEYS = ('total_scaler', 'total_adder')
_CACHE_ATTRS = ('_scaled_lower', '_scaled_upper', '_scaled_equals')
_VIEW_FUNCS = ('asarray', 'asanyarray', 'atleast_1d', 'atleast_2d', 'ravel', 'squeeze', 'reshape', 'broadcast_to')
_VIEW_METHODS = ('ravel', 'reshape', 'view', 'squeeze', 'transpose', 'asarray')
_INPLACE_METHODS = ('fill', 'sort', 'itemset', 'resize', 'put', 'partition', 'set_data', '_update_from_dict')
_UFUNCS3 = ('add', 'subtract', 'multiply', 'divide', 'true_divide', 'negative', 'reciprocal', 'power', 'maximum',
            'minimum', 'clip', 'abs', 'absolute', 'sqrt', 'square', 'exp', 'log')


class _Alias:
    """May-alias analysis: does an expression denote (a view of) a scaling-metadata array or a cached bound vector?"""

    def __init__(self, ctx):
        self.ctx = ctx
        self.memo = {}

    def of(self, e, at, depth=0):
        """Description of the aliased metadata, or None when the value is fresh/unrelated."""
        if e is None or depth > 10:
            return None
        ctx = self.ctx
        if isinstance(e, ast.Subscript):
            k = astx.const_str(e.slice)
            if k in _META_KEYS:
                return f"meta['{k}']"
            p = astx.path(e.value) or ''
            if p.split('.')[-1] in _CACHE_ATTRS:
                return f'cached bound vector {p}[...]'
            b = self.of(e.value, at, depth + 1)
            if b is None:
                return None
            if b.startswith('cached bound vector'):
                # OptimizerVector.__getitem__ returns a view of its data
                return 'a view of the ' + b
            if isinstance(e.slice, ast.Slice) or (isinstance(e.slice, ast.Constant) and e.slice.value is Ellipsis):
                return b      # basic slicing of an ndarray is a view; element/mask/fancy indexing copies
            return None
        if isinstance(e, ast.Attribute):
            if e.attr in ('T', 'flat', 'real', '_data'):
                return self.of(e.value, at, depth + 1)
            return None
        if isinstance(e, ast.Call):
            nm = astx.callee_attr(e)
            inl = ctx.inline(e, None)
            if inl is not None:
                return self.of(inl, at, depth + 1)
            if nm == 'get' and e.args and astx.const_str(e.args[0]) in _META_KEYS:
                return f"meta['{astx.const_str(e.args[0])}']"
            if nm == 'get_bounds_scaling':
                return 'cached bound vector (get_bounds_scaling)'
            if isinstance(e.func, ast.Attribute) and astx.path(e.func.value) in ('np', 'numpy'):
                if nm in _VIEW_FUNCS and e.args and not (astx.kwarg(e, 'copy') is not None):
                    return self.of(e.args[0], at, depth + 1)
                return None
            if isinstance(e.func, ast.Attribute) and nm in _VIEW_METHODS:
                if nm == 'asarray' and (e.args or e.keywords):
                    return None   # OptimizerVector.asarray(**filters) returns a copy
                r = self.of(e.func.value, at, depth + 1)
                if r and r.startswith('cached bound vector') and nm == 'asarray':
                    return 'a view of the ' + r
                return r
            return None
        if isinstance(e, ast.BoolOp):
            for v in e.values:
                r = self.of(v, at, depth + 1)
                if r:
                    return r
            return None
        if isinstance(e, ast.IfExp):
            return self.of(e.body, at, depth + 1) or self.of(e.orelse, at, depth + 1)
        if isinstance(e, ast.NamedExpr):
            return self.of(e.value, at, depth + 1)
        if isinstance(e, ast.Name):
            key = (e.id, at.id)
            if key in self.memo:
                return self.memo[key]
            self.memo[key] = None     # cycle guard
            res = None
            for kind, payload, d in ctx.defs(at, e.id):
                if kind == 'expr':
                    res = self.of(payload, d, depth + 1)
                elif kind == 'unpack':
                    inl = ctx.inline(payload[0], payload[1]) if isinstance(payload[0], ast.Call) else None
                    if inl is not None:
                        res = self.of(inl, d, depth + 1)
                    else:
                        res = self.of(payload[0], d, depth + 1)
                elif kind == 'loop':
                    lp, ix = payload
                    it = lp.iter
                    if isinstance(it, ast.Call) and astx.callee_attr(it) in ('items', 'values') and \
                            isinstance(it.func, ast.Attribute):
                        r = self.of(it.func.value, d, depth + 1)
                        if r and r.startswith('cached bound vector') and (astx.callee_attr(it) == 'values' or ix == (1,)):
                            res = 'a view of the ' + r
                elif kind == 'aug':
                    # x op= ... keeps the object when x was an array alias before
                    pre = [self.of(ast.Name(id=e.id, ctx=ast.Load()), p_, depth + 1)
                           for p_, lab in ctx.g.pred[d] if lab != 'exc']
                    res = next((r for r in pre if r), None)
                if res:
                    break
            self.memo[key] = res
            return res
        return None


def _readonly_scan(repo, out, rels):
    """Report every in-place update whose target may alias scaling metadata / cached bounds."""
    for rel in rels:
        src = repo.source(rel)
        if not any(tok in src for tok in _META_KEYS + _CACHE_ATTRS + ('get_bounds_scaling',)):
            continue
        m = repo.module(rel)
        for f in m.funcs.values():
            reads = [w for w in astx.walk(f.node) if
                     (isinstance(w, ast.Constant) and w.value in _META_KEYS) or
                     (isinstance(w, ast.Attribute) and w.attr in _CACHE_ATTRS + ('get_bounds_scaling',))]
            if not reads and '.' in f.qualname:
                # reads through a helper method of the same class
                cls_ = f.qualname.rsplit('.', 1)[0]
                for c in astx.calls(f.node):
                    if isinstance(c.func, ast.Attribute) and astx.path(c.func.value) == 'self':
                        h = m.funcs.get(f'{cls_}.{c.func.attr}')
                        if h is not None and h.node is not f.node and any(
                                isinstance(w, ast.Constant) and w.value in _META_KEYS for w in astx.walk(h.node)):
                            reads = [c]
            if not reads:
                continue
            sinks = [st for st in astx.walk_stmts(f.node.body) if isinstance(st, ast.AugAssign) or
                     (isinstance(st, ast.Assign) and any(isinstance(t, ast.Subscript) for t in astx.assigned_targets(st)))
                     or any(isinstance(w, ast.Call) for w in astx.walk(st)
                            if not isinstance(st, (ast.If, ast.For, ast.While, ast.With, ast.Try,
                                                   ast.FunctionDef, ast.ClassDef)))]
            ctx = Ctx(f)
            al = _Alias(ctx)
            nbad = 0
            for st in sinks:
                ns = ctx.g.nodes_of(st)
                if not ns:
                    continue
                at = ns[0]
                if isinstance(st, ast.AugAssign):
                    t = st.target
                    if isinstance(t, ast.Subscript) and astx.const_str(t.slice) in _META_KEYS:
                        out.bad(f, st, f"augmented assignment to meta['{astx.const_str(t.slice)}'] changes the declared "
                                'scaling for every later value, bound, jacobian and multiplier query', key='meta-augassign')
                        nbad += 1
                        continue
                    r = al.of(t if isinstance(t, ast.Name) else t.value, at)
                    if r and not (isinstance(t, ast.Name) and r.startswith('cached bound vector')):
                        out.bad(f, st, f'`{astx.src(t)}` may be the very array stored in {r} (no copy is taken on the way): '
                                'the augmented assignment modifies it in place, so every later scaling of values, bounds '
                                'and derivatives uses corrupted metadata. Rebind instead (`x = x / y`).',
                                key='inplace-' + (astx.path(t) or astx.src(t)))
                        nbad += 1
                    continue
                if isinstance(st, ast.Assign):
                    hit = False
                    for t in astx.assigned_targets(st):
                        if isinstance(t, ast.Subscript) and astx.const_str(t.slice) not in _META_KEYS:
                            p = astx.path(t.value) or ''
                            if p.split('.')[-1] in _CACHE_ATTRS:
                                continue   # (re)filling the cache dict itself is the producer's job
                            r = al.of(t.value, at)
                            if r:
                                out.bad(f, st, f'`{astx.src(t)}` stores into {r}: the shared scaling metadata is overwritten '
                                        'in place', key='store-' + (astx.path(t.value) or astx.src(t.value)))
                                nbad += 1
                                hit = True
                    if hit:
                        continue
                for c in (astx.calls(st) if not isinstance(st, (ast.If, ast.For, ast.While, ast.With, ast.Try)) else []):
                    o = astx.kwarg(c, 'out')
                    if o is None and astx.callee_attr(c) in _UFUNCS3 and len(c.args) == 3 and \
                            astx.path(astx.receiver(c)) in ('np', 'numpy'):
                        o = c.args[2]
                    if o is not None and al.of(o, at):
                        out.bad(f, st, f'`out={astx.src(o)}` writes the result into {al.of(o, at)}', key='out-' + astx.src(o))
                        nbad += 1
                    elif isinstance(c.func, ast.Attribute) and c.func.attr in _INPLACE_METHODS and \
                            not astx.path(c.func.value) in ('np', 'numpy') and al.of(c.func.value, at):
                        out.bad(f, st, f'`{astx.src(c.func)}(...)` modifies {al.of(c.func.value, at)} in place',
                                key='method-' + astx.src(c.func))
                        nbad += 1
                    elif astx.callee_attr(c) in ('copyto', 'put', 'place', 'putmask') and c.args and \
                            astx.path(astx.receiver(c)) in ('np', 'numpy') and al.of(c.args[0], at):
                        out.bad(f, st, f'`{astx.src(c.func)}` writes into {al.of(c.args[0], at)}', key='copyto-' + astx.src(c.args[0]))
                        nbad += 1
            if not nbad:
                out.ok(f, f.node, 'reads scaling metadata / cached bounds; no in-place update can reach them')


@rule('C20.meta-readonly', floor=11)
def meta_readonly(repo, out):
    """No in-place update (op=, slice store, out=, mutating method) targets a value that may alias meta['total_scaler'|'total_adder'] or the cached scaled-bound vectors (Autoscaler, BoundsAutoscaler, OptimizerVector, Driver)."""
    _readonly_scan(repo, out, [AUTO, BAUTO, OVEC, DRIVER])


@rule('C20.meta-readonly-all', floor=1, tier='thorough')
def meta_readonly_all(repo, out):
    """Same over every other module in openmdao/drivers/ and core/total_jac.py."""
    rest = [r for r in repo.shipped() if (r.startswith('openmdao/drivers/') or r == TOTJAC) and r not in (AUTO, BAUTO)]
    _readonly_scan(repo, out, rest)


# =========================================================================== who writes total_adder/total_scaler
TOTAL_WRITERS = {
    (BAUTO, 'BoundsAutoscaler.setup'): 'bounds-derived pair installed into a private copy of the metadata (C20.bounds-autoscaler)',
}


def _das_call_ok(call, das_node):
    """None when the determine_adder_scaler call passes the declaration's ref0/ref; else a reason."""
    b = _bind(call, das_node, skip_self=False)
    if b is None:
        return 'star arguments'
    dropped = [p for p in ('ref0', 'ref') if p not in b or (isinstance(b[p], ast.Constant) and b[p].value is None)]
    if len(dropped) == 2:
        return ('the pair is computed with ref0=None, ref=None, i.e. from the declared adder/scaler only: a variable '
                'scaled with ref/ref0 loses its scaling')
    if dropped:
        return f'the pair is computed without the declared {dropped[0]}'
    return None


def _total_store_origin(ctx, value, at, das_node, depth=0):
    """Classify where a value stored under total_adder/total_scaler comes from: list of problems (empty = fine),
    or None when the origin is not recognised."""
    if depth > 4:
        return None
    if isinstance(value, ast.Constant) and value.value is None:
        return []          # normalisation of the neutral element to None
    if isinstance(value, ast.Call) and astx.callee_attr(value) == 'determine_adder_scaler':
        r = _das_call_ok(value, das_node)
        return [r] if r else []
    if isinstance(value, ast.Name):
        probs = []
        ds = ctx.defs(at, value.id)
        if not ds:
            return None
        for kind, payload, d in ds:
            if kind == 'unpack':
                r = _total_store_origin(ctx, payload[0], d, das_node, depth + 1)
            elif kind == 'expr':
                r = _total_store_origin(ctx, payload, d, das_node, depth + 1)
            else:
                r = None
            if r is None:
                return None
            probs += r
        return probs
    return None


def _total_writers_scan(repo, out, rels):
    das = repo.func(GUTILS, 'determine_adder_scaler').node
    for rel in rels:
        src = repo.source(rel)
        if 'total_scaler' not in src and 'total_adder' not in src:
            continue
        m = repo.module(rel)
        for f in m.funcs.values():
            stores = []    # (stmt, key, value expr or None)
            for st in astx.walk_stmts(f.node.body):
                if isinstance(st, ast.Assign):
                    for t in st.targets:
                        elts = t.elts if isinstance(t, (ast.Tuple, ast.List)) else [t]
                        for i_, e in enumerate(elts):
                            if isinstance(e, ast.Subscript) and astx.const_str(e.slice) in _META_KEYS:
                                v = st.value
                                if isinstance(t, (ast.Tuple, ast.List)) and isinstance(v, (ast.Tuple, ast.List)) and \
                                        len(v.elts) == len(elts):
                                    v = v.elts[i_]
                                stores.append((st, astx.const_str(e.slice), v))
                if isinstance(st, (ast.If, ast.For, ast.While, ast.With, ast.Try)):
                    continue
                for w in astx.walk(st):
                    if isinstance(w, ast.Dict):
                        for k, v in zip(w.keys, w.values):
                            if astx.const_str(k) in _META_KEYS:
                                stores.append((st, astx.const_str(k), v))
                    if isinstance(w, ast.Call) and astx.callee_attr(w) in ('update', 'dict', 'setdefault'):
                        for kw in w.keywords:
                            if kw.arg in _META_KEYS:
                                stores.append((st, kw.arg, kw.value))
            if not stores:
                continue
            if (rel, f.qualname) in TOTAL_WRITERS:
                for st, k, v in stores:
                    out.ok(f, st, TOTAL_WRITERS[(rel, f.qualname)])
                continue
            ctx = Ctx(f)
            seen = set()
            for st, k, v in stores:
                if (id(st), k) in seen:
                    continue
                seen.add((id(st), k))
                ns = ctx.g.nodes_of(st)
                if not ns:
                    continue
                r = _total_store_origin(ctx, v, ns[0], das)
                if r is None:
                    out.bad(f, st, f"meta['{k}'] is written from `{astx.src(v)}`, which is not the result of "
                            'determine_adder_scaler(ref0, ref, adder, scaler) of the declaration: values, bounds, jacobian '
                            'and multipliers are scaled with a pair the user did not declare (only the tabled writers may '
                            'install a different pair)', key=f'total-writer-{k}')
                elif r:
                    out.bad(f, st, f"meta['{k}']: {r[0]}", key=f'total-writer-{k}')
                else:
                    out.ok(f, st, f"meta['{k}'] <- determine_adder_scaler(ref0, ref, adder, scaler) (or None for the neutral element)")


@rule('C20.total-writers', floor=12)
def total_writers(repo, out):
    """meta['total_adder'|'total_scaler'] is only ever written with the result of determine_adder_scaler called with the declaration's ref0/ref/adder/scaler (frozen table of other writers)."""
    _total_writers_scan(repo, out, [SYSTEM, AUTO, BAUTO, DRIVER, OVEC])


@rule('C20.total-writers-all', floor=1, tier='thorough')
def total_writers_all(repo, out):
    """Same over the rest of the shipped package."""
    rest = [r for r in repo.shipped() if r not in (SYSTEM, AUTO, BAUTO, DRIVER, OVEC)]
    n0 = len(out.items)
    _total_writers_scan(repo, out, rest)
    if len(out.items) == n0:
        out.ok((GUTILS, 'determine_adder_scaler'), None, f'no other writer of total_adder/total_scaler in {len(rest)} shipped modules')


# =========================================================================== neutral element -> None
_NEUTRAL = {'scaler': 1, 'total_scaler': 1, 'adder': 0, 'total_adder': 0}
# truth of quantified array tests over the patterns (all entries neutral, mixed, no entry neutral)
_ARR = ('all entries neutral', 'some entries neutral', 'no entry neutral')


def _neutral_atom(t, xkey, neutral):
    """Truth of an atomic test per pattern: dict pattern -> bool for the 3 array patterns + 'scalar neutral',
    'scalar other'; None when not recognised.  xkey = structural key of the tested variable."""
    def is_x(e):
        return K(e) == xkey
    nt = none_test(t)
    if nt is not None and is_x(nt[0]):
        return {p_: nt[1] for p_ in _ARR + ('scalar neutral', 'scalar other')}    # a declared value is present
    if isinstance(t, ast.Call) and astx.callee_attr(t) == 'isinstance' and len(t.args) == 2 and is_x(t.args[0]) and \
            astx.mentions(t.args[1], 'ndarray'):
        return {**{p_: True for p_ in _ARR}, 'scalar neutral': False, 'scalar other': False}
    if isinstance(t, ast.Compare) and len(t.ops) == 1 and isinstance(t.ops[0], (ast.Eq, ast.NotEq)):
        a, b = t.left, t.comparators[0]
        if is_x(b):
            a, b = b, a
        if is_x(a) and const_num(b) is not None:
            if const_num(b) != neutral:
                return None
            eq = isinstance(t.ops[0], ast.Eq)
            return {'scalar neutral': eq, 'scalar other': not eq}       # elementwise on arrays: not a usable test
    if isinstance(t, ast.Call) and astx.callee_attr(t) in ('all', 'any'):
        q = astx.callee_attr(t)
        arg = t.args[0] if t.args else (t.func.value if isinstance(t.func, ast.Attribute) else None)
        if isinstance(t.func, ast.Attribute) and astx.path(t.func.value) in ('np', 'numpy') and not t.args:
            return None
        if arg is None:
            return None
        if is_x(arg):
            # truthiness of the entries: non-zero
            if neutral != 0:
                return None
            vals = (False, False, True) if q == 'all' else (False, True, True)
            return dict(zip(_ARR, vals))
        if isinstance(arg, ast.Compare) and len(arg.ops) == 1 and isinstance(arg.ops[0], (ast.Eq, ast.NotEq)):
            a, b = arg.left, arg.comparators[0]
            if is_x(b):
                a, b = b, a
            if is_x(a) and const_num(b) == neutral:
                if isinstance(arg.ops[0], ast.Eq):
                    vals = (True, False, False) if q == 'all' else (True, True, False)
                else:
                    vals = (False, False, True) if q == 'all' else (False, True, True)
                return dict(zip(_ARR, vals))
        if isinstance(arg, ast.Call) and astx.callee_attr(arg) == 'isclose' and len(arg.args) >= 2 and \
                is_x(arg.args[0]) and const_num(arg.args[1]) == neutral:
            vals = (True, False, False) if q == 'all' else (True, True, False)
            return dict(zip(_ARR, vals))
    return None


@rule('C20.neutral', floor=10)
def neutral(repo, out):
    """A declared scaler/adder is replaced by None (= no scaling) only when EVERY entry is the neutral element (1 resp. 0)."""
    m = repo.module(SYSTEM)
    okgroups = {}
    try:
        _neutral_scan(m, out, okgroups)
    finally:
        # one obligation per (function, role): how many statements implement it is a matter of style
        flagged = {(i['func'], i['text'].split(' = ')[0]) for i in out.items if i['status'] != 'ok'}
        for (qn_, role_), lst in okgroups.items():
            if (qn_, role_) in flagged:
                continue
            f_, st_, nv_ = lst[0]
            out.ok(f_, st_, f'`{role_}` -> None only when every entry is {nv_} ({len(lst)} statement(s))')


def _neutral_scan(m, out, okgroups):
    for f in m.funcs.values():
        if not any(isinstance(w, ast.Constant) and w.value in ('total_scaler', 'scaler') for w in astx.walk(f.node)) and \
                not any(a.arg in ('scaler', 'adder') for a in f.node.args.args + f.node.args.kwonlyargs):
            continue
        for st in astx.walk_stmts(f.node.body):
            if not (isinstance(st, ast.Assign) and len(st.targets) == 1 and isinstance(st.value, ast.Constant)
                    and st.value.value is None):
                continue
            t = st.targets[0]
            role = t.id if isinstance(t, ast.Name) else (astx.const_str(t.slice) if isinstance(t, ast.Subscript) else None)
            if role not in _NEUTRAL:
                continue
            gl = []
            cur = st
            for a in astx.ancestors(st):
                if isinstance(a, ast.If):
                    gl.append((a.test, cur in a.body))
                if isinstance(a, (ast.FunctionDef, ast.AsyncFunctionDef)):
                    break
                if isinstance(a, ast.stmt):
                    cur = a
            ats = atoms(gl)
            xkey = K(t)
            neutral_v = _NEUTRAL[role]
            lctx = [None]

            def rsv(e_, at_):
                # named sub-condition: flag = <bool expr>
                if isinstance(e_, ast.Name):
                    if lctx[0] is None:
                        lctx[0] = Ctx(f)
                    ns_ = lctx[0].g.nodes_of(at_)
                    if ns_:
                        r_, rat = lctx[0].resolve(e_, ns_[0])
                        if r_ is not e_:
                            return r_, (rat.ast if rat is not None and hasattr(rat, 'ast') else at_)
                return e_, at_
            PATS = _ARR + ('scalar neutral', 'scalar other')
            state = {'unknown': None, 'relevant': False}

            def ev3(e_, at_, p_):
                """True / False / None (does not constrain) of a test in pattern p_."""
                e_, at_ = rsv(e_, at_)
                if isinstance(e_, ast.UnaryOp) and isinstance(e_.op, ast.Not):
                    v_ = ev3(e_.operand, at_, p_)
                    return None if v_ is None else not v_
                if isinstance(e_, ast.BoolOp):
                    vs_ = [ev3(x_, at_, p_) for x_ in e_.values]
                    if isinstance(e_.op, ast.And):
                        return False if any(v_ is False for v_ in vs_) else (None if any(v_ is None for v_ in vs_) else True)
                    return True if any(v_ is True for v_ in vs_) else (None if any(v_ is None for v_ in vs_) else False)
                if isinstance(e_, ast.IfExp):
                    c_ = ev3(e_.test, at_, p_)
                    if c_ is True:
                        return ev3(e_.body, at_, p_)
                    if c_ is False:
                        return ev3(e_.orelse, at_, p_)
                    a_, b_ = ev3(e_.body, at_, p_), ev3(e_.orelse, at_, p_)
                    return a_ if a_ == b_ else None
                if not any(K(w) == xkey for w in astx.walk(e_)):
                    return None             # a test about something else
                if isinstance(e_, ast.Compare) and len(e_.ops) == 1 and isinstance(e_.ops[0], (ast.Is, ast.IsNot)) and \
                        not isinstance(e_.comparators[0], ast.Constant):
                    return None             # identity test against a sentinel object (_UNDEFINED, ...)
                if isinstance(e_, ast.Call) and astx.callee_attr(e_) == 'is_undefined':
                    return None
                state['relevant'] = True
                tb = _neutral_atom(e_, xkey, neutral_v)
                if tb is None:
                    state['unknown'] = e_
                    return None
                return tb.get(p_)
            if any(isinstance(tt, ast.Call) and astx.callee_attr(tt) in ('is_undefined',) and pol for tt, pol in ats):
                continue            # "nothing was declared" sentinel, not a declared value being dropped
            reach = []
            for p_ in PATS:
                vals_ = []
                for tt, pol in gl:
                    v_ = ev3(tt, st, p_)
                    vals_.append(None if v_ is None else (v_ == pol))
                if not any(v_ is False for v_ in vals_):
                    reach.append(p_)
            if not state['relevant']:
                continue            # unconditional reset (e.g. the other scaling family is active)
            if state['unknown'] is not None:
                out.unsure(f, st, f'unrecognised test `{astx.src(state["unknown"])}` in front of `{astx.src(st)}`')
                continue
            wrong = [p_ for p_ in reach if p_ not in ('all entries neutral', 'scalar neutral')]
            if wrong:
                out.bad(f, st, f'`{role}` is dropped (set to None = unscaled) when it has {wrong[0]} '
                        f'(neutral element {neutral_v}): the remaining entries of the declared {role} are ignored',
                        key=f'neutral-{role}')
            else:
                okgroups.setdefault((f.qualname, role), []).append((f, st, neutral_v))


# =========================================================================== which keys are applied
_DECLARED_KEYS = ('scaler', 'adder', 'ref', 'ref0')


def _arith_context(node):
    """True when *node* is an operand of + - * / (possibly through calls/attributes) or of an op= statement."""
    cur = node
    for a in astx.ancestors(node):
        if isinstance(a, ast.BinOp) and isinstance(a.op, (ast.Mult, ast.Div, ast.Add, ast.Sub)):
            return True
        if isinstance(a, ast.AugAssign):
            return cur is a.value or cur is not a.target
        if isinstance(a, ast.Subscript) and cur is a.slice:
            return False
        if isinstance(a, (ast.Compare, ast.BoolOp, ast.IfExp)) and not isinstance(a, ast.IfExp):
            return False
        if isinstance(a, ast.stmt):
            return False
        cur = a
    return False


def _applied_scan(repo, out, rels):
    for rel in rels:
        src = repo.source(rel)
        if not any(f"'{k}'" in src or f'"{k}"' in src for k in _DECLARED_KEYS + _META_KEYS):
            continue
        m = repo.module(rel)
        for f in m.funcs.values():
            def has_keys(node):
                return any(isinstance(w, ast.Constant) and w.value in _DECLARED_KEYS + _META_KEYS for w in astx.walk(node))
            relevant = has_keys(f.node)
            if not relevant and '.' in f.qualname:
                cls_ = f.qualname.rsplit('.', 1)[0]
                for c in astx.calls(f.node):
                    if isinstance(c.func, ast.Attribute) and astx.path(c.func.value) == 'self':
                        h = m.funcs.get(f'{cls_}.{c.func.attr}')
                        if h is not None and h.node is not f.node and has_keys(h.node):
                            relevant = True
            if not relevant:
                continue
            ctx = Ctx(f)
            done = set()
            for w in astx.walk(f.node):
                if not isinstance(w, (ast.Subscript, ast.Name)) or isinstance(getattr(w, 'ctx', None), ast.Store):
                    continue
                if isinstance(w, ast.Subscript) and astx.const_str(w.slice) not in _DECLARED_KEYS + _META_KEYS:
                    continue
                if not _arith_context(w):
                    continue
                st = astx.stmt_of(w)
                ns = ctx.g.nodes_of(st)
                if not ns:
                    continue
                cands = [ctx.resolve(w, ns[0])[0]]
                if isinstance(cands[0], ast.Name):
                    # several definitions (value / default): look at each
                    cands = [ctx.resolve(pl, d_)[0] for kd, pl, d_ in ctx.defs(ns[0], cands[0].id) if kd == 'expr']
                    cands += [ctx.inline(pl[0], pl[1]) for kd, pl, d_ in ctx.defs(ns[0], w.id if isinstance(w, ast.Name) else '')
                              if kd == 'unpack' and isinstance(pl[0], ast.Call)]
                k = None
                for e in cands:
                    if e is None:
                        continue
                    x, _d, _i = _unwrap_default(e)
                    k_ = None
                    if isinstance(x, ast.Subscript):
                        k_ = astx.const_str(x.slice)
                    elif isinstance(x, ast.Call) and astx.callee_attr(x) == 'get' and x.args:
                        k_ = astx.const_str(x.args[0])
                    if k_ in _DECLARED_KEYS:
                        k = k_
                        break
                    if k_ in _META_KEYS:
                        k = k_
                if k not in _DECLARED_KEYS + _META_KEYS or (id(st), k) in done:
                    continue
                done.add((id(st), k))
                if k in _DECLARED_KEYS:
                    out.bad(f, st, f"meta['{k}'] (the declaration as typed by the user) is used in arithmetic; the "
                            f"map that is applied to values, bounds and derivatives is meta['total_scaler'/'total_adder'] "
                            f"(with ref/ref0 declarations meta['{k}'] is None or a different number)", key=f'applied-{k}')
                else:
                    out.ok(f, st, f"applies meta['{k}']")


@rule('C20.applied-keys', floor=9)
def applied_keys(repo, out):
    """Driver-side arithmetic only ever uses the combined total_scaler/total_adder, never the declared scaler/adder/ref/ref0."""
    _applied_scan(repo, out, [AUTO, BAUTO, OVEC, DRIVER, TOTJAC])


@rule('C20.applied-keys-all', floor=1, tier='thorough')
def applied_keys_all(repo, out):
    """Same over the other modules of openmdao/drivers/."""
    rest = [r for r in repo.shipped() if r.startswith('openmdao/drivers/') and r not in (AUTO, BAUTO)]
    n0 = len(out.items)
    _applied_scan(repo, out, rest)
    if len(out.items) == n0:
        out.ok((DRIVER, 'Driver'), None, f'no arithmetic on scaling metadata in the other {len(rest)} driver modules')


# =========================================================================== values handed out are copies
def _may_view(ctx, e, at, vec_roots, depth=0):
    """True when *e* may be a view of the persistent optimizer vector data."""
    if depth > 8 or e is None:
        return False
    if isinstance(e, ast.Subscript):
        base, bat = ctx.resolve(e.value, at)
        if astx.path(base) in vec_roots or (isinstance(base, ast.Subscript) and astx.path(base.value) in vec_roots):
            return True
        return _may_view(ctx, e.value, at, vec_roots, depth + 1)     # indexing a view may again be a view
    if isinstance(e, ast.Attribute):
        if e.attr in ('T', 'flat', 'real', '_data'):
            return astx.path(e) in ('self._data',) and 'self' in vec_roots or _may_view(ctx, e.value, at, vec_roots, depth + 1)
        return False
    if isinstance(e, ast.Call):
        nm = astx.callee_attr(e)
        if isinstance(e.func, ast.Attribute) and astx.path(e.func.value) in ('np', 'numpy'):
            if nm in _VIEW_FUNCS and e.args:
                return _may_view(ctx, e.args[0], at, vec_roots, depth + 1)
            return False
        if isinstance(e.func, ast.Attribute) and nm in _VIEW_METHODS:
            if nm == 'asarray' and not (e.args or e.keywords):
                b, _ = ctx.resolve(e.func.value, at)
                if astx.path(b) in vec_roots or (isinstance(b, ast.Subscript) and astx.path(b.value) in vec_roots):
                    return True
            return _may_view(ctx, e.func.value, at, vec_roots, depth + 1)
        return False
    if isinstance(e, ast.IfExp):
        return _may_view(ctx, e.body, at, vec_roots, depth + 1) or _may_view(ctx, e.orelse, at, vec_roots, depth + 1)
    if isinstance(e, ast.BoolOp):
        return any(_may_view(ctx, v, at, vec_roots, depth + 1) for v in e.values)
    if isinstance(e, ast.Name):
        for kind, payload, d in ctx.defs(at, e.id):
            if kind == 'expr' and _may_view(ctx, payload, d, vec_roots, depth + 1):
                return True
            if kind == 'loop':
                lp, ix = payload
                it = lp.iter
                if isinstance(it, ast.Call) and astx.callee_attr(it) in ('items', 'values') and \
                        isinstance(it.func, ast.Attribute):
                    b, _ = ctx.resolve(it.func.value, d)
                    if astx.path(b) in vec_roots or (isinstance(b, ast.Subscript) and astx.path(b.value) in vec_roots):
                        if astx.callee_attr(it) == 'values' or ix == (1,):
                            return True
        return False
    return False


@rule('C20.copies-out', floor=2)
def copies_out(repo, out):
    """The dictionaries returned by OptimizerVector._to_dict and Driver.get_constraint_values hold copies, never views of the persistent work vector (which the next update/scaling overwrites in place)."""
    for rel, qn, roots in ((OVEC, 'OptimizerVector._to_dict', ('self',)),
                           (DRIVER, 'Driver.get_constraint_values', ('self._vectors',))):
        fn = repo.func(rel, qn)
        ctx = Ctx(fn)
        rets = {st.value.id for st in astx.walk_stmts(fn.node.body) if isinstance(st, ast.Return)
                and isinstance(st.value, ast.Name)}
        if not rets:
            out.unsure(fn, fn.node, 'the function does not return a named dictionary')
            continue
        stores = [st for st in astx.walk_stmts(fn.node.body) if isinstance(st, ast.Assign) and len(st.targets) == 1
                  and isinstance(st.targets[0], ast.Subscript) and isinstance(st.targets[0].value, ast.Name)
                  and st.targets[0].value.id in rets]
        if not stores:
            out.unsure(fn, fn.node, 'no store into the returned dictionary found')
            continue
        for st in stores:
            ns = ctx.g.nodes_of(st)
            if not ns:
                continue
            if _may_view(ctx, st.value, ns[0], roots):
                out.bad(fn, st, f'`{astx.src(st.value)}` can be a view of the persistent optimizer vector on some path (no '
                        '.copy()): the dictionary handed to the caller changes when the vector is next updated, scaled or '
                        'unscaled in place', key='view-handed-out')
            else:
                out.ok(fn, st, 'value stored in the returned dictionary is a fresh array on every path')


# =========================================================================== self-test
_UNSC = ("            if scaler is not None:\n                vec[name] /= scaler\n"
         "            if adder is not None:\n                vec[name] -= adder\n")
_SC = ("            if adder is not None:\n                vec[name] += adder\n"
       "            if scaler is not None:\n                vec[name] *= scaler\n")
_SB_ADD = ("            if adder is not None:\n"
           "                val_arr[finite] += adder if np.isscalar(adder) else np.asarray(adder)[finite]\n")
_SB_MUL = ("            if scaler is not None:\n"
           "                val_arr[finite] *= scaler if np.isscalar(scaler) else np.asarray(scaler)[finite]\n")
_RESTORE = "        val_arr[inf_mask] = -INF_BOUND if is_lower else INF_BOUND\n"
_SUBTR = ("                # substitution-method coloring: recover the remaining entries before any scaling,\n"
          "                # since the subtractions combine entries from different rows/columns.\n"
          "                if self.simul_coloring is not None and self.simul_coloring._subtractions:\n"
          "                    self.simul_coloring._apply_subtractions(self.J)\n\n")
_FIN = "        finally:\n            self.model._recording_iter.pop()\n\n        return self.J_final"
_SETDV = ("        if driver_scaling:\n            self._autoscaler.apply_design_var_unscaling(desvar_vec)\n\n"
          "        desvar_names = desvar_names if desvar_names is not None else meta.keys()\n\n"
          "        for name in desvar_names:\n            value = desvar_vec[name]\n"
          "            units = meta[name].get('units')\n"
          "            self._set_design_var(name, value, set_remote=True, units=units)\n")
_FLAT_OUT = ("            elif out_name in self._var_meta['constraint']:\n"
             "                out_scaler = self._var_meta['constraint'][out_name]['total_scaler']\n"
             "            else:\n                # Unknown output, skip scaling this entry\n                continue\n")
_DE = 'openmdao/drivers/differential_evolution_driver.py'
_H_DEF = ("    def _get_total_scaler_adder(self, voi_type, name):\n"
          "        total_scaler = self._var_meta[voi_type][name]['total_scaler']\n"
          "        total_adder = self._var_meta[voi_type][name]['total_adder']\n"
          "        return total_scaler, total_adder\n\n")
_H_ANCHOR = "    def _apply_vec_unscaling(self, vec: 'OptimizerVector'):\n"
_H_OLD = ("            scaler = self._var_meta[vec.voi_type][name]['total_scaler']\n"
          "            adder = self._var_meta[vec.voi_type][name]['total_adder']\n")
_H_NEW = "            scaler, adder = self._get_total_scaler_adder(vec.voi_type, name)\n"
# the helper-extracted shape: both loops read the pair through one helper method
_H_SHAPE = [(AUTO, _H_OLD, _H_NEW), (AUTO, _H_OLD, _H_NEW)]
_UNIT_NESTED = ("                out_scaler = self._resp_unit_scalers.get(out_name)\n\n"
                "                for in_name, block in in_dict.items():\n"
                "                    if out_scaler:\n                        block *= out_scaler\n")
_VIOLSC = ("            if viol and driver_scaling and meta['total_scaler'] is not None:\n"
           "                con_dict[name] *= meta['total_scaler']\n")
_FJ_BLOCK = (_SUBTR + "                self._apply_unit_scaling(self.J_dict)\n\n                # Driver scaling.\n"
             "                if self.has_scaling:\n                    self._driver._autoscaler.apply_jac_scaling(self.J_dict)\n")
_FJ_ANCHOR = "    def compute_totals(self, progress_out_stream=None):\n"
_FJ_DEF = ("    def _finish_jac(self):\n        coloring = self.simul_coloring\n        if coloring is not None:\n"
           "            if coloring._subtractions:\n                coloring._apply_subtractions(self.J)\n\n"
           "        jac_dict = self.J_dict\n        self._apply_unit_scaling(jac_dict)\n\n"
           "        if self.has_scaling:\n            self._driver._autoscaler.apply_jac_scaling(jac_dict)\n\n")
_FJ_DEF_BAD = ("    def _finish_jac(self):\n        jac_dict = self.J_dict\n        self._apply_unit_scaling(jac_dict)\n\n"
               "        coloring = self.simul_coloring\n        if coloring is not None:\n"
               "            if coloring._subtractions:\n                coloring._apply_subtractions(self.J)\n\n"
               "        if self.has_scaling:\n            self._driver._autoscaler.apply_jac_scaling(jac_dict)\n\n")
_FJ_DEF_NOUNIT = ("    def _finish_jac(self):\n        coloring = self.simul_coloring\n        if coloring is not None:\n"
                  "            if coloring._subtractions:\n                coloring._apply_subtractions(self.J)\n\n"
                  "        if self.has_scaling:\n            self._driver._autoscaler.apply_jac_scaling(self.J_dict)\n\n")
_ND_OLD = ("        if isinstance(scaler, np.ndarray):\n            if np.all(scaler == 1.0):\n                scaler = None\n"
           "        elif scaler == 1.0:\n            scaler = None\n\n        if isinstance(adder, np.ndarray):\n"
           "            if not np.any(adder):\n                adder = None\n        elif adder == 0.0:\n            adder = None\n\n"
           "        # determine adder")
_ND_NEW = ("        unit_scaler = np.all(scaler == 1.0) if isinstance(scaler, np.ndarray) else scaler == 1.0\n"
           "        if unit_scaler:\n            scaler = None\n\n"
           "        zero_adder = not np.any(adder) if isinstance(adder, np.ndarray) else adder == 0.0\n"
           "        if zero_adder:\n            adder = None\n\n        # determine adder")
_NR_OLD = ("        if isinstance(scaler, np.ndarray):\n            if np.all(scaler == 1.0):\n                scaler = None\n"
           "        elif scaler == 1.0:\n            scaler = None\n        resp['scaler'] = scaler\n")
_NR_NEW = ("        scaler_is_array = isinstance(scaler, np.ndarray)\n        if scaler_is_array and np.all(scaler == 1.0):\n"
           "            scaler = None\n        elif not scaler_is_array and scaler == 1.0:\n            scaler = None\n"
           "        resp['scaler'] = scaler\n")
_UA_OLD1 = "        if not self._resp_unit_scalers and not self._desvar_unit_scalers:\n            return\n"
_UA_NEW1 = ("        resp_scalers = self._resp_unit_scalers\n        desvar_scalers = self._desvar_unit_scalers\n\n"
            "        if not (resp_scalers or desvar_scalers):\n            return\n")
_UA_EDITS = [(TOTJAC, "                out_scaler = self._resp_unit_scalers.get(out_name)\n                if out_scaler:",
              "                out_scaler = resp_scalers.get(out_name)\n                if out_scaler:"),
             (TOTJAC, "                in_scaler = self._desvar_unit_scalers.get(in_name)\n                if in_scaler:\n                    block *= (1.0 / in_scaler)\n        else:",
              "                in_scaler = desvar_scalers.get(in_name)\n                if in_scaler:\n                    block *= (1.0 / in_scaler)\n        else:")]
_MDV = ("                scaler = self._var_meta['design_var'][name]['total_scaler']\n"
        "                if scaler is None:\n                    scaler = 1.0\n")
_MCON = _MDV.replace("'design_var'", "'constraint'")

_ML_OLD = ("        if desvar_multipliers:\n            for name, mult in desvar_multipliers.items():\n"
           "                # Get the design variable scaler from cached combined scalers\n" + _MDV +
           "                mult *= scaler / obj_scaler\n\n"
           "        if con_multipliers:\n            for name, mult in con_multipliers.items():\n"
           "                # Get the constraint scaler from cached combined scalers\n" + _MCON +
           "                mult *= scaler / obj_scaler\n")
_ML_NEW = ("        for voi_type, multipliers in (('design_var', desvar_multipliers),\n"
           "                                      ('constraint', con_multipliers)):\n"
           "            if not multipliers:\n                continue\n"
           "            voi_meta = self._var_meta[voi_type]\n"
           "            for name, mult in multipliers.items():\n"
           "                total_scaler = voi_meta[name]['total_scaler']\n"
           "                factor = total_scaler if total_scaler is not None else 1.0\n"
           "                mult *= factor / obj_scaler\n")
selftest(
    'C20',
    # ---- mirror
    Mutant('unscale-order', AUTO, _UNSC, "            if adder is not None:\n                vec[name] -= adder\n"
           "            if scaler is not None:\n                vec[name] /= scaler\n", 'C20.mirror'),
    Mutant('unscale-mul', AUTO, 'vec[name] /= scaler', 'vec[name] *= scaler', 'C20.mirror'),
    Mutant('unscale-plus', AUTO, 'vec[name] -= adder', 'vec[name] += adder', 'C20.mirror'),
    Mutant('scale-order', AUTO, _SC, "            if scaler is not None:\n                vec[name] *= scaler\n"
           "            if adder is not None:\n                vec[name] += adder\n", 'C20.mirror'),
    Mutant('unscale-user-scaler', AUTO, "scaler = self._var_meta[vec.voi_type][name]['total_scaler']",
           "scaler = self._var_meta[vec.voi_type][name]['scaler']", 'C20.mirror'),
    Mutant('scale-guard-swapped', AUTO, "            if adder is not None:\n                vec[name] += adder",
           "            if scaler is not None:\n                vec[name] += adder", 'C20.mirror'),
    Mutant('scale-fixed-table', AUTO, "adder = self._var_meta[vec.voi_type][name]['total_adder']",
           "adder = self._var_meta['design_var'][name]['total_adder']", 'C20.mirror', nth=1),
    Mutant('unscale-drop-adder', AUTO, "            if adder is not None:\n                vec[name] -= adder\n", '',
           'C20.mirror'),
    Mutant('scale-swapped-keys', AUTO,
           "            scaler = self._var_meta[vec.voi_type][name]['total_scaler']\n"
           "            adder = self._var_meta[vec.voi_type][name]['total_adder']\n\n            # Scale",
           "            scaler = self._var_meta[vec.voi_type][name]['total_adder']\n"
           "            adder = self._var_meta[vec.voi_type][name]['total_scaler']\n\n            # Scale", 'C20.mirror'),
    # ---- affine
    Mutant('adder-sign', GUTILS, '        adder = -ref0\n', '        adder = ref0\n', 'C20.affine'),
    Mutant('scaler-no-reciprocal', GUTILS, 'scaler = 1.0 / (ref + adder)', 'scaler = ref + adder', 'C20.affine'),
    Mutant('scaler-wrong-span', GUTILS, 'scaler = 1.0 / (ref + adder)', 'scaler = 1.0 / (ref - adder)', 'C20.affine'),
    Mutant('scaler-ignores-ref0', GUTILS, 'scaler = 1.0 / (ref + adder)', 'scaler = 1.0 / ref', 'C20.affine'),
    Mutant('return-swapped', GUTILS, '    return adder, scaler\n', '    return scaler, adder\n', 'C20.affine'),
    Mutant('default-scaler-zero', GUTILS, '        if scaler is None:\n            scaler = 1.0\n',
           '        if scaler is None:\n            scaler = 0.0\n', 'C20.affine'),
    Mutant('affine-vs-scale-order', AUTO, _SC, "            if scaler is not None:\n                vec[name] *= scaler\n"
           "            if adder is not None:\n                vec[name] += adder\n", ['C20.affine', 'C20.mirror']),
    # ---- flag
    Mutant('scale-no-early-return', AUTO, "        if vec.driver_scaling:\n            return vec\n", '', 'C20.flag'),
    Mutant('unscale-early-return-inverted', AUTO, "        if not vec.driver_scaling:\n            return vec\n",
           "        if vec.driver_scaling:\n            return vec\n", 'C20.flag'),
    Mutant('scale-flag-not-set', AUTO, "        vec._driver_scaling = True\n", '', 'C20.flag'),
    Mutant('unscale-flag-wrong', AUTO, "        vec._driver_scaling = False\n", "        vec._driver_scaling = True\n",
           'C20.flag'),
    Mutant('update-no-reset', OVEC, "        # Mark as unscaled since we're about to populate with new unscaled data\n"
           "        self._driver_scaling = False\n", '', 'C20.flag'),
    Mutant('set-data-no-flag', OVEC, "            self._data[:] = np.asarray(val).ravel()\n"
           "        self._driver_scaling = driver_scaling\n", "            self._data[:] = np.asarray(val).ravel()\n", 'C20.flag'),
    Mutant('set-data-flag-in-branch', OVEC, "            self._data[:] = np.asarray(val).ravel()\n"
           "        self._driver_scaling = driver_scaling\n",
           "            self._data[:] = np.asarray(val).ravel()\n            self._driver_scaling = driver_scaling\n", 'C20.flag'),
    Mutant('setter-constant', OVEC, "        self._driver_scaling = b\n", "        self._driver_scaling = True\n", 'C20.flag'),
    Mutant('flag-set-inside-loop-guard', AUTO, "                vec[name] *= scaler\n        vec._driver_scaling = True\n",
           "                vec[name] *= scaler\n                vec._driver_scaling = True\n", 'C20.flag'),
    # ---- bounds
    Mutant('bound-order', AUTO, _SB_ADD + _SB_MUL, _SB_MUL + _SB_ADD, 'C20.bounds'),
    Mutant('bound-adder-mask', AUTO, 'np.asarray(adder)[finite]', 'np.asarray(adder)[inf_mask]', 'C20.bounds'),
    Mutant('bound-finite-not-inverted', AUTO, 'finite = ~inf_mask', 'finite = inf_mask', 'C20.bounds'),
    Mutant('bound-sentinel-flipped', AUTO, _RESTORE,
           "        val_arr[inf_mask] = INF_BOUND if is_lower else -INF_BOUND\n", 'C20.bounds'),
    Mutant('bound-whole-array-no-restore', AUTO, _SB_ADD + _SB_MUL,
           "            if adder is not None:\n                val_arr += adder\n"
           "            if scaler is not None:\n                val_arr *= scaler\n", 'C20.bounds',
           also=[(AUTO, _RESTORE, '')]),
    Mutant('bound-mask-side-swapped', AUTO, '(val_arr <= -INF_BOUND) if is_lower else (val_arr >= INF_BOUND)',
           '(val_arr >= INF_BOUND) if is_lower else (val_arr <= -INF_BOUND)', 'C20.bounds'),
    Mutant('bound-none-default-swapped', AUTO,
           "                if is_lower:\n                    val = -INF_BOUND\n                else:\n                    val = INF_BOUND\n",
           "                if is_lower:\n                    val = INF_BOUND\n                else:\n                    val = -INF_BOUND\n",
           'C20.bounds'),
    Mutant('bound-scaler-array-is-adder', AUTO, 'np.asarray(scaler)[finite]', 'np.asarray(adder)[finite]', 'C20.bounds'),
    Mutant('bound-sub-instead-of-add', AUTO, 'val_arr[finite] += adder if', 'val_arr[finite] -= adder if', 'C20.bounds'),
    # ---- bound slots
    Mutant('slots-adder-scaler-swapped', AUTO, "meta.get('lower', -INF_BOUND), adder, scaler, size, is_lower=True",
           "meta.get('lower', -INF_BOUND), scaler, adder, size, is_lower=True", ['C20.bound-slots']),
    Mutant('slots-upper-as-lower', AUTO, "meta.get('upper', INF_BOUND), adder, scaler, size, is_lower=False",
           "meta.get('upper', INF_BOUND), adder, scaler, size, is_lower=True", 'C20.bound-slots'),
    Mutant('slots-return-order', AUTO, 'return lower_vec, upper_vec, equals_vec', 'return upper_vec, lower_vec, equals_vec',
           'C20.bound-slots'),
    Mutant('slots-cache-order', AUTO, "            self._scaled_lower[voi_type], \\\n                self._scaled_upper[voi_type], \\\n",
           "            self._scaled_upper[voi_type], \\\n                self._scaled_lower[voi_type], \\\n", 'C20.bound-slots'),
    Mutant('slots-getter-order', AUTO, "        return (self._scaled_lower[voi_type],\n                self._scaled_upper[voi_type],\n",
           "        return (self._scaled_upper[voi_type],\n                self._scaled_lower[voi_type],\n", 'C20.bound-slots'),
    Mutant('slots-user-adder', AUTO, "            adder = meta['total_adder']\n", "            adder = meta['adder']\n",
           'C20.bound-slots'),
    Mutant('slots-lower-into-upper', AUTO, "            lower_data[s] = self._scale_bound(\n", "            upper_data[s] = self._scale_bound(\n",
           'C20.bound-slots'),
    Mutant('slots-bounds-autoscaler-order', BAUTO, "        self._scaled_lower['design_var'], \\\n            self._scaled_upper['design_var'], \\\n",
           "        self._scaled_upper['design_var'], \\\n            self._scaled_lower['design_var'], \\\n", 'C20.bound-slots'),
    Mutant('slots-default-lower-plus-inf', AUTO, "meta.get('lower', -INF_BOUND)", "meta.get('lower', INF_BOUND)", 'C20.bound-slots'),
    # ---- jac
    Mutant('jac-drop-transpose', AUTO, 'jac_block[...] = (out_scaler * jac_block.T).T', 'jac_block[...] = out_scaler * jac_block',
           'C20.jac'),
    Mutant('jac-in-multiplied', AUTO, 'jac_block *= 1.0 / in_scaler', 'jac_block *= in_scaler', 'C20.jac'),
    Mutant('jac-rebind', AUTO, 'jac_block *= 1.0 / in_scaler', 'jac_block = jac_block * (1.0 / in_scaler)', 'C20.jac'),
    Mutant('jac-nested-in-on-rows', AUTO, '                        block *= 1.0 / in_scaler',
           '                        block[...] = (block.T * (1.0 / in_scaler)).T', 'C20.jac'),
    Mutant('jac-key-swapped', AUTO, 'out_name, in_name = key', 'in_name, out_name = key', 'C20.jac'),
    Mutant('jac-guard-swapped', AUTO, "            if in_scaler is not None:\n                jac_block *= 1.0 / in_scaler",
           "            if out_scaler is not None:\n                jac_block *= 1.0 / in_scaler", 'C20.jac'),
    Mutant('jac-in-from-constraints', AUTO, "                in_scaler = self._var_meta['design_var'][in_name]['total_scaler']\n            else:",
           "                in_scaler = self._var_meta['constraint'][in_name]['total_scaler']\n            else:", 'C20.jac'),
    Mutant('jac-flat-only-objective', AUTO, _FLAT_OUT,
           "            else:\n                # Unknown output, skip scaling this entry\n                continue\n", 'C20.jac'),
    Mutant('jac-user-scaler', AUTO, "                out_scaler = self._var_meta['objective'][out_name]['total_scaler']\n            elif",
           "                out_scaler = self._var_meta['objective'][out_name]['scaler']\n            elif", 'C20.jac'),
    Mutant('jac-nested-not-scaled', AUTO, "                    if out_scaler is not None:\n                        block[...] = (out_scaler * block.T).T\n"
           "                    if in_scaler is not None:\n                        block *= 1.0 / in_scaler\n", "                    pass\n", 'C20.jac'),
    Mutant('unit-nested-out-reciprocal', TOTJAC, "                    if out_scaler:\n                        block *= out_scaler",
           "                    if out_scaler:\n                        block *= (1.0 / out_scaler)", 'C20.jac'),
    Mutant('unit-flat-in-multiplied', TOTJAC, "                if in_scaler:\n                    block *= (1.0 / in_scaler)",
           "                if in_scaler:\n                    block *= in_scaler", 'C20.jac'),
    Mutant('unit-table-swapped', TOTJAC, "                self._desvar_unit_scalers[name] = scaler\n\n    def _apply_unit_scaling",
           "                self._resp_unit_scalers[name] = scaler\n\n    def _apply_unit_scaling", 'C20.jac'),
    Mutant('unit-objs-forgotten', TOTJAC, "        for name, meta in self._driver._objs.items():\n            scaler = meta.get('unit_scaler', 1.0)\n"
           "            if scaler != 1.0 and scaler is not None:\n                self._resp_unit_scalers[name] = scaler\n", '', 'C20.jac'),
    Mutant('dictJ-key-swapped', TOTJAC, "J_dict[out, inp] = J[out_slice, wrtmeta['jac_slice']]",
           "J_dict[inp, out] = J[out_slice, wrtmeta['jac_slice']]", 'C20.jac'),
    # ---- multipliers
    Mutant('mult-inverted', AUTO, 'mult *= scaler / obj_scaler', 'mult *= obj_scaler / scaler', 'C20.mult'),
    Mutant('mult-rebind', AUTO, 'mult *= scaler / obj_scaler', 'mult = mult * scaler / obj_scaler', 'C20.mult', nth=1),
    Mutant('mult-no-objective', AUTO, 'mult *= scaler / obj_scaler', 'mult *= scaler', 'C20.mult'),
    Mutant('mult-product', AUTO, 'mult *= scaler / obj_scaler', 'mult *= scaler * obj_scaler', 'C20.mult', nth=1),
    Mutant('mult-wrong-table', AUTO, _MDV, _MDV.replace("'design_var'", "'constraint'"), 'C20.mult'),
    Mutant('mult-return-swapped', AUTO, "        return desvar_multipliers, con_multipliers\n",
           "        return con_multipliers, desvar_multipliers\n", 'C20.mult', nth=1),
    Mutant('mult-default-zero', AUTO, _MCON, _MCON.replace('scaler = 1.0', 'scaler = 0.0'), 'C20.mult'),
    Mutant('mult-user-scaler', AUTO, "obj_scaler = obj_meta[obj_name]['total_scaler'] or 1.0",
           "obj_scaler = obj_meta[obj_name]['scaler'] or 1.0", 'C20.mult'),
    Mutant('mult-con-loop-dropped', AUTO, _MCON + "                mult *= scaler / obj_scaler\n", "                pass\n", 'C20.mult'),
    Mutant('mult-array-or-truth-prefix', AUTO, _MDV,
           "                scaler = self._var_meta['design_var'][name]['total_scaler'] or 1.0\n", 'C20.mult-array'),
    Mutant('mult-array-ifexp-truth', AUTO, _MCON,
           "                scaler = self._var_meta['constraint'][name]['total_scaler'] if "
           "self._var_meta['constraint'][name]['total_scaler'] else 1.0\n", 'C20.mult-array'),
    Mutant('mult-array-if-truth', AUTO, _MCON, _MCON.replace('if scaler is None:', 'if not scaler:'), 'C20.mult-array'),
    # ---- metadata is read-only
    Mutant('seed3-scaler-divided-in-place', AUTO, "                mult *= scaler / obj_scaler\n",
           "                scaler /= obj_scaler\n                mult *= scaler\n", 'C20.meta-readonly'),
    Mutant('seed3-both-loops', AUTO, "                mult *= scaler / obj_scaler\n",
           "                scaler /= obj_scaler\n                mult *= scaler\n", 'C20.meta-readonly', nth=1,
           also=[(AUTO, "                mult *= scaler / obj_scaler\n", "                scaler /= obj_scaler\n                mult *= scaler\n")]),
    Mutant('meta-slice-store', AUTO, "                mult *= scaler / obj_scaler\n",
           "                scaler = np.asarray(scaler)\n                scaler[...] = scaler / obj_scaler\n                mult *= scaler\n",
           'C20.meta-readonly'),
    Mutant('meta-out-argument', AUTO, "                jac_block *= 1.0 / in_scaler\n",
           "                np.reciprocal(in_scaler, out=in_scaler)\n                jac_block *= in_scaler\n", 'C20.meta-readonly'),
    Mutant('meta-augassign-key', AUTO, "            scaler = self._var_meta[vec.voi_type][name]['total_scaler']\n",
           "            self._var_meta[vec.voi_type][name]['total_scaler'] *= 1.0\n"
           "            scaler = self._var_meta[vec.voi_type][name]['total_scaler']\n", 'C20.meta-readonly'),
    Mutant('meta-unscale-negates-adder', AUTO, "            if adder is not None:\n                vec[name] -= adder\n",
           "            if adder is not None:\n                adder *= -1\n                vec[name] += adder\n", 'C20.meta-readonly'),
    Mutant('cached-bound-relaxed-in-place', DRIVER, "                constraint_upper = upper_con[constraint]\n",
           "                constraint_upper = upper_con[constraint]\n                constraint_upper += feas_atol\n",
           'C20.meta-readonly'),
    Mutant('cached-bound-store', DRIVER, "            des_var_upper = upper_dv[des_var]\n",
           "            des_var_upper = upper_dv[des_var]\n            upper_dv[des_var] = des_var_upper + feas_atol\n",
           'C20.meta-readonly'),
    Mutant('cached-bound-asarray-fill', AUTO, "        return (self._scaled_lower[voi_type],\n",
           "        self._scaled_lower[voi_type].asarray().fill(0.0)\n        return (self._scaled_lower[voi_type],\n",
           'C20.meta-readonly'),
    # ---- seed 2: guard of the bound update
    Mutant('seed2-guard-any', AUTO, "        if not inf_mask.all():\n", "        if not inf_mask.any():\n", 'C20.bounds'),
    Mutant('bound-guard-all-finite-only', AUTO, "        if not inf_mask.all():\n            finite = ~inf_mask\n",
           "        finite = ~inf_mask\n        if finite.all():\n", 'C20.bounds'),
    Mutant('bound-guard-inverted', AUTO, "        if not inf_mask.all():\n", "        if inf_mask.all():\n", 'C20.bounds'),
    # ---- proto
    Mutant('das-unpack-swapped', SYSTEM, "resp['total_adder'], resp['total_scaler'] = determine_adder_scaler(",
           "resp['total_scaler'], resp['total_adder'] = determine_adder_scaler(", 'C20.proto'),
    Mutant('das-local-swapped', SYSTEM, "        total_adder, total_scaler = determine_adder_scaler(ref0, ref, adder, scaler)\n\n        if indices is not None:",
           "        total_scaler, total_adder = determine_adder_scaler(ref0, ref, adder, scaler)\n\n        if indices is not None:", 'C20.proto'),
    Mutant('das-args-swapped', SYSTEM, "        total_adder, total_scaler = determine_adder_scaler(ref0, ref, adder, scaler)\n\n        if indices is not None:",
           "        total_adder, total_scaler = determine_adder_scaler(ref, ref0, adder, scaler)\n\n        if indices is not None:", 'C20.proto'),
    Mutant('das-adder-scaler-args-swapped', SYSTEM, "determine_adder_scaler(None, None, meta['adder'], meta['scaler'])",
           "determine_adder_scaler(None, None, meta['scaler'], meta['adder'])", 'C20.proto'),
    Mutant('unitconv-unpack-swapped', SYSTEM, "meta['unit_scaler'], meta['unit_adder'] = unit_conversion(var_units, units)",
           "meta['unit_adder'], meta['unit_scaler'] = unit_conversion(var_units, units)", 'C20.proto'),
    Mutant('unitconv-args-swapped', SYSTEM, "unit_conversion(src_units, units)", "unit_conversion(units, src_units)", 'C20.proto'),
    Mutant('unitconv-functional-args-swapped', TOTJAC, "scaler, _ = unit_conversion(native_units, requested_units)",
           "scaler, _ = unit_conversion(requested_units, native_units)", 'C20.proto', nth=1),
    Mutant('convert-units-formula', UNITS, "    return (val + offset) * factor\n", "    return val * factor + offset\n", 'C20.proto'),
    Mutant('convert-units-unpack', UNITS, "    (factor, offset) = old_unit.conversion_tuple_to(new_unit)\n",
           "    (offset, factor) = old_unit.conversion_tuple_to(new_unit)\n", 'C20.proto'),
    # ---- units mirror
    Mutant('get-units-swapped', DRIVER, "val = convert_units(val, src_units, meta['units'])",
           "val = convert_units(val, meta['units'], src_units)", 'C20.units-mirror'),
    Mutant('set-units-swapped', DRIVER, "convert_units(desvar[loc_idxs], meta['units'], src_units)",
           "convert_units(desvar[loc_idxs], src_units, meta['units'])", 'C20.units-mirror'),
    Mutant('set-units-arg-swapped', DRIVER, "convert_units(desvar[loc_idxs], units, src_units)",
           "convert_units(desvar[loc_idxs], src_units, units)", 'C20.units-mirror'),
    Mutant('get-units-dropped', DRIVER, "            val = convert_units(val, src_units, meta['units'])\n", "            pass\n",
           'C20.units-mirror'),
    # ---- dispatch
    Mutant('dispatch-constraint-as-objective', OVEC, "            elif voi_type == 'constraint':\n                driver._autoscaler.apply_constraint_scaling(self)",
           "            elif voi_type == 'constraint':\n                driver._autoscaler.apply_objective_scaling(self)", 'C20.dispatch'),
    Mutant('dispatch-remote-swapped', OVEC, "        if voi_type == 'design_var':\n            remote_vois = driver._remote_dvs",
           "        if voi_type == 'design_var':\n            remote_vois = driver._remote_cons", 'C20.dispatch', nth=1),
    Mutant('varmeta-constraint-objs', OVEC, "                       'constraint': driver._cons,\n", "                       'constraint': driver._objs,\n",
           'C20.dispatch', nth=1),
    Mutant('autoscaler-map-swapped', AUTO, "            'constraint': driver._cons,\n            'objective': driver._objs\n",
           "            'constraint': driver._objs,\n            'objective': driver._cons\n", 'C20.dispatch'),
    Mutant('wrapper-unscaling-scales', AUTO, "            An OptimizerVector with voi_type='design_var'.\n        \"\"\"\n        self._apply_vec_unscaling(vec)",
           "            An OptimizerVector with voi_type='design_var'.\n        \"\"\"\n        self._apply_vec_scaling(vec)", 'C20.dispatch'),
    Mutant('update-without-driver-units', OVEC, "                                                                 get_remote=True,\n"
           "                                                                 driver_units=True)",
           "                                                                 get_remote=True,\n"
           "                                                                 driver_units=False)", 'C20.dispatch'),
    Mutant('setdv-read-before-unscale', DRIVER, _SETDV,
           "        desvar_names = desvar_names if desvar_names is not None else meta.keys()\n\n"
           "        for name in desvar_names:\n            value = desvar_vec[name].copy()\n"
           "            units = meta[name].get('units')\n"
           "            self._set_design_var(name, value, set_remote=True, units=units)\n\n"
           "        if driver_scaling:\n            self._autoscaler.apply_design_var_unscaling(desvar_vec)\n", 'C20.dispatch'),
    Mutant('setdv-scales', DRIVER, "self._autoscaler.apply_design_var_unscaling(desvar_vec)",
           "self._autoscaler.apply_design_var_scaling(desvar_vec)", 'C20.dispatch'),
    Mutant('setdv-never-unscales', DRIVER, "        if driver_scaling:\n            self._autoscaler.apply_design_var_unscaling(desvar_vec)\n\n        desvar_names",
           "        desvar_names", 'C20.dispatch'),
    # ---- order
    Mutant('F1-subtract-after-scaling', TOTJAC, _SUBTR, '', 'C20.order',
           also=[(TOTJAC, _FIN, "        finally:\n            self.model._recording_iter.pop()\n\n"
                  "        if self.simul_coloring is not None and self.simul_coloring._subtractions:\n"
                  "            self.simul_coloring._apply_subtractions(self.J)\n\n        return self.J_final")]),
    Mutant('subtract-between-scalings', TOTJAC, _SUBTR + "                self._apply_unit_scaling(self.J_dict)\n",
           "                self._apply_unit_scaling(self.J_dict)\n\n" + _SUBTR, 'C20.order'),
    Mutant('approx-no-driver-scaling', TOTJAC, "            if self.has_scaling:\n                self._driver._autoscaler.apply_jac_scaling(totals)\n",
           '', 'C20.order'),
    Mutant('approx-no-unit-scaling', TOTJAC, "            self._apply_unit_scaling(totals)\n", '', 'C20.order'),
    Mutant('driver-scaling-ungated', TOTJAC, "                if self.has_scaling:\n                    self._driver._autoscaler.apply_jac_scaling(self.J_dict)",
           "                if True:\n                    self._driver._autoscaler.apply_jac_scaling(self.J_dict)", 'C20.order'),
    Mutant('has-scaling-ignores-request', TOTJAC, "self.has_scaling = driver and driver._has_scaling and driver_scaling",
           "self.has_scaling = driver and driver._has_scaling", 'C20.order'),
    Mutant('unit-scaling-inside-mode-loop', TOTJAC, "                            self.model._problem_meta['seed_vars'] = None\n                \n",
           "                            self.model._problem_meta['seed_vars'] = None\n                    self._apply_unit_scaling(self.J_dict)\n                \n",
           'C20.order'),
    # ---- space
    Mutant('active-set-model-bound', DRIVER, "constraint_upper = upper_con[constraint]", "constraint_upper = con_options['upper']",
           'C20.space'),
    Mutant('active-set-unscaled-values', DRIVER, "        con_vals = self.get_constraint_values(driver_scaling=True)\n\n        lower_dv",
           "        con_vals = self.get_constraint_values(driver_scaling=False)\n\n        lower_dv", 'C20.space'),
    Mutant('active-set-dv-model-bound', DRIVER, "des_var_lower = lower_dv[des_var]", "des_var_lower = des_var_options['lower']",
           'C20.space'),
    # ---- gates
    Mutant('has-scaling-only-desvars', AUTO, "        for voi_type in ['design_var', 'constraint', 'objective']:\n            for meta in",
           "        for voi_type in ['design_var']:\n            for meta in", 'C20.gates'),
    Mutant('has-scaling-and', AUTO, "                    or (scaler is not None) \\\n", "                    and (scaler is not None) \\\n", 'C20.gates'),
    Mutant('has-scaling-overwritten', AUTO, "self._has_scaling = self._has_scaling \\\n                    or (scaler is not None) \\\n",
           "self._has_scaling = (scaler is not None) \\\n", 'C20.gates'),
    Mutant('has-scaling-is-none', AUTO, "                    or (scaler is not None) \\\n", "                    or (scaler is None) \\\n", 'C20.gates'),
    Mutant('jac-early-return-inverted', AUTO, "        if not self._has_scaling:\n            return\n", "        if self._has_scaling:\n            return\n",
           'C20.gates'),
    Mutant('mult-early-return-inverted', AUTO, "        if not self._has_scaling:\n            return desvar_multipliers, con_multipliers",
           "        if self._has_scaling:\n            return desvar_multipliers, con_multipliers", 'C20.gates'),
    Mutant('unit-early-return-or', TOTJAC, "if not self._resp_unit_scalers and not self._desvar_unit_scalers:",
           "if not self._resp_unit_scalers or not self._desvar_unit_scalers:", 'C20.gates'),
    Mutant('getter-forces-scaling', DRIVER, "dv_vec.update_from_model(driver=self, driver_scaling=driver_scaling)",
           "dv_vec.update_from_model(driver=self, driver_scaling=True)", 'C20.gates'),
    Mutant('getter-drops-request', DRIVER, "obj_vec.update_from_model(driver=self, driver_scaling=driver_scaling)",
           "obj_vec.update_from_model(driver=self)", 'C20.gates'),
    Mutant('update-scaling-inverted', OVEC, "        # Apply autoscaler to the vector\n        if driver_scaling:\n            if voi_type == 'design_var':\n"
           "                driver._autoscaler.apply_design_var_scaling(self)",
           "        # Apply autoscaler to the vector\n        if not driver_scaling:\n            if voi_type == 'design_var':\n"
           "                driver._autoscaler.apply_design_var_scaling(self)", 'C20.gates'),
    Mutant('create-always-scaled', OVEC, "        # Apply autoscaler to the vector\n        if driver_scaling:\n            if voi_type == 'design_var':\n"
           "                driver._autoscaler.apply_design_var_scaling(out)",
           "        # Apply autoscaler to the vector\n        if True:\n            if voi_type == 'design_var':\n"
           "                driver._autoscaler.apply_design_var_scaling(out)", 'C20.gates'),
    Mutant('jac-gate-mismatch', AUTO, "            if in_name in self._var_meta['design_var']:\n                in_scaler = self._var_meta['design_var'][in_name]['total_scaler']\n            else:",
           "            if in_name in self._var_meta['constraint']:\n                in_scaler = self._var_meta['design_var'][in_name]['total_scaler']\n            else:", 'C20.jac'),
    # ---- bounds autoscaler
    Mutant('ba-scaler-not-reciprocal', BAUTO, "new_scaler = 1.0 / dv_range", "new_scaler = dv_range", 'C20.bounds-autoscaler'),
    Mutant('ba-adder-upper', BAUTO, "new_adder = -lower_arr", "new_adder = -upper_arr", 'C20.bounds-autoscaler'),
    Mutant('ba-adder-sign', BAUTO, "new_adder = -lower_arr", "new_adder = lower_arr", 'C20.bounds-autoscaler'),
    Mutant('ba-range-reversed', BAUTO, "dv_range = upper_arr - lower_arr", "dv_range = lower_arr - upper_arr", 'C20.bounds-autoscaler'),
    Mutant('ba-no-refresh', BAUTO, "        self._scaled_lower['design_var'], \\\n            self._scaled_upper['design_var'], \\\n"
           "            self._scaled_equals['design_var'] = self._compute_scaled_bounds('design_var')\n", "", 'C20.bounds-autoscaler'),
    Mutant('ba-size1-scaler-from-adder', BAUTO, "new_scaler = float(new_scaler.item())", "new_scaler = float(new_adder.item())",
           'C20.bounds-autoscaler'),
    Mutant('bound-array-branch-unmasked', AUTO, 'np.asarray(scaler)[finite]', 'np.asarray(scaler)', 'C20.bounds'),
    Mutant('scale-flag-set-before-early-exit', AUTO, "                vec[name] *= scaler\n        vec._driver_scaling = True\n",
           "                vec[name] *= scaler\n        if not self._has_scaling:\n            return vec\n        vec._driver_scaling = True\n", 'C20.flag'),
    # ---- round 2
    Mutant('seed2-1-total-overwritten-in-units-setup', SYSTEM, "                meta['adder'], meta['scaler'] = \\\n                    determine_adder_scaler(None, None,",
           "                meta['total_adder'], meta['total_scaler'] = meta['adder'], meta['scaler'] = \\\n                    determine_adder_scaler(None, None,",
           'C20.total-writers'),
    Mutant('total-computed-without-ref', SYSTEM, "resp['total_adder'], resp['total_scaler'] = determine_adder_scaler(ref0, ref, adder, scaler)",
           "resp['total_adder'], resp['total_scaler'] = determine_adder_scaler(None, None, adder, scaler)", 'C20.total-writers'),
    Mutant('total-scaler-is-user-scaler', SYSTEM, "            'total_scaler': total_scaler,\n        }", "            'total_scaler': scaler,\n        }",
           'C20.total-writers'),
    Mutant('total-written-by-autoscaler', AUTO, "                scaler, adder = meta['total_scaler'], meta['total_adder']\n",
           "                scaler, adder = meta['total_scaler'], meta['total_adder']\n                meta['total_adder'] = adder or 0.0\n",
           'C20.total-writers'),
    Mutant('seed2-2-adder-nested-under-scaler', AUTO, "            if adder is not None:\n                vec[name] -= adder\n",
           "                if adder is not None:\n                    vec[name] -= adder\n", 'C20.mirror'),
    Mutant('seed2-3-convert-through-temporary', DRIVER, "                desvar[loc_idxs] = convert_units(desvar[loc_idxs], units, src_units)\n",
           "                dv_vals = desvar[loc_idxs]\n                dv_vals[...] = convert_units(dv_vals, units, src_units)\n", 'C20.units-mirror'),
    Mutant('convert-through-temporary-meta-units', DRIVER, "                desvar[loc_idxs] = convert_units(desvar[loc_idxs], meta['units'], src_units)\n",
           "                tmp_ = desvar[loc_idxs]\n                tmp_[:] = convert_units(tmp_, meta['units'], src_units)\n", 'C20.units-mirror'),
    Twin('twin-convert-read-temporary-store-direct', DRIVER, "                desvar[loc_idxs] = convert_units(desvar[loc_idxs], units, src_units)\n",
         "                dv_vals = desvar[loc_idxs]\n                desvar[loc_idxs] = convert_units(dv_vals, units, src_units)\n"),
    Twin('twin-total-keywords', SYSTEM, "resp['total_adder'], resp['total_scaler'] = determine_adder_scaler(ref0, ref, adder, scaler)",
         "resp['total_adder'], resp['total_scaler'] = determine_adder_scaler(ref0=ref0, ref=ref, adder=adder, scaler=scaler)"),
    Twin('twin-total-subscript-stores', SYSTEM, "            'total_adder': total_adder,\n            'total_scaler': total_scaler,\n        }\n",
         "        }\n        new_obj_metadata['total_adder'] = total_adder\n        new_obj_metadata['total_scaler'] = total_scaler\n"),
    # ---- round 3 / second robustness round
    Mutant('seed3-1-unit-row-skipped-by-continue', TOTJAC, _UNIT_NESTED,
           "                out_scaler = self._resp_unit_scalers.get(out_name)\n                if not out_scaler:\n                    continue\n\n"
           "                for in_name, block in in_dict.items():\n                    block *= out_scaler\n", 'C20.jac'),
    Mutant('jac-flat-continue-on-missing-out-scaler', AUTO,
           "            if out_scaler is not None:\n                jac_block[...] = (out_scaler * jac_block.T).T\n",
           "            if out_scaler is None:\n                continue\n            jac_block[...] = (out_scaler * jac_block.T).T\n", 'C20.jac'),
    Mutant('seed3-2-any-entry-neutral', SYSTEM, "            if np.all(scaler == 1.0):\n                scaler = None\n        elif scaler == 1.0:",
           "            if np.any(scaler == 1.0):\n                scaler = None\n        elif scaler == 1.0:", 'C20.neutral'),
    Mutant('neutral-adder-not-all-nonzero', SYSTEM, "            if not np.any(adder):\n                adder = None\n        elif adder == 0.0:",
           "            if not np.all(adder):\n                adder = None\n        elif adder == 0.0:", 'C20.neutral'),
    Mutant('neutral-total-scaler-any', SYSTEM, "                if np.all(total_scaler == 1.0):", "                if np.any(total_scaler == 1.0):", 'C20.neutral'),
    Mutant('neutral-scalar-inverted', SYSTEM, "        elif scaler == 1.0:\n            scaler = None\n\n        if isinstance(adder, np.ndarray):\n            if not np.any(adder):\n                adder = None\n        elif adder == 0.0:\n            adder = None\n\n        # determine adder",
           "        elif scaler != 1.0:\n            scaler = None\n\n        if isinstance(adder, np.ndarray):\n            if not np.any(adder):\n                adder = None\n        elif adder == 0.0:\n            adder = None\n\n        # determine adder", 'C20.neutral'),
    Mutant('seed3-3-violation-scaled-by-declared-scaler', DRIVER, _VIOLSC, _VIOLSC.replace("'total_scaler'", "'scaler'"), 'C20.applied-keys'),
    Mutant('applied-declared-scaler-through-alias', AUTO, _MDV, _MDV.replace("'total_scaler'", "'scaler'"), 'C20.applied-keys'),
    Mutant('applied-ref-in-unscale', AUTO, "                vec[name] /= scaler\n", "                vec[name] *= self._var_meta[vec.voi_type][name]['ref']\n",
           'C20.applied-keys'),
    Mutant('seed3-4-to-dict-hands-out-views', OVEC, "                val = self[name].copy()  # Use copy to return independent array (gathered array)\n",
           "                val = self[name]\n", 'C20.copies-out',
           also=[(OVEC, "                    val = val[distributed_indices]\n", "                    val = val[distributed_indices].copy()\n")]),
    Mutant('constraint-dict-holds-views', DRIVER, "            con_dict[name] = con_vec[name].copy()\n", "            con_dict[name] = con_vec[name]\n",
           'C20.copies-out'),
    Mutant('to-dict-asarray-view', OVEC, "                val = self[name].copy()  # Use copy to return independent array (gathered array)\n",
           "                val = self._data[meta['slice']].reshape(-1)\n", 'C20.copies-out'),
    Mutant('helper-shape-pair-swapped', AUTO, _H_ANCHOR, _H_DEF.replace('return total_scaler, total_adder', 'return total_adder, total_scaler') + _H_ANCHOR,
           'C20.mirror', also=_H_SHAPE),
    Mutant('helper-shape-fixed-table', AUTO, _H_ANCHOR, _H_DEF + _H_ANCHOR, 'C20.mirror',
           also=[(AUTO, _H_OLD, "            scaler, adder = self._get_total_scaler_adder('design_var', name)\n"), (AUTO, _H_OLD, _H_NEW)]),
    Mutant('helper-shape-in-place-on-result', AUTO, _H_ANCHOR, _H_DEF + _H_ANCHOR, 'C20.meta-readonly',
           also=_H_SHAPE + [(AUTO, "            if adder is not None:\n                vec[name] -= adder\n",
                             "            if adder is not None:\n                adder *= -1\n                vec[name] += adder\n")]),
    Mutant('no-early-return-shape-flag-not-cleared', AUTO,
           "        if not vec.driver_scaling:\n            return vec\n        \n        for name in vec:",
           "        if vec.driver_scaling:\n          for name in vec:", 'C20.flag',
           also=[(AUTO, _H_OLD + "\n            # Unscale: x_model = x_optimizer / scaler - adder\n" + _UNSC + "        vec._driver_scaling = False\n",
                  "            scaler = self._var_meta[vec.voi_type][name]['total_scaler']\n"
                  "            adder = self._var_meta[vec.voi_type][name]['total_adder']\n"
                  "            if scaler is not None:\n                vec[name] /= scaler\n"
                  "            if adder is not None:\n                vec[name] -= adder\n")]),
    Mutant('units-alias-shape-direction-swapped', DRIVER,
           "                src_units = problem.model._var_abs2meta['output'][src_name]['units']\n"
           "                desvar[loc_idxs] = convert_units(desvar[loc_idxs], units, src_units)\n",
           "                abs2meta_out = problem.model._var_abs2meta['output']\n                src_units = abs2meta_out[src_name]['units']\n"
           "                desvar[loc_idxs] = convert_units(desvar[loc_idxs], src_units, units)\n", 'C20.units-mirror'),
    Twin('twin-helper-extracted', AUTO, _H_ANCHOR, _H_DEF + _H_ANCHOR, also=_H_SHAPE),
    Twin('twin-helper-meta-alias-and-no-early-return', AUTO,
         "        if not vec.driver_scaling:\n            return vec\n        \n        for name in vec:",
         "        if vec.driver_scaling:\n          for name in vec:",
         also=[(AUTO, _H_OLD + "\n            # Unscale: x_model = x_optimizer / scaler - adder\n" + _UNSC + "        vec._driver_scaling = False\n",
                "            scaler, adder = self._total_scaling(vec.voi_type, name)\n"
                "            if scaler is not None:\n                vec[name] /= scaler\n"
                "            if adder is not None:\n                vec[name] -= adder\n"
                "          vec._driver_scaling = False\n"),
               (AUTO, "    def apply_design_var_unscaling(self, vec: 'OptimizerVector'):\n",
                "    def _total_scaling(self, voi_type, name):\n        meta = self._var_meta[voi_type][name]\n"
                "        return meta['total_scaler'], meta['total_adder']\n\n"
                "    def apply_design_var_unscaling(self, vec: 'OptimizerVector'):\n")]),
    Twin('twin-units-abs2meta-alias', DRIVER,
         "                src_units = problem.model._var_abs2meta['output'][src_name]['units']\n",
         "                abs2meta_out = problem.model._var_abs2meta['output']\n                src_units = abs2meta_out[src_name]['units']\n"),
    Twin('twin-unit-in-scaler-early-continue', TOTJAC, "                if in_scaler:\n                    block *= (1.0 / in_scaler)\n        else:",
         "                if not in_scaler:\n                    continue\n                block *= (1.0 / in_scaler)\n        else:"),
    Twin('twin-neutral-method-all', SYSTEM, "            if np.all(scaler == 1.0):\n                scaler = None\n        elif scaler == 1.0:",
         "            if (scaler == 1.0).all():\n                scaler = None\n        elif scaler == 1.0:"),
    Twin('twin-neutral-adder-all-zero', SYSTEM, "            if not np.any(adder):\n                adder = None\n        elif adder == 0.0:",
         "            if np.all(adder == 0.0):\n                adder = None\n        elif adder == 0.0:"),
    Twin('twin-violation-scaler-alias', DRIVER, _VIOLSC,
         "            ts = meta['total_scaler']\n            if viol and driver_scaling and ts is not None:\n"
         "                con_dict[name] = con_dict[name] * ts\n"),
    Twin('twin-to-dict-np-array', OVEC, "                val = self[name].copy()  # Use copy to return independent array (gathered array)\n",
         "                val = np.array(self[name])\n"),
    # ---- third robustness round
    Twin('twin-finish-jac-helper', TOTJAC, _FJ_BLOCK, "                self._finish_jac()\n", also=[(TOTJAC, _FJ_ANCHOR, _FJ_DEF + _FJ_ANCHOR)]),
    Mutant('finish-jac-helper-scales-before-subtracting', TOTJAC, _FJ_BLOCK, "                self._finish_jac()\n", 'C20.order',
           also=[(TOTJAC, _FJ_ANCHOR, _FJ_DEF_BAD + _FJ_ANCHOR)]),
    Mutant('finish-jac-helper-without-unit-scaling', TOTJAC, _FJ_BLOCK, "                self._finish_jac()\n", 'C20.order',
           also=[(TOTJAC, _FJ_ANCHOR, _FJ_DEF_NOUNIT + _FJ_ANCHOR)]),
    Mutant('finish-jac-helper-called-in-loop', TOTJAC, _FJ_BLOCK, "", 'C20.order',
           also=[(TOTJAC, _FJ_ANCHOR, _FJ_DEF + _FJ_ANCHOR),
                 (TOTJAC, "                            self.model._problem_meta['seed_vars'] = None\n                \n",
                  "                            self.model._problem_meta['seed_vars'] = None\n                    self._finish_jac()\n                \n")]),
    Twin('twin-neutral-named-condition', SYSTEM, _ND_OLD, _ND_NEW),
    Mutant('neutral-named-condition-any', SYSTEM, _ND_OLD, _ND_NEW.replace('np.all(scaler == 1.0)', 'np.any(scaler == 1.0)'), 'C20.neutral'),
    Mutant('neutral-named-condition-branches-swapped', SYSTEM, _ND_OLD,
           _ND_NEW.replace('not np.any(adder) if isinstance(adder, np.ndarray) else adder == 0.0',
                           'not np.all(adder) if isinstance(adder, np.ndarray) else adder == 0.0'), 'C20.neutral'),
    Twin('twin-neutral-is-array-flag', SYSTEM, _NR_OLD, _NR_NEW),
    Mutant('neutral-is-array-flag-any', SYSTEM, _NR_OLD, _NR_NEW.replace('np.all(scaler == 1.0)', 'np.any(scaler == 1.0)'), 'C20.neutral'),
    Mutant('neutral-is-array-flag-scalar-inverted', SYSTEM, _NR_OLD, _NR_NEW.replace('not scaler_is_array and scaler == 1.0', 'not scaler_is_array and scaler != 1.0'),
           'C20.neutral'),
    Twin('twin-unit-table-aliases', TOTJAC, _UA_OLD1, _UA_NEW1, also=_UA_EDITS),
    Mutant('unit-table-aliases-crossed', TOTJAC, _UA_OLD1, _UA_NEW1, 'C20.jac',
           also=[_UA_EDITS[0], (TOTJAC, _UA_EDITS[1][1], _UA_EDITS[1][2].replace('desvar_scalers.get(in_name)', 'resp_scalers.get(in_name)'))]),
    Mutant('unit-table-aliases-early-return-and', TOTJAC, _UA_OLD1, _UA_NEW1.replace('resp_scalers or desvar_scalers', 'resp_scalers and desvar_scalers'),
           'C20.gates', also=_UA_EDITS),
    # ---- fourth robustness round: one shared loop over a constant tuple of (table, argument) rows
    Twin('twin-mult-constant-tuple-loop', AUTO, _ML_OLD, _ML_NEW),
    Mutant('mult-tuple-loop-rows-crossed', AUTO, _ML_OLD,
           _ML_NEW.replace("(('design_var', desvar_multipliers),", "(('constraint', desvar_multipliers),")
                  .replace("('constraint', con_multipliers)):", "('design_var', con_multipliers)):"), 'C20.mult'),
    Mutant('mult-tuple-loop-inverted-factor', AUTO, _ML_OLD, _ML_NEW.replace('mult *= factor / obj_scaler', 'mult *= obj_scaler / factor'), 'C20.mult'),
    Mutant('mult-tuple-loop-rebind', AUTO, _ML_OLD, _ML_NEW.replace('mult *= factor / obj_scaler', 'mult = mult * factor / obj_scaler'), 'C20.mult'),
    Mutant('mult-tuple-loop-truth-default', AUTO, _ML_OLD, _ML_NEW.replace('total_scaler if total_scaler is not None else 1.0', 'total_scaler if total_scaler else 1.0'),
           'C20.mult-array'),
    Mutant('mult-tuple-loop-in-place-on-metadata', AUTO, _ML_OLD,
           _ML_NEW.replace("                factor = total_scaler if total_scaler is not None else 1.0\n                mult *= factor / obj_scaler\n",
                           "                factor = total_scaler if total_scaler is not None else 1.0\n                factor /= obj_scaler\n                mult *= factor\n"),
           'C20.meta-readonly'),
    # ---- twins
    Twin('twin-order-extra-guarded-debug', TOTJAC, "                self._apply_unit_scaling(self.J_dict)\n\n                # Driver scaling.",
         "                if debug_print:\n                    print('scaling', flush=True)\n                self._apply_unit_scaling(self.J_dict)\n\n                # Driver scaling."),
    Twin('twin-scale-empty-vector-shortcut', AUTO, "        if vec.driver_scaling:\n            return vec\n        for name in vec:",
         "        if vec.driver_scaling:\n            return vec\n        if len(vec) == 0:\n            return vec\n        for name in vec:"),
    Twin('twin-unit-early-return-demorgan', TOTJAC, "if not self._resp_unit_scalers and not self._desvar_unit_scalers:",
         "if not (self._resp_unit_scalers or self._desvar_unit_scalers):"),
    Twin('twin-ba-range', BAUTO, "dv_range = upper_arr - lower_arr", "dv_range = -(lower_arr - upper_arr)"),
    Twin('twin-has-scaling-reordered', AUTO, "self._has_scaling = self._has_scaling \\\n                    or (scaler is not None) \\\n                    or (adder is not None)",
         "self._has_scaling = (adder is not None) or (not (scaler is None)) or self._has_scaling"),
    Twin('twin-not-is-none', AUTO, "            if adder is not None:\n                vec[name] += adder",
         "            if not (adder is None):\n                vec[name] += adder"),
    Twin('twin-explicit-binop', AUTO, "                vec[name] *= scaler", "                vec[name] = vec[name] * scaler"),
    Twin('twin-unscale-reciprocal', AUTO, "                vec[name] /= scaler", "                vec[name] *= 1.0 / scaler"),
    Twin('twin-tuple-assign-alias', AUTO,
         "            scaler = self._var_meta[vec.voi_type][name]['total_scaler']\n"
         "            adder = self._var_meta[vec.voi_type][name]['total_adder']\n\n            # Unscale",
         "            vmeta = self._var_meta[vec.voi_type][name]\n"
         "            scaler, adder = vmeta['total_scaler'], vmeta['total_adder']\n\n            # Unscale"),
    Twin('twin-renamed-locals', AUTO,
         "            scaler = self._var_meta[vec.voi_type][name]['total_scaler']\n"
         "            adder = self._var_meta[vec.voi_type][name]['total_adder']\n\n            # Scale: x_optimizer = (x_model + adder) * scaler\n" + _SC,
         "            s_ = self._var_meta[vec.voi_type][name]['total_scaler']\n"
         "            a_ = self._var_meta[vec.voi_type][name]['total_adder']\n\n"
         "            if a_ is not None:\n                vec[name] += a_\n            if s_ is not None:\n                vec[name] *= s_\n"),
    Twin('twin-flipped-if-else', AUTO, "            if adder is not None:\n                vec[name] -= adder\n",
         "            if adder is None:\n                pass\n            else:\n                vec[name] -= adder\n"),
    Twin('twin-flag-private-attr', AUTO, "        if vec.driver_scaling:\n            return vec\n",
         "        if vec._driver_scaling is True:\n            return vec\n"),
    Twin('twin-flag-setter', AUTO, "        vec._driver_scaling = True\n", "        vec.driver_scaling = True\n"),
    Twin('twin-jac-divide', AUTO, 'jac_block *= 1.0 / in_scaler', 'jac_block /= in_scaler'),
    Twin('twin-jac-commuted', AUTO, 'jac_block[...] = (out_scaler * jac_block.T).T', 'jac_block[...] = (jac_block.T * out_scaler).T'),
    Twin('twin-jac-transpose-call', AUTO, 'block[...] = (out_scaler * block.T).T', 'block[:] = (out_scaler * block.transpose()).transpose()'),
    Twin('twin-mult-reordered', AUTO, 'mult *= scaler / obj_scaler', 'mult *= (1.0 / obj_scaler) * scaler'),
    Twin('twin-mult-divide', AUTO, 'mult *= scaler / obj_scaler', 'mult /= obj_scaler / scaler', nth=1),
    Twin('twin-dispatch-reordered', OVEC,
         "            if voi_type == 'design_var':\n                driver._autoscaler.apply_design_var_scaling(self)\n"
         "            elif voi_type == 'constraint':\n                driver._autoscaler.apply_constraint_scaling(self)\n",
         "            if voi_type == 'constraint':\n                driver._autoscaler.apply_constraint_scaling(self)\n"
         "            elif 'design_var' == voi_type:\n                driver._autoscaler.apply_design_var_scaling(self)\n"),
    Twin('twin-scalings-commute', TOTJAC,
         "                self._apply_unit_scaling(self.J_dict)\n\n                # Driver scaling.\n                if self.has_scaling:\n"
         "                    self._driver._autoscaler.apply_jac_scaling(self.J_dict)\n",
         "                if self.has_scaling:\n                    self._driver._autoscaler.apply_jac_scaling(self.J_dict)\n\n"
         "                self._apply_unit_scaling(self.J_dict)\n"),
    Twin('twin-finite-logical-not', AUTO, 'finite = ~inf_mask', 'finite = np.logical_not(inf_mask)'),
    Twin('twin-bound-mask-flipped-compare', AUTO, '(val_arr <= -INF_BOUND) if is_lower else (val_arr >= INF_BOUND)',
         '(INF_BOUND <= val_arr) if not is_lower else (-INF_BOUND >= val_arr)'),
    Twin('twin-setdv-units-implicit', DRIVER, "self._set_design_var(name, value, set_remote=True, units=units)",
         "self._set_design_var(name, value, set_remote=True)"),
    Twin('twin-das-keywords', SYSTEM, "        total_adder, total_scaler = determine_adder_scaler(ref0, ref, adder, scaler)\n\n        if indices is not None:",
         "        total_adder, total_scaler = determine_adder_scaler(ref0=ref0, ref=ref, scaler=scaler, adder=adder)\n\n        if indices is not None:"),
    Twin('twin-space-flipped-compare', DRIVER, "np.logical_or(constraint_value > constraint_upper,",
         "np.logical_or(constraint_upper < constraint_value,"),
    Twin('twin-affine-reordered', GUTILS, "        adder = -ref0\n        scaler = 1.0 / (ref + adder)\n",
         "        scaler = 1.0 / (ref - ref0)\n        adder = -ref0\n"),
    Twin('twin-slots-keywords', AUTO, "meta.get('upper', INF_BOUND), adder, scaler, size, is_lower=False",
         "meta.get('upper', INF_BOUND), scaler=scaler, adder=adder, size=size, is_lower=False"),
    Twin('twin-none-default-ifexp', AUTO, _MCON,
         "                scaler = 1.0 if self._var_meta['constraint'][name]['total_scaler'] is None else "
         "self._var_meta['constraint'][name]['total_scaler']\n"),
    Twin('twin-scaler-rebound-not-in-place', AUTO, "                mult *= scaler / obj_scaler\n",
         "                scaler = scaler / obj_scaler\n                mult *= scaler\n"),
    Twin('twin-bound-guard-np-all', AUTO, "        if not inf_mask.all():\n", "        if not np.all(inf_mask):\n"),
    Twin('twin-bound-guard-any-finite', AUTO, "        if not inf_mask.all():\n", "        if (~inf_mask).any():\n"),
    Twin('twin-bound-guard-dropped', AUTO, "        if not inf_mask.all():\n", "        if True:\n"),
    Twin('twin-cached-bound-copy-then-modify', DRIVER, "                constraint_upper = upper_con[constraint]\n",
         "                constraint_upper = upper_con[constraint].copy()\n                constraint_upper += 0.0\n"),
    Twin('repair-space-de-driver', _DE, "for name, val in self.get_constraint_values().items():",
         "for name, val in self.get_constraint_values(driver_scaling=False).items():"),
)
