"""C33 -- vector arithmetic, named views and scaling round trips act on the flat data like NumPy.

The anchor methods are tiny, so they are decided by a small symbolic executor: every path through
a method is reduced to a list of events (in-place update, store, call, return, yield) whose
expressions have local aliases substituted away.  The events are then compared with the NumPy
operation the method name promises (opname), with the sibling branch of the complex-step gate
(alias), with a linear-arithmetic model of the running offsets (layout/subvec), or with the
accepted aliasing wrappers (view).
"""
import ast

from .. import astx, cfg as cfgm
from ..core import AnalysisError
from ..engine import rule, describe, selftest, Mutant, Twin

VEC = 'openmdao/vectors/vector.py'
DVEC = 'openmdao/vectors/default_vector.py'

describe('C33',
         'Decides from the source of vectors/vector.py and vectors/default_vector.py: (opname) iadd/isub/'
         'imul/__iadd__/__isub__/__imul__/add_scal_vec/set_vec/set_val/dot/get_norm/get_slice/add_to_slice '
         'perform exactly the NumPy operation their name promises, in place on the live array returned by '
         'asarray(), with the declared operands and index; (alias) asarray/_get_data/_abs_get_val/'
         '_abs_set_val/values/items/_abs_item_iter expose the same storage with and without complex step, '
         'the two sides of every `_under_complex_step` gate differing only by the `.real` projection, and '
         'asarray copies iff asked; (layout) the running offsets in _initialize_data/_get_local_views tile '
         'the array contiguously from 0 with each variable\'s own size; (view) _VecData ranges/size and '
         'set_view produce basic-slice views (no copies) of the array that is finally bound to _data; '
         '(assign) set_val/set_vec/set_vals/set_var store into the full (complex) storage, never through the real view; (subvec) a sub-vector, its scaler and its adder are the same slice of the parent; (who) _data, '
         '_views, .view and .flat are only rebound by the tabled initialisers; (roundtrip) = C08.vec. '
         'Does not decide floating point round-off, PETSc/MPI vectors or the indexer classes.',
         ['PETScVector (MPI only) is out of scope', 'System._name_shape_iter yields the variables of a '
          'subsystem contiguously and in the parent order (needed by the first-name offset idiom)',
          'ndarray basic slicing, .view(), .reshape() of a contiguous 1-D slice and .real alias their base'])


def _E(text):
    return ast.parse(text, mode='eval').body


def _K(text):
    return astx.dump(_E(text))


# --------------------------------------------------------------------------- functional AST copy
def _copy_with(node, hook):
    """Structural copy of an AST; hook(node) may return a replacement (already a fresh tree)."""
    if isinstance(node, ast.AST):
        r = hook(node)
        if r is not None:
            return r
        new = node.__class__()
        for f in node._fields:
            if hasattr(node, f):
                setattr(new, f, _copy_with(getattr(node, f), hook))
        return new
    if isinstance(node, list):
        return [_copy_with(x, hook) for x in node]
    return node


def _copy(node):
    return _copy_with(node, lambda n: None)


def _subst(expr, env):
    def hook(n):
        if isinstance(n, ast.Name) and n.id in env:
            return _copy(env[n.id])
        return None
    return _copy_with(expr, hook)


def _replace(expr, target, repl):
    return _copy_with(expr, lambda n: _copy(repl) if n is target else None)


def _strip_real(expr):
    """Remove every `.real` projection and map complex literals to their real part."""
    def hook(n):
        if isinstance(n, ast.Attribute) and n.attr == 'real':
            return _copy_with(n.value, hook)
        if isinstance(n, ast.Constant) and isinstance(n.value, complex):
            return ast.Constant(value=n.value.real)
        return None
    return _copy_with(expr, hook)


# --------------------------------------------------------------------------- symbolic executor
class Unsup(Exception):
    def __init__(self, node, why):
        Exception.__init__(self, why)
        self.node, self.why = node, why


class Ev:
    __slots__ = ('kind', 'a', 'b', 'op', 'stmt', 'via_name')

    def __init__(self, kind, a=None, b=None, op=None, stmt=None, via_name=False):
        self.kind, self.a, self.b, self.op, self.stmt = kind, a, b, op, stmt
        self.via_name = via_name   # aug-assignment whose target is a local NAME (bound to self.a)


class St:
    def __init__(self, env=None, pc=(), events=None, done=None):
        self.env = dict(env or {})
        self.pc = tuple(pc)
        self.events = list(events or [])
        self.done = done

    def fork(self):
        return St(self.env, self.pc, self.events, self.done)


ATOMS = {}   # atom key -> expression (for messages and shape tests on path conditions)


def _truth(test, flags, known):
    """(value, None) if decided, else (None, (atom key, negated))."""
    if isinstance(test, ast.UnaryOp) and isinstance(test.op, ast.Not):
        v, atom = _truth(test.operand, flags, known)
        if v is not None:
            return (not v), None
        return None, (atom[0], not atom[1])
    if isinstance(test, ast.Constant):
        return bool(test.value), None
    k = astx.dump(test)
    ATOMS[k] = test
    if k in flags:
        return flags[k], None
    if k in known:
        return known[k], None
    return None, (k, False)


def _decide(test, st, flags):
    val, atom = _truth(test, flags, dict(st.pc))
    if val is not None:
        yield val, st
        return
    key, neg = atom
    for choice in (True, False):
        s2 = st.fork()
        s2.pc = st.pc + ((key, choice),)
        yield (choice != neg), s2


def _eval(expr, st, flags):
    """Yield (expression with locals substituted and conditional expressions resolved, state)."""
    yield from _resolve(_subst(expr, st.env), st, flags)


def _resolve(e, st, flags):
    tgt = next((n for n in astx.walk(ast.Expr(value=e)) if isinstance(n, ast.IfExp)), None)
    if tgt is None:
        yield e, st
        return
    for val, s2 in _decide(tgt.test, st, flags):
        yield from _resolve(_replace(e, tgt, tgt.body if val else tgt.orelse), s2, flags)


def _bind(st, targets, value, stmt):
    """Assignment of `value` (already evaluated) to the targets of an Assign."""
    names = [t for t in targets if isinstance(t, ast.Name)]
    others = [t for t in targets if not isinstance(t, ast.Name)]
    alias = value
    for t in others:
        if isinstance(t, (ast.Tuple, ast.List)):
            elts = t.elts
            if not all(isinstance(x, ast.Name) for x in elts):
                raise Unsup(stmt, 'unpacking into non-local targets')
            if isinstance(value, (ast.Tuple, ast.List)) and len(value.elts) == len(elts):
                vals = list(value.elts)
            else:
                vals = [ast.Subscript(value=_copy(value), slice=ast.Constant(value=i), ctx=ast.Load())
                        for i in range(len(elts))]
            for x, v in zip(elts, vals):
                st.env[x.id] = v
        else:
            tt = _subst(t, st.env)
            st.events.append(Ev('store', tt, value, stmt=stmt))
            if not isinstance(value, ast.Constant) and isinstance(t, ast.Attribute) and alias is value:
                alias = tt   # `self._views = views = {}`: the local name denotes the attribute's object
    for t in names:
        st.env[t.id] = alias


# helper methods of the same class are followed (inlined) when a rule installs a resolver:
# name -> Func or None.  Methods with a verified contract (the delegation table) are not followed.
_INLINE = {'resolve': None, 'depth': 0}


def _inline(call, st, flags):
    """Generator of caller states after executing `self.helper(...)` symbolically, or None."""
    res = _INLINE['resolve']
    if res is None or _INLINE['depth'] >= 3 or astx.path(astx.receiver(call)) != 'self':
        return None
    m = astx.callee_attr(call)
    if m in _SIGS or m in ('asarray', '_get_data'):
        return None
    f = res(m)
    if f is None or f.node.args.vararg or f.node.args.kwarg or f.node.args.kwonlyargs or \
            any(isinstance(a, ast.Starred) for a in call.args) or f.decorators():
        return None
    names = params(f)[1:]
    if len(call.args) > len(names):
        return None
    bound = dict(zip(names, call.args))
    for k in call.keywords:
        if k.arg is None or k.arg not in names or k.arg in bound:
            return None
        bound[k.arg] = k.value
    for nm in names:
        if nm not in bound:
            d = default_of(f, nm)
            if d is None:
                return None
            bound[nm] = d
    if any(isinstance(n, (ast.Yield, ast.YieldFrom)) for n in astx.walk(f.node)):
        return None

    def gen():
        n0 = len(st.events)
        callee = St(bound, st.pc, st.events)
        _INLINE['depth'] += 1
        try:
            results = list(_block(list(f.node.body), callee, flags))
        finally:
            _INLINE['depth'] -= 1
        for s3 in results:
            if s3.done == 'raise':
                yield s3
                continue
            evs = s3.events[:n0] + [e for e in s3.events[n0:] if e.kind != 'return']
            yield St(st.env, s3.pc, evs, None)
    return gen()


def _step(s, st, flags):
    if astx.is_docstring(s) or isinstance(s, ast.Pass):
        yield st
    elif isinstance(s, ast.Expr):
        v = s.value
        if isinstance(v, ast.Yield):
            if v.value is None:
                st.events.append(Ev('yield', None, stmt=s))
                yield st
            else:
                for e, s2 in _eval(v.value, st, flags):
                    s2.events.append(Ev('yield', e, stmt=s))
                    yield s2
        elif isinstance(v, ast.Call):
            for e, s2 in _eval(v, st, flags):
                inl = _inline(e, s2, flags)
                if inl is not None:
                    yield from inl
                    continue
                s2.events.append(Ev('call', e, stmt=s))
                yield s2
        else:
            raise Unsup(s, 'expression statement')
    elif isinstance(s, ast.Assign):
        if any(isinstance(n, (ast.Yield, ast.YieldFrom, ast.Await)) for n in astx.walk(s.value)):
            raise Unsup(s, 'yield expression')
        for e, s2 in _eval(s.value, st, flags):
            _bind(s2, s.targets, e, s)
            yield s2
    elif isinstance(s, ast.AugAssign):
        for e, s2 in _eval(s.value, st, flags):
            tgt = _subst(s.target, s2.env)
            s2.events.append(Ev('aug', tgt, e, op=type(s.op).__name__, stmt=s,
                                via_name=isinstance(s.target, ast.Name)))
            yield s2
    elif isinstance(s, ast.If):
        for val, s2 in _decide(_subst(s.test, st.env), st, flags):
            yield from _block(s.body if val else s.orelse, s2, flags)
    elif isinstance(s, ast.For):
        if s.orelse:
            raise Unsup(s, 'for/else')
        if any(isinstance(x, (ast.Break, ast.Continue)) for x in astx.walk_stmts(s.body)):
            raise Unsup(s, 'break/continue')
        for it, s2 in _eval(s.iter, st, flags):
            for t in astx.assigned_targets(s):
                if isinstance(t, ast.Name):
                    s2.env.pop(t.id, None)
            s2.events.append(Ev('for', it, _copy(s.target), stmt=s))
            for s3 in _block(s.body, s2, flags):
                if not s3.done:
                    s3.events.append(Ev('endfor', stmt=s))
                yield s3
    elif isinstance(s, ast.Return):
        if s.value is None:
            st.events.append(Ev('return', None, stmt=s))
            st.done = 'return'
            yield st
        else:
            for e, s2 in _eval(s.value, st, flags):
                s2.events.append(Ev('return', e, stmt=s))
                s2.done = 'return'
                yield s2
    elif isinstance(s, ast.Raise):
        st.events.append(Ev('raise', None, stmt=s))
        st.done = 'raise'
        yield st
    else:
        raise Unsup(s, f'{type(s).__name__} statement')


def _block(stmts, st, flags):
    if not stmts:
        yield st
        return
    for s2 in _step(stmts[0], st, flags):
        if s2.done:
            yield s2
        else:
            yield from _block(stmts[1:], s2, flags)


def paths(fn, flags=None):
    """All symbolic paths through a function: list of St."""
    out = list(_block(list(fn.node.body), St(), dict(flags or {})))
    if len(out) > 64:
        raise Unsup(fn.node, 'too many paths')
    return out


def params(fn):
    a = fn.node.args
    return [x.arg for x in a.posonlyargs + a.args]


def default_of(fn, pname):
    a = fn.node.args
    pos = a.posonlyargs + a.args
    names = [x.arg for x in pos]
    if pname not in names:
        return None
    i = names.index(pname) - (len(pos) - len(a.defaults))
    return a.defaults[i] if i >= 0 else None


# --------------------------------------------------------------------------- data expressions
_COPY_FUNCS = ('np.array', 'np.copy', 'numpy.array', 'numpy.copy')
_COPY_METHS = ('copy', 'flatten', 'astype', 'tolist')


def self_kind(e):
    """'live' / 'copy' / 'raw' for an expression denoting this vector's flat data, else None."""
    if isinstance(e, ast.Call):
        nm = astx.call_name(e)
        if nm == 'self.asarray':
            if not e.args and not e.keywords:
                return 'live'
            c = astx.arg(e, 0, 'copy')
            if isinstance(c, ast.Constant) and len(e.args) + len(e.keywords) == 1:
                return 'copy' if c.value else 'live'
            return None
        if nm == 'self._get_data' and not e.args and not e.keywords:
            return 'live'
        f = e.func
        if isinstance(f, ast.Attribute) and f.attr in _COPY_METHS:
            return 'copy' if self_kind(f.value) else None
        if nm in _COPY_FUNCS and e.args:
            return 'copy' if self_kind(e.args[0]) else None
        return None
    if isinstance(e, ast.Subscript) and isinstance(e.slice, ast.Slice) and e.slice.lower is None and \
            e.slice.upper is None and e.slice.step is None:
        return self_kind(e.value)   # x[:] is a view of the whole of x
    if astx.path(e) == 'self._data':
        return 'raw'
    if astx.path(e) == 'self._data.real':
        return 'realview'
    return None


def self_kind_in(e):
    """True if some sub-expression of e denotes this vector's data."""
    return any(self_kind(n) for n in ast.walk(e) if isinstance(n, (ast.Call, ast.Attribute)))


def operand_of(e, pname):
    """True if e reads the flat data of the Vector parameter `pname` (asarray(...) / _get_data())."""
    return isinstance(e, ast.Call) and isinstance(e.func, ast.Attribute) and \
        e.func.attr in ('asarray', '_get_data') and isinstance(e.func.value, ast.Name) and \
        e.func.value.id == pname


def is_full(idx):
    if idx is None:
        return True
    if isinstance(idx, ast.Slice):
        return idx.lower is None and idx.upper is None and idx.step is None
    if isinstance(idx, ast.Name) and idx.id == '_full_slice':
        return True
    return astx.dump(idx) == _K('slice(None)')


def is_name(e, nm):
    return isinstance(e, ast.Name) and e.id == nm


_DELEGATE = {'iadd': 'Add', 'isub': 'Sub', 'imul': 'Mult'}
_OPTXT = {'Add': '+=', 'Sub': '-=', 'Mult': '*=', 'Div': '/='}


# parameter names (after self) of the methods a vector method may delegate to; opname() refreshes the
# table from the analysed tree so that keyword arguments are bound to the callee's real signature
_SIGS = {'iadd': ['val', 'idxs'], 'isub': ['val', 'idxs'], 'imul': ['val', 'idxs'],
         'set_val': ['val', 'idxs'], 'set_vec': ['vec']}


def _bind_call(c, m):
    """(first argument, second argument or None) of a delegating call, keywords bound by name; else None."""
    sig = _SIGS.get(m)
    if sig is None or any(isinstance(a, ast.Starred) for a in c.args) or len(c.args) > len(sig):
        return None
    vals = dict(zip(sig, c.args))
    for k in c.keywords:
        if k.arg is None or k.arg not in sig or k.arg in vals:
            return None
        vals[k.arg] = k.value
    return vals.get(sig[0]), (vals.get(sig[1]) if len(sig) > 1 else None)


_UFUNC_AT = {f'{np_}.{u}.at': op for np_ in ('np', 'numpy')
             for u, op in (('add', 'Add'), ('subtract', 'Sub'), ('multiply', 'Mult'))}


_OPERATOR_FUNCS = {'iadd': 'Add', 'add': 'Add', 'isub': 'Sub', 'sub': 'Sub', 'imul': 'Mult', 'mul': 'Mult'}
_OPERATOR_OK = {'ok': False}   # set by the rule: `operator` is the stdlib module in the analysed file


def _read_modify_write(target, value):
    """(op, operand) if `target = value` re-stores target combined with an operand, else None."""
    if isinstance(value, ast.BinOp) and type(value.op).__name__ in ('Add', 'Sub', 'Mult'):
        op = type(value.op).__name__
        if astx.same(value.left, target):
            return op, value.right
        if op != 'Sub' and astx.same(value.right, target):
            return op, value.left
    if isinstance(value, ast.Call) and _OPERATOR_OK['ok'] and not value.keywords and len(value.args) == 2:
        nm = astx.call_name(value) or ''
        if nm.startswith('operator.') and nm[9:] in _OPERATOR_FUNCS:
            op = _OPERATOR_FUNCS[nm[9:]]
            if astx.same(value.args[0], target):
                return op, value.args[1]
            if op != 'Sub' and astx.same(value.args[1], target) and nm[9] != 'i':
                return op, value.args[0]
    return None


class Eff:
    """Normalised effect of one event on this vector's data."""

    def __init__(self, kind, ev, op=None, skind=None, idx=None, val=None):
        self.kind, self.ev, self.op, self.skind, self.idx, self.val = kind, ev, op, skind, idx, val


def effects(st):
    out = []
    for ev in st.events:
        if ev.kind == 'aug':
            t = ev.a
            if isinstance(t, ast.Subscript) and self_kind(t.value):
                k = self_kind(t.value)
                if ev.via_name and not isinstance(t.slice, ast.Slice):
                    # `tmp = data[idx]; tmp op= x`: for an integer or index-array idx tmp is a copy
                    k = 'temp'
                out.append(Eff('inplace', ev, ev.op, k, t.slice, ev.b))
            elif self_kind(t):
                out.append(Eff('inplace', ev, ev.op, self_kind(t), None, ev.b))
            else:
                out.append(Eff('other', ev))
        elif ev.kind == 'store':
            t = ev.a
            rmw = _read_modify_write(t, ev.b)
            if isinstance(t, ast.Subscript) and self_kind(t.value) and rmw:
                # data[i] = data[i] op v  /  data[i] = operator.iop(data[i], v)  ==  data[i] op= v
                out.append(Eff('inplace', ev, rmw[0], self_kind(t.value), t.slice, rmw[1]))
            elif isinstance(t, ast.Subscript) and self_kind(t.value):
                out.append(Eff('set', ev, None, self_kind(t.value), t.slice, ev.b))
            elif astx.path(t) == 'self._data':
                out.append(Eff('rebind', ev))
            else:
                out.append(Eff('other', ev))
        elif ev.kind == 'call':
            c = ev.a
            m = astx.callee_attr(c)
            nm = astx.call_name(c) or ''
            if nm in _UFUNC_AT and len(c.args) == 3 and not c.keywords and self_kind(c.args[0]):
                out.append(Eff('inplace', ev, _UFUNC_AT[nm], 'unbuffered', c.args[1], c.args[2]))
                continue
            b = _bind_call(c, m) if astx.path(astx.receiver(c)) == 'self' else None
            if b is not None and m in _DELEGATE and b[0] is not None:
                out.append(Eff('inplace', ev, _DELEGATE[m], 'live', b[1], b[0]))
            elif b is not None and m == 'set_val' and b[0] is not None:
                out.append(Eff('set', ev, None, 'delegate', b[1], b[0]))
            elif b is not None and m == 'set_vec' and isinstance(b[0], ast.Name) and b[1] is None:
                v = ast.Call(func=ast.Attribute(value=_copy(b[0]), attr='asarray', ctx=ast.Load()),
                             args=[], keywords=[])
                out.append(Eff('set', ev, None, 'delegate', None, v))
            else:
                out.append(Eff('other', ev))
        elif ev.kind == 'return':
            out.append(Eff('return', ev, val=ev.a))
        elif ev.kind == 'raise':
            out.append(Eff('raise', ev))
        else:
            out.append(Eff('other', ev))
    return out


class Chk:
    """Verdict collector for one method: at most one verdict is emitted."""

    def __init__(self, out, fn, label):
        self.out, self.fn, self.label = out, fn, label
        self.state = None

    def bad(self, node, why, key):
        if self.state != 'bad':
            self.out.bad(self.fn, node, f'{self.fn.qualname}: {why}', key=f'{self.label}-{key}')
        self.state = 'bad'

    def unsure(self, node, why):
        if self.state is None:
            self.out.unsure(self.fn, node, f'{self.fn.qualname}: {why}')
            self.state = 'unsure'

    def ok(self, node, why):
        if self.state is None:
            self.out.ok(self.fn, node, why)
            self.state = 'ok'


def _stmt(e):
    return e.ev.stmt if e is not None else None


def check_update(chk, effs, kind, op, want_idx, val_check, allow_raw=False):
    """Exactly one data effect of `kind` ('inplace'/'set') with operator, index and value as declared.

    want_idx: parameter name of the index, or None for the whole array.
    val_check(expr) -> None (ok) | ('bad'|'unsure', message).
    """
    fn = chk.fn
    data = [e for e in effs if e.kind in ('inplace', 'set', 'rebind')]
    other = [e for e in effs if e.kind == 'other']
    if other:
        chk.unsure(_stmt(other[0]), f'unrecognised statement `{astx.src(_stmt(other[0]))}`')
        return
    if not data:
        chk.bad(fn.node, 'no in-place update of the vector data on this path (a rebinding such as '
                '`data = data + x` leaves the vector unchanged)', 'no-effect')
        return
    if len(data) > 1:
        chk.bad(_stmt(data[1]), 'the data is updated more than once', 'twice')
        return
    e = data[0]
    st = _stmt(e)
    if e.kind == 'rebind':
        chk.bad(st, 'rebinds self._data: the named views and the parent vector keep the old array', 'rebind')
        return
    if e.kind != kind:
        chk.bad(st, ('overwrites the data instead of accumulating' if kind == 'inplace' else
                     'accumulates into the data instead of overwriting it'), 'operator')
        return
    if kind == 'inplace' and e.op != op:
        chk.bad(st, f'uses `{_OPTXT.get(e.op, e.op)}` where `{_OPTXT[op]}` is required', 'operator')
        return
    if e.skind == 'copy':
        chk.bad(st, 'operates on a copy of the data, the vector itself is unchanged', 'copy')
        return
    if e.skind == 'unbuffered':
        chk.bad(st, f'`{astx.src(e.ev.a)[:70]}` is the UNBUFFERED ufunc.at: an index that occurs k times is updated '
                f'k times, whereas NumPy `data[idx] {_OPTXT.get(e.op, e.op)} val` applies it once', 'unbuffered')
        return
    if e.skind == 'temp':
        chk.bad(st, f'updates a local bound to `{astx.src(e.ev.a)}` taken beforehand: for an integer or '
                'index-array index that is a copy (or a scalar), so the vector is unchanged; index on the left '
                'of the in-place operator instead', 'index-temp')
        return
    if kind == 'set' and e.skind in ('live', 'realview'):
        # an assignment replaces the selected entries completely (NumPy: data[idx] = val gives val+0j);
        # asarray() is only the real view of a complex-allocated vector while complex step is off
        touches_imag = any(isinstance(n, ast.Attribute) and n.attr == 'imag'
                           for x in effs for y in (x.ev.a, x.ev.b) if isinstance(y, ast.AST) for n in ast.walk(y))
        if touches_imag:
            chk.unsure(st, 'assignment through the real view with separate handling of the imaginary part')
        else:
            chk.bad(st, f'assigns through `{astx.src(e.ev.a.value) if isinstance(e.ev.a, ast.Subscript) else "asarray()"}`'
                    ', the REAL view of a complex-allocated vector while complex step is off: self._data.imag '
                    'keeps stale values from an earlier complex-step phase (store into self._data[...])',
                    'assign-imag')
        return
    if e.skind == 'realview' or (e.skind == 'raw' and not allow_raw):
        chk.unsure(st, 'operates on self._data instead of self.asarray()')
        return
    if want_idx is None:
        if not is_full(e.idx):
            chk.bad(st, f'only updates `[{astx.src(e.idx)}]` although the whole vector is addressed', 'index')
            return
    else:
        if is_full(e.idx):
            chk.bad(st, f'ignores the `{want_idx}` argument and updates the whole array', 'index')
            return
        if not is_name(e.idx, want_idx):
            if want_idx in astx.names(e.idx):
                chk.unsure(st, f'index `{astx.src(e.idx)}` is derived from `{want_idx}`')
            else:
                chk.bad(st, f'indexes with `{astx.src(e.idx)}` instead of `{want_idx}`', 'index')
            return
    r = val_check(e.val)
    if r is not None:
        if r[0] == 'bad':
            chk.bad(st, r[1], 'operand')
        else:
            chk.unsure(st, r[1])


def val_is_param(p):
    def chk(v):
        if is_name(v, p):
            return None
        if p in astx.names(v):
            return 'unsure', f'operand `{astx.src(v)}` is derived from `{p}`'
        return 'bad', f'operand is `{astx.src(v)}` instead of `{p}`'
    return chk


def val_is_vec(p):
    def chk(v):
        if operand_of(v, p):
            return None
        if p in astx.names(v):
            return 'unsure', f'operand `{astx.src(v)}` is not `{p}.asarray()`'
        return 'bad', f'operand is `{astx.src(v)}` instead of the data of `{p}`'
    return chk


def check_returns(chk, effs, want):
    """want: 'none' (no value), 'self'."""
    rets = [e for e in effs if e.kind == 'return']
    if want == 'self':
        if not rets or not is_name(rets[-1].val, 'self'):
            chk.bad(_stmt(rets[-1]) if rets else chk.fn.node, 'an in-place operator must return self '
                    '(`v += x` rebinds v to the returned value)', 'return')
    elif want == 'none':
        if rets and rets[-1].val is not None and not (isinstance(rets[-1].val, ast.Constant) and
                                                    rets[-1].val.value is None):
            chk.unsure(_stmt(rets[-1]), 'unexpected return value')


def _paths_or_unsure(chk, flags=None):
    try:
        return paths(chk.fn, flags)
    except Unsup as u:
        chk.unsure(u.node, f'not analysable: {u.why}')
        return None


# --------------------------------------------------------------------------- opname
def _resolve_default(repo, fn, expr, depth=0):
    """Follow a module level name (through `from x import y`) to its defining expression."""
    if not isinstance(expr, ast.Name) or depth > 4:
        return expr
    m = fn.module if hasattr(fn, 'module') else fn
    for st in m.tree.body:
        if isinstance(st, ast.Assign) and any(is_name(t, expr.id) for t in st.targets):
            return st.value
    imp = m.imports.get(expr.id)
    if imp and imp[1]:
        rel = imp[0].replace('.', '/') + '.py'
        if repo.exists(rel):
            return _resolve_default(repo, repo.module(rel), ast.Name(id=imp[1], ctx=ast.Load()), depth + 1)
    return expr


def _check_default(repo, chk, pname):
    d = default_of(chk.fn, pname)
    if d is None:
        chk.bad(chk.fn.node, f'`{pname}` has no default: set_vec/iadd(...) without index address the whole '
                'array', 'default')
        return
    v = _resolve_default(repo, chk.fn, d)
    if astx.dump(v) == _K('slice(None)'):
        return
    if isinstance(v, ast.Call) and astx.call_name(v) == 'slice':
        chk.bad(chk.fn.node, f'default of `{pname}` is `{astx.src(v)}`, not the full slice', 'default')
    else:
        chk.unsure(chk.fn.node, f'default of `{pname}` not resolved to slice(None): `{astx.src(v)}`')


def _single_path(chk):
    ps = _paths_or_unsure(chk)
    if ps is None:
        return None
    if len(ps) != 1:
        chk.unsure(chk.fn.node, f'{len(ps)} paths where straight-line code was expected')
        return None
    return effects(ps[0])


def _zero_skip(pc, pname):
    """True if the path condition consists only of `pname is zero` tests."""
    if not pc:
        return False
    for key, val in pc:
        t = ATOMS.get(key)
        if is_name(t, pname):
            if val is not False:
                return False
            continue
        if isinstance(t, ast.Compare) and len(t.ops) == 1:
            a, b = t.left, t.comparators[0]
            if is_name(b, pname):
                a, b = b, a
            if is_name(a, pname) and isinstance(b, ast.Constant) and not isinstance(b.value, (str, bool)) \
                    and b.value is not None and b.value == 0:
                if isinstance(t.ops[0], ast.Eq) and val is True:
                    continue
                if isinstance(t.ops[0], ast.NotEq) and val is False:
                    continue
        return False
    return True


def _op_indexed(repo, out, name, op):
    fn = repo.func(DVEC, f'DefaultVector.{name}')
    chk = Chk(out, fn, name)
    ps = params(fn)
    if len(ps) != 3:
        chk.unsure(fn.node, 'signature is not (self, val, idxs)')
        return
    effs = _single_path(chk)
    if effs is None:
        return
    if op is None:
        check_update(chk, effs, 'set', None, ps[2], val_is_param(ps[1]), allow_raw=True)
    else:
        check_update(chk, effs, 'inplace', op, ps[2], val_is_param(ps[1]))
    check_returns(chk, effs, 'none')
    if chk.state is None:
        _check_default(repo, chk, ps[2])
    what = f'data[{ps[2]}] {_OPTXT[op]} {ps[1]}' if op else f'data[{ps[2]}] = {ps[1]}'
    chk.ok(fn.node, f'{what} on the live array; default index is slice(None)')


def _op_dunder(repo, out, name, op):
    fn = repo.func(DVEC, f'DefaultVector.{name}')
    chk = Chk(out, fn, name)
    ps = params(fn)
    if len(ps) != 2:
        chk.unsure(fn.node, 'signature is not (self, other)')
        return
    p = ps[1]
    sts = _paths_or_unsure(chk)
    if sts is None:
        return
    atom = _K(f'isinstance({p}, Vector)')
    seen = set()
    for st in sts:
        pc = dict(st.pc)
        if set(pc) != {atom}:
            chk.unsure(fn.node, 'branches are not selected by isinstance(other, Vector) alone')
            return
        seen.add(pc[atom])
        effs = effects(st)
        if pc[atom]:
            check_update(chk, effs, 'inplace', op, None, val_is_vec(p))
        else:
            check_update(chk, effs, 'inplace', op, None, val_is_param(p))
        check_returns(chk, effs, 'self')
    if seen != {True, False}:
        chk.unsure(fn.node, 'expected a Vector branch and a scalar/array branch')
    chk.ok(fn.node, f'Vector operand: data {_OPTXT[op]} other.asarray(); otherwise data {_OPTXT[op]} other; '
           'returns self')


def _val_scal_vec(pv, pvec):
    def chk(v):
        if isinstance(v, ast.BinOp):
            sides = (v.left, v.right)
            has_val = any(is_name(s, pv) for s in sides)
            has_vec = any(operand_of(s, pvec) for s in sides)
            if has_val and has_vec:
                if isinstance(v.op, ast.Mult):
                    return None
                return 'bad', f'combines `{pv}` and `{pvec}` with `{type(v.op).__name__}` instead of a product'
        if operand_of(v, pvec) or is_name(v, pvec):
            return 'bad', f'the scalar `{pv}` is dropped'
        if is_name(v, pv):
            return 'bad', f'the vector `{pvec}` is dropped'
        nm = astx.names(v)
        if pv not in nm:
            return 'bad', f'the scalar `{pv}` is not used'
        if pvec not in nm:
            return 'bad', f'the vector `{pvec}` is not used'
        return 'unsure', f'operand `{astx.src(v)}` is not `{pv} * {pvec}.asarray()`'
    return chk


def _read_kind(chk, e, st):
    """Classify a read of this vector's data: True ok, False handled (verdict emitted)."""
    k = self_kind(e)
    if k in ('live', 'copy'):
        return True
    if k == 'raw':
        chk.bad(st, 'reads the raw storage self._data instead of self.asarray(): on a complex-allocated vector '
                'with complex step off the result includes stale imaginary parts (asarray() is the real view)',
                'raw-read')
    elif k == 'realview':
        chk.bad(st, 'reads self._data.real: under complex step the imaginary part is dropped', 'raw-read')
    return False


_FLAT_FORMS = ('flat', 'ravel', 'flatten')


def _val_flat_of(p):
    def chk(v):
        x = v
        if isinstance(x, ast.Call) and isinstance(x.func, ast.Attribute) and x.func.attr in _FLAT_FORMS \
                and not x.args:
            x = x.func.value
        elif isinstance(x, ast.Attribute) and x.attr in _FLAT_FORMS:
            x = x.value
        elif isinstance(x, ast.Call) and astx.call_name(x) in ('np.ravel', 'numpy.ravel') and len(x.args) == 1:
            x = x.args[0]
        if is_name(x, p):
            return None
        if p in astx.names(v):
            return 'unsure', f'operand `{astx.src(v)}` is derived from `{p}`'
        return 'bad', f'operand is `{astx.src(v)}` instead of `{p}`'
    return chk


def _ret_expr(chk, effs):
    other = [e for e in effs if e.kind not in ('return',)]
    if other:
        if other[0].kind in ('inplace', 'set', 'rebind'):
            chk.bad(_stmt(other[0]), 'a read-only query modifies the vector', 'mutates')
        else:
            chk.unsure(_stmt(other[0]), f'unrecognised statement `{astx.src(_stmt(other[0]))}`')
        return None
    rets = [e for e in effs if e.kind == 'return']
    if not rets or rets[-1].val is None:
        chk.bad(chk.fn.node, 'returns no value', 'return')
        return None
    return rets[-1]


def _sq_norm_arg(e):
    """x if e is a recognised form of sum(x**2), else None."""
    if isinstance(e, ast.Call):
        nm = astx.call_name(e)
        if nm in ('np.dot', 'numpy.dot', 'np.inner', 'np.vdot') and len(e.args) == 2 and \
                astx.same(e.args[0], e.args[1]):
            return e.args[0]
        if nm in ('np.sum', 'numpy.sum', 'sum') and len(e.args) == 1:
            a = e.args[0]
            if isinstance(a, ast.BinOp) and isinstance(a.op, ast.Pow) and isinstance(a.right, ast.Constant) \
                    and a.right.value == 2:
                return a.left
            if isinstance(a, ast.BinOp) and isinstance(a.op, ast.Mult) and astx.same(a.left, a.right):
                return a.left
        if isinstance(e.func, ast.Attribute) and e.func.attr == 'dot' and len(e.args) == 1 and \
                astx.same(e.func.value, e.args[0]):
            return e.args[0]
    return None


@rule('C33.opname', floor=13)
def opname(repo, out):
    """Each arithmetic method performs the NumPy operation its name promises, in place on asarray()."""
    _INLINE['resolve'] = lambda m: repo.try_func(DVEC, f'DefaultVector.{m}') or repo.try_func(VEC, f'Vector.{m}')
    _OPERATOR_OK['ok'] = repo.module(DVEC).imports.get('operator') == ('operator', None)
    try:
        _opname(repo, out)
    finally:
        _INLINE['resolve'] = None
        _OPERATOR_OK['ok'] = False


def _opname(repo, out):
    for m in list(_SIGS):
        f = repo.try_func(DVEC, f'DefaultVector.{m}')
        if f is not None:
            _SIGS[m] = params(f)[1:]
    _op_indexed(repo, out, 'iadd', 'Add')
    _op_indexed(repo, out, 'isub', 'Sub')
    _op_indexed(repo, out, 'imul', 'Mult')
    _op_indexed(repo, out, 'set_val', None)
    _op_dunder(repo, out, '__iadd__', 'Add')
    _op_dunder(repo, out, '__isub__', 'Sub')
    _op_dunder(repo, out, '__imul__', 'Mult')

    # add_scal_vec(val, vec): data += val * vec.asarray()
    fn = repo.func(DVEC, 'DefaultVector.add_scal_vec')
    chk = Chk(out, fn, 'add_scal_vec')
    ps = params(fn)
    sts = _paths_or_unsure(chk) if len(ps) == 3 else chk.unsure(fn.node, 'signature is not (self, val, vec)')
    if sts is not None:
        for st_ in sts:
            effs = effects(st_)
            if len(sts) > 1 and not [e for e in effs if e.kind not in ('return',)]:
                # a path that returns without touching the data
                if _zero_skip(st_.pc, ps[1]):
                    r = [e for e in effs if e.kind == 'return']
                    chk.bad(_stmt(r[-1]) if r else fn.node, f'skips the update when `{ps[1]}` is zero: NumPy '
                            f'`data += 0 * {ps[2]}` still turns inf/NaN entries of `{ps[2]}` into NaN', 'skip-zero')
                else:
                    chk.unsure(fn.node, 'a path returns without updating the data')
                continue
            if len(sts) > 1 and chk.state is None and not all(
                    isinstance(ATOMS.get(k), (ast.Compare, ast.Name)) for k, _ in st_.pc):
                chk.unsure(fn.node, f'{len(sts)} paths where straight-line code was expected')
                continue
            check_update(chk, effs, 'inplace', 'Add', None, _val_scal_vec(ps[1], ps[2]))
            check_returns(chk, effs, 'none')
        chk.ok(fn.node, f'data += {ps[1]} * {ps[2]}.asarray()')

    # set_vec(vec): data[:] = vec.asarray()
    fn = repo.func(DVEC, 'DefaultVector.set_vec')
    chk = Chk(out, fn, 'set_vec')
    ps = params(fn)
    effs = _single_path(chk) if len(ps) == 2 else chk.unsure(fn.node, 'signature is not (self, vec)')
    if effs is not None:
        check_update(chk, effs, 'set', None, None, val_is_vec(ps[1]), allow_raw=True)
        check_returns(chk, effs, 'none')
        chk.ok(fn.node, f'data[:] = {ps[1]}.asarray() (through set_val)')

    # dot(vec)
    fn = repo.func(DVEC, 'DefaultVector.dot')
    chk = Chk(out, fn, 'dot')
    ps = params(fn)
    effs = _single_path(chk) if len(ps) == 2 else chk.unsure(fn.node, 'signature is not (self, vec)')
    if effs is not None:
        r = _ret_expr(chk, effs)
        if r is not None:
            v = r.val
            a = b = None
            if isinstance(v, ast.Call) and astx.call_name(v) in ('np.dot', 'numpy.dot', 'np.inner', 'numpy.inner') \
                    and len(v.args) == 2 and not v.keywords:
                a, b = v.args
            elif isinstance(v, ast.Call) and isinstance(v.func, ast.Attribute) and v.func.attr == 'dot' and \
                    len(v.args) == 1 and not v.keywords:
                a, b = v.func.value, v.args[0]
            elif isinstance(v, ast.BinOp) and isinstance(v.op, ast.MatMult):
                a, b = v.left, v.right
            conj = [n for n in ast.walk(v) if (isinstance(n, ast.Call) and (
                astx.call_name(n) in ('np.vdot', 'numpy.vdot', 'np.conj', 'np.conjugate', 'numpy.conj',
                                      'numpy.conjugate') or
                (isinstance(n.func, ast.Attribute) and n.func.attr in ('conj', 'conjugate'))))]
            if conj and self_kind_in(v) and any(operand_of(n, ps[1]) for n in ast.walk(v)):
                chk.bad(_stmt(r), f'`{astx.src(conj[0])[:60]}` conjugates an operand: under complex step the product '
                        'is no longer np.dot(self, vec) (not symmetric, imaginary part of the derivative flips sign)',
                        'conjugate')
            elif a is None:
                chk.unsure(_stmt(r), f'`{astx.src(v)}` is not a recognised dot product')
            else:
                s = [x for x in (a, b) if self_kind(x)]
                o = [x for x in (a, b) if operand_of(x, ps[1])]
                if len(s) == 2:
                    chk.bad(_stmt(r), f'dots the vector with itself, `{ps[1]}` is ignored', 'operand')
                elif len(o) == 2:
                    chk.bad(_stmt(r), f'dots `{ps[1]}` with itself, self is ignored', 'operand')
                elif len(s) == 1 and len(o) == 1:
                    if _read_kind(chk, s[0], _stmt(r)):
                        chk.ok(_stmt(r), f'np.dot(self.asarray(), {ps[1]}.asarray())')
                else:
                    chk.unsure(_stmt(r), f'operands of `{astx.src(v)}` not recognised')

    # get_norm()
    fn = repo.func(DVEC, 'DefaultVector.get_norm')
    chk = Chk(out, fn, 'get_norm')
    effs = _single_path(chk)
    if effs is not None:
        r = _ret_expr(chk, effs)
        if r is not None:
            v = r.val
            x = None
            if isinstance(v, ast.Call) and astx.call_name(v) in ('np.linalg.norm', 'numpy.linalg.norm') and v.args:
                o = astx.arg(v, 1, 'ord')
                extra = [k.arg for k in v.keywords if k.arg != 'ord']
                if extra or len(v.args) > 2:
                    chk.unsure(_stmt(r), f'extra arguments in `{astx.src(v)}`')
                elif o is not None and not (isinstance(o, ast.Constant) and o.value in (None, 2)):
                    if isinstance(o, ast.Constant) or astx.dump(o) in (_K('np.inf'), _K('-np.inf')):
                        chk.bad(_stmt(r), f'computes the norm of order `{astx.src(o)}` instead of the 2-norm',
                                'operand')
                    else:
                        chk.unsure(_stmt(r), f'norm order `{astx.src(o)}` not recognised')
                else:
                    x = v.args[0]
            elif isinstance(v, ast.Call) and astx.call_name(v) in ('np.sqrt', 'numpy.sqrt', 'math.sqrt') and \
                    len(v.args) == 1 and _sq_norm_arg(v.args[0]) is not None:
                x = _sq_norm_arg(v.args[0])
            elif isinstance(v, ast.BinOp) and isinstance(v.op, ast.Pow) and isinstance(v.right, ast.Constant) and \
                    v.right.value == 0.5 and _sq_norm_arg(v.left) is not None:
                x = _sq_norm_arg(v.left)
            elif _sq_norm_arg(v) is not None:
                chk.bad(_stmt(r), 'returns the squared norm (square root missing)', 'operand')
            else:
                chk.unsure(_stmt(r), f'`{astx.src(v)}` is not a recognised 2-norm')
            if x is not None and chk.state is None:
                if self_kind(x) is None:
                    chk.bad(_stmt(r), f'takes the norm of `{astx.src(x)}`, not of this vector', 'operand') \
                        if 'self' not in astx.names(x) else chk.unsure(_stmt(r), f'argument `{astx.src(x)}`')
                elif _read_kind(chk, x, _stmt(r)):
                    chk.ok(_stmt(r), 'np.linalg.norm(self.asarray())')

    # get_slice(slc) / add_to_slice(slc, val) in the base class
    fn = repo.func(VEC, 'Vector.get_slice')
    chk = Chk(out, fn, 'get_slice')
    ps = params(fn)
    effs = _single_path(chk) if len(ps) == 2 else chk.unsure(fn.node, 'signature is not (self, slc)')
    if effs is not None:
        r = _ret_expr(chk, effs)
        if r is not None:
            v = r.val
            if isinstance(v, ast.Subscript) and self_kind(v.value):
                if not is_name(v.slice, ps[1]):
                    if ps[1] in astx.names(v.slice):
                        chk.unsure(_stmt(r), f'index `{astx.src(v.slice)}`')
                    else:
                        chk.bad(_stmt(r), f'returns `[{astx.src(v.slice)}]` instead of `[{ps[1]}]`', 'index')
                elif _read_kind(chk, v.value, _stmt(r)):
                    chk.ok(_stmt(r), f'self.asarray()[{ps[1]}]')
            elif self_kind(v):
                chk.bad(_stmt(r), f'returns the whole array, `{ps[1]}` is ignored', 'index')
            else:
                chk.unsure(_stmt(r), f'`{astx.src(v)}` not recognised')

    fn = repo.func(VEC, 'Vector.add_to_slice')
    chk = Chk(out, fn, 'add_to_slice')
    ps = params(fn)
    effs = _single_path(chk) if len(ps) == 3 else chk.unsure(fn.node, 'signature is not (self, slc, val)')
    if effs is not None:
        check_update(chk, effs, 'inplace', 'Add', ps[1], _val_flat_of(ps[2]))
        check_returns(chk, effs, 'none')
        chk.ok(fn.node, f'self.asarray()[{ps[1]}] += {ps[2]}.flat')


# --------------------------------------------------------------------------- alias (complex-step gate)
_DATA_ATTRS = ('view', 'flat', '_data')
CS = 'self._under_complex_step'


def _spine(e):
    """Nodes of the access chain of e from the top down (Attribute / Subscript / method Call)."""
    out = []
    while True:
        out.append(e)
        if isinstance(e, ast.Attribute):
            e = e.value
        elif isinstance(e, ast.Subscript):
            e = e.value
        elif isinstance(e, ast.Call) and isinstance(e.func, ast.Attribute):
            e = e.func
        else:
            return out


_META = ('shape', 'size', 'ndim')


def _meta_only(spine):
    """True if the chain only reads layout metadata (x.view.shape) of the data, not its values."""
    for i, x in enumerate(spine):
        if isinstance(x, ast.Attribute) and x.attr in _DATA_ATTRS:
            above = spine[:i]
            return any(isinstance(y, ast.Attribute) and y.attr in _META for y in above)
    return False


def data_chains(e):
    """Maximal access chains in e that read a data attribute (view/flat/_data)."""
    found = []

    def rec(n):
        if isinstance(n, (ast.Attribute, ast.Subscript)) or \
                (isinstance(n, ast.Call) and isinstance(n.func, ast.Attribute)):
            sp = _spine(n)
            if any(isinstance(x, ast.Attribute) and x.attr in _DATA_ATTRS for x in sp):
                if not _meta_only(sp):
                    found.append(n)
                for x in sp:   # arguments and indices hang off the spine
                    if isinstance(x, ast.Subscript):
                        rec(x.slice)
                    elif isinstance(x, ast.Call):
                        for a in x.args:
                            rec(a)
                        for k in x.keywords:
                            rec(k.value)
                return
        for c in ast.iter_child_nodes(n):
            rec(c)
    if e is not None:
        rec(e)
    return found


def real_wrapped(chain):
    """True if a `.real` projection sits above the data attribute on the chain."""
    seen_real = False
    for x in _spine(chain):
        if isinstance(x, ast.Attribute):
            if x.attr == 'real':
                seen_real = True
            elif x.attr in _DATA_ATTRS:
                return seen_real
    return False


def has_real(e):
    return e is not None and any(isinstance(n, ast.Attribute) and n.attr == 'real' for n in ast.walk(e))


def _ev_exprs(ev):
    return [x for x in (ev.a, ev.b) if isinstance(x, ast.AST)]


def cs_gate(chk):
    """Compare the complex-step and the real side of a method path by path.

    Returns {pc: (events under complex step, events otherwise)} or None (verdict emitted).
    """
    fn = chk.fn
    key = _K(CS)
    try:
        on = paths(fn, {key: True})
        off = paths(fn, {key: False})
    except Unsup as u:
        chk.unsure(u.node, f'not analysable: {u.why}')
        return None
    d_on = {frozenset(s.pc): s for s in on}
    d_off = {frozenset(s.pc): s for s in off}
    if set(d_on) != set(d_off) or len(d_on) != len(on) or len(d_off) != len(off):
        chk.unsure(fn.node, 'the two sides of the complex-step gate branch on different conditions')
        return None
    n_data = 0
    for pc, s_on in d_on.items():
        s_off = d_off[pc]
        if len(s_on.events) != len(s_off.events) or \
                any(a.kind != b.kind or a.op != b.op for a, b in zip(s_on.events, s_off.events)):
            chk.unsure(fn.node, 'with and without complex step the method performs different operations '
                       f'(condition {sorted(pc)})')
            return None
        for a, b in zip(s_on.events, s_off.events):
            for x in _ev_exprs(a):
                if has_real(x):
                    chk.bad(a.stmt, f'under complex step `{astx.src(x)}` takes `.real`: the imaginary part is '
                            'dropped, named access no longer aliases the complex array asarray() exposes',
                            'gate-cs-real')
                    return None
                n_data += len(data_chains(x))
            for x in _ev_exprs(b):
                for c in data_chains(x):
                    if not real_wrapped(c):
                        chk.bad(b.stmt, f'without complex step `{astx.src(c)}` exposes the complex storage '
                                'instead of its `.real` view (asarray() returns the real view)', 'gate-real')
                        return None
            xa, xb = _ev_exprs(a), _ev_exprs(b)
            if len(xa) != len(xb):
                chk.unsure(a.stmt, 'the two sides of the complex-step gate differ in shape')
                return None
            for p, q in zip(xa, xb):
                if astx.dump(_strip_real(p)) != astx.dump(_strip_real(q)):
                    ca = [astx.dump(_strip_real(c)) for c in data_chains(p)]
                    cb = [astx.dump(_strip_real(c)) for c in data_chains(q)]
                    if ca != cb:
                        chk.bad(b.stmt, f'complex-step side reads `{astx.src(p)}` but the real side reads '
                                f'`{astx.src(q)}`: they must differ by the `.real` projection only', 'gate-differs')
                    else:
                        chk.unsure(b.stmt, f'`{astx.src(p)}` vs `{astx.src(q)}` differ in more than `.real`')
                    return None
    if not n_data:
        chk.unsure(fn.node, 'no data access found under the complex-step gate')
        return None
    return {pc: (d_on[pc].events, d_off[pc].events) for pc in d_on}


def _unwrap_copy(e):
    """(inner, True) if e is a recognised copy of inner, else (e, False)."""
    if isinstance(e, ast.Call):
        if isinstance(e.func, ast.Attribute) and e.func.attr == 'copy' and not e.args and not e.keywords:
            return e.func.value, True
        if astx.call_name(e) in _COPY_FUNCS and len(e.args) == 1:
            return e.args[0], True
    return e, False


def _last_return(events):
    r = [e for e in events if e.kind == 'return']
    return r[-1] if r else None


@rule('C33.alias', floor=11)
def alias(repo, out):
    """Named access and asarray() expose the same storage; complex-step gates differ by `.real` only."""
    # generators: only the gate
    for qn in ('Vector.values', 'Vector.items', 'Vector._abs_item_iter'):
        fn = repo.func(VEC, qn)
        chk = Chk(out, fn, qn.split('.')[1])
        g = cs_gate(chk)
        if g is not None:
            chk.ok(fn.node, f'{len(g)} path(s): real side = complex side with `.real` applied to every data read')

    # asarray(copy) and _get_data()
    for qn, has_copy in (('DefaultVector.asarray', True), ('DefaultVector._get_data', False)):
        fn = repo.func(DVEC, qn)
        chk = Chk(out, fn, qn.split('.')[1])
        g = cs_gate(chk)
        if g is None:
            continue
        chk.ok(fn.node, f'{len(g)} path(s): `.real` view unless under complex step')
        chk = Chk(out, fn, qn.split('.')[1])
        ps = params(fn)
        flagsets = [({}, None)]
        if has_copy:
            if len(ps) != 2:
                chk.unsure(fn.node, 'signature is not (self, copy=False)')
                continue
            d = default_of(fn, ps[1])
            if not (isinstance(d, ast.Constant) and d.value is False):
                chk.bad(fn.node, f'`{ps[1]}` must default to False: every in-place operation relies on '
                        'asarray() returning the live array', 'asarray-default')
                continue
            flagsets = [({_K(ps[1]): True}, True), ({_K(ps[1]): False}, False)]
        for fl, want_copy in flagsets:
            fl = dict(fl)
            fl[_K(CS)] = True
            try:
                sts = paths(fn, fl)
            except Unsup as u:
                chk.unsure(u.node, u.why)
                break
            if len(sts) != 1 or _last_return(sts[0].events) is None or \
                    any(e.kind != 'return' for e in sts[0].events):
                chk.unsure(fn.node, 'not a pure selection of the returned array')
                break
            r = _last_return(sts[0].events)
            inner, copied = _unwrap_copy(r.a) if r.a is not None else (None, False)
            if inner is None or astx.path(inner) != 'self._data':
                if r.a is not None and self_kind(r.a) is None and 'self' in astx.names(r.a):
                    chk.unsure(r.stmt, f'returns `{astx.src(r.a)}`')
                else:
                    chk.bad(r.stmt, f'returns `{astx.src(r.a)}` instead of self._data', 'asarray-source')
                break
            if want_copy is True and not copied:
                chk.bad(r.stmt, 'copy=True returns the live array: callers that snapshot the vector '
                        'see later updates', 'asarray-copy')
                break
            if want_copy in (False, None) and copied:
                chk.bad(r.stmt, 'returns a copy although no copy was requested: every in-place operation '
                        'is lost', 'asarray-copy')
                break
        chk.ok(fn.node, 'returns self._data itself' + (', a copy iff copy is set' if has_copy else ''))

    # _abs_get_val(name, flat)
    fn = repo.func(VEC, 'Vector._abs_get_val')
    chk = Chk(out, fn, '_abs_get_val')
    g = cs_gate(chk)
    if g is not None:
        chk.ok(fn.node, f'{len(g)} path(s): `.real` unless under complex step')
        chk = Chk(out, fn, '_abs_get_val')
        ps = params(fn)
        if len(ps) != 3:
            chk.unsure(fn.node, 'signature is not (self, name, flat)')
        else:
            nm, fl = ps[1], ps[2]
            base = f'self._views[{nm}]'
            scal = _K(f'{base}.is_scalar')
            for flat in (True, False):
                try:
                    sts = paths(fn, {_K(CS): True, _K(fl): flat})
                except Unsup as u:
                    chk.unsure(u.node, u.why)
                    break
                for st in sts:
                    pc = dict(st.pc)
                    r = _last_return(st.events)
                    if r is None or r.a is None or any(e.kind != 'return' for e in st.events) or \
                            set(pc) - {scal}:
                        chk.unsure(fn.node, 'unrecognised path')
                        break
                    got = astx.dump(r.a)
                    if flat:
                        want = [_K(f'{base}.flat')]
                    elif pc.get(scal) is True:
                        want = [_K(f'{base}.view.item()')]
                    elif pc.get(scal) is False:
                        want = [_K(f'{base}.view')]
                    else:
                        want = [_K(f'{base}.view')]
                    if got not in want:
                        alt = {_K(f'{base}.flat'), _K(f'{base}.view'), _K(f'{base}.view.item()')}
                        if got in alt or (isinstance(r.a, ast.Attribute) and r.a.attr in ('flat', 'view')):
                            chk.bad(r.stmt, f'flat={flat}: returns `{astx.src(r.a)}`; the flat flag must select '
                                    f'.flat and otherwise the shaped .view of variable `{nm}`', 'getval-select')
                        else:
                            chk.unsure(r.stmt, f'returns `{astx.src(r.a)}`')
                        break
            chk.ok(fn.node, f'flat -> _views[{nm}].flat, else .view (.item() for scalars)')

    # _abs_set_val(name, val, idx)
    fn = repo.func(VEC, 'Vector._abs_set_val')
    chk = Chk(out, fn, '_abs_set_val')
    g = cs_gate(chk)
    if g is not None:
        chk.ok(fn.node, f'{len(g)} path(s): stores through `.real` unless under complex step')
        chk = Chk(out, fn, '_abs_set_val')
        ps = params(fn)
        if len(ps) != 4:
            chk.unsure(fn.node, 'signature is not (self, name, val, idx)')
        else:
            for pc, (ev_on, _) in g.items():
                st = [e for e in ev_on if e.kind == 'store']
                if pc or len(st) != 1 or len(ev_on) != 1:
                    kinds = [e.kind for e in ev_on]
                    if 'store' not in kinds and 'aug' not in kinds and 'call' not in kinds:
                        chk.bad(fn.node, 'does not store into the view (a rebinding has no effect)', 'setval-store')
                    elif 'aug' in kinds:
                        chk.bad(fn.node, 'accumulates instead of storing', 'setval-store')
                    else:
                        chk.unsure(fn.node, 'unrecognised path')
                    break
                t, v = st[0].a, st[0].b
                if not isinstance(t, ast.Subscript):
                    chk.bad(st[0].stmt, f'rebinds `{astx.src(t)}` instead of storing into the view', 'setval-store')
                    break
                if astx.dump(t.value) not in (_K(f'self._views[{ps[1]}].view'), _K(f'self._views[{ps[1]}].flat')):
                    chk.unsure(st[0].stmt, f'target `{astx.src(t)}`')
                    break
                if not is_name(t.slice, ps[3]):
                    if is_full(t.slice) or ps[3] not in astx.names(t.slice):
                        chk.bad(st[0].stmt, f'ignores the index `{ps[3]}`', 'setval-index')
                    else:
                        chk.unsure(st[0].stmt, f'index `{astx.src(t.slice)}`')
                    break
                if not is_name(v, ps[2]):
                    if ps[2] in astx.names(v):
                        chk.unsure(st[0].stmt, f'value `{astx.src(v)}`')
                    else:
                        chk.bad(st[0].stmt, f'stores `{astx.src(v)}` instead of `{ps[2]}`', 'setval-value')
                    break
            chk.ok(fn.node, f'_views[{ps[1]}].view[{ps[3]}] = {ps[2]}')


# --------------------------------------------------------------------------- layout (running offsets)
def _ladd(a, b, sign=1):
    out = dict(a)
    for k, v in b.items():
        out[k] = out.get(k, 0) + sign * v
        if out[k] == 0:
            del out[k]
    return out


def lin(e, env):
    """Linear form {symbol: coeff, '': const} of an integer expression over the names in env."""
    if isinstance(e, ast.Constant) and isinstance(e.value, int) and not isinstance(e.value, bool):
        return {'': e.value} if e.value else {}
    if isinstance(e, ast.Name) and e.id in env:
        return dict(env[e.id])
    if isinstance(e, ast.BinOp) and isinstance(e.op, (ast.Add, ast.Sub)):
        return _ladd(lin(e.left, env), lin(e.right, env), 1 if isinstance(e.op, ast.Add) else -1)
    if isinstance(e, ast.Name):
        return {'n:' + e.id: 1}
    return {'x:' + astx.dump(e): 1}


def _fmt_lin(l):
    if not l:
        return '0'
    parts = []
    for k, v in sorted(l.items()):
        nm = {'': '1', '@S': 'offset'}.get(k, 'size' if k.startswith('x:') else k)
        parts.append(f'{v:+d}*{nm}')
    return ' '.join(parts)


S0 = {'@S': 1}


class Layout:
    """Abstract execution of one iteration of a running-offset loop."""

    def __init__(self, fn, loop, g, rd):
        self.fn, self.loop = fn, loop
        hdr = g.nodes_of(loop)[0]
        body = set(g.body_nodes(loop))
        assigned = set()
        for st in loop.body:
            if isinstance(st, (ast.Assign, ast.AugAssign)):
                for t in astx.assigned_targets(st):
                    if isinstance(t, ast.Name):
                        assigned.add(t.id)
        self.carried = {}
        self.problem = None
        for nm in sorted(assigned):
            outside = [d for d in rd.defs(hdr, nm) if d not in body]
            if not outside:
                continue
            for d in outside:
                v = d.ast.value if d.kind == 'stmt' and isinstance(d.ast, ast.Assign) else None
                if not (isinstance(v, ast.Constant) and isinstance(v.value, int)):
                    self.problem = ('unsure', d.ast if d.kind == 'stmt' else loop,
                                    f'initial value of `{nm}` is not a literal')
                elif v.value != 0:
                    self.problem = ('bad', d.ast, f'`{nm}` starts at {v.value}: the first variable must start '
                                    'at offset 0 of the array')
            self.carried[nm] = dict(S0)
        # loop-invariant integer locals (e.g. an offset that is never advanced) are literals
        self.const = {}
        read = {n.id for st in loop.body for n in astx.walk(st) if isinstance(n, ast.Name)} - assigned
        for nm in sorted(read):
            ds = rd.defs(hdr, nm)
            vals = {d.ast.value.value for d in ds if d.kind == 'stmt' and isinstance(d.ast, ast.Assign) and
                    isinstance(d.ast.value, ast.Constant) and isinstance(d.ast.value.value, int) and
                    not isinstance(d.ast.value.value, bool)}
            if ds and len(vals) == 1 and all(d.kind == 'stmt' and isinstance(d.ast, ast.Assign) and
                                             isinstance(d.ast.value, ast.Constant) for d in ds):
                v = vals.pop()
                self.const[nm] = {'': v} if v else {}

    def run(self, range_of):
        """Execute the body; range_of(stmt) -> (lower expr, upper expr) or None.  Returns
        (lower lin, upper lin, post env, stmt of the range use) or raises Unsup."""
        env = dict(self.const)
        env.update(self.carried)
        found = None
        for st in self.loop.body:
            r = range_of(st)
            if r is not None:
                if found is not None:
                    raise Unsup(st, 'more than one range per iteration')
                found = (lin(r[0], env), lin(r[1], env), st)
            if isinstance(st, ast.Assign):
                if isinstance(st.value, (ast.Constant, ast.Name, ast.BinOp, ast.Call, ast.Attribute)) and \
                        all(isinstance(t, ast.Name) for t in st.targets):
                    v = lin(st.value, env)
                    for t in st.targets:
                        env[t.id] = v
                elif any(isinstance(t, ast.Name) and t.id in env for t in astx.assigned_targets(st)):
                    raise Unsup(st, 'offset assigned in an unrecognised way')
            elif isinstance(st, ast.AugAssign):
                if isinstance(st.target, ast.Name):
                    if not isinstance(st.op, (ast.Add, ast.Sub)):
                        raise Unsup(st, 'non-additive offset update')
                    cur = env.get(st.target.id, {'n:' + st.target.id: 1})
                    env[st.target.id] = _ladd(cur, lin(st.value, env), 1 if isinstance(st.op, ast.Add) else -1)
            elif isinstance(st, ast.Expr):
                pass
            else:
                raise Unsup(st, f'{type(st).__name__} inside the offset loop')
        if found is None:
            raise Unsup(self.loop, 'no range use found in the loop')
        return found[0], found[1], env, found[2]


def check_layout(chk, lay, range_of, size_ok):
    """size_ok(symbol dump) -> True if the symbol is this variable's own size."""
    if lay.problem:
        kind, node, why = lay.problem
        (chk.bad(node, why, 'layout-start') if kind == 'bad' else chk.unsure(node, why))
        return
    if not lay.carried:
        chk.unsure(lay.loop, 'no running offset carried around the loop')
        return
    try:
        lo, hi, env, st = lay.run(range_of)
    except Unsup as u:
        chk.unsure(u.node, u.why)
        return
    syms = {k for l in [lo, hi] + [env[c] for c in lay.carried] for k in l if k.startswith(('x:', 'n:'))}
    if len(syms) != 1 or not next(iter(syms)).startswith('x:'):
        chk.unsure(st, f'offsets depend on {len(syms)} size expressions')
        return
    L = next(iter(syms))
    if not size_ok(L[2:]):
        chk.unsure(st, 'size expression of the variable not recognised')
        return
    if lo != S0:
        chk.bad(st, f'range starts at {_fmt_lin(lo)} instead of the running offset: variables overlap or '
                'leave gaps', 'layout-range')
        return
    if _ladd(hi, lo, -1) != {L: 1}:
        chk.bad(st, f'range length is {_fmt_lin(_ladd(hi, lo, -1))} instead of the size of the variable',
                'layout-range')
        return
    for c in sorted(lay.carried):
        if env[c] != hi:
            chk.bad(lay.loop, f'after one variable `{c}` is {_fmt_lin(env[c])} but the range ended at '
                    f'{_fmt_lin(hi)}: the next variable does not start where this one ends', 'layout-advance')
            return
    chk.ok(st, 'range = (offset, offset + size); all running offsets advance to the end of the range')


def _find_loops(fn, pred):
    return [st for st in astx.walk_stmts(fn.node.body) if isinstance(st, ast.For) and
            any(pred(n) for s in st.body for n in astx.walk(s))]


def _vecdata_call(n):
    return isinstance(n, ast.Call) and astx.callee_attr(n) == '_VecData' and len(n.args) == 2


@rule('C33.layout', floor=2)
def layout(repo, out):
    """Running offsets tile the data array contiguously from 0 with each variable's own size."""
    fn = repo.func(DVEC, 'DefaultVector._initialize_data')
    chk = Chk(out, fn, 'initialize_data')
    loops = _find_loops(fn, _vecdata_call)
    if len(loops) != 1:
        raise AnalysisError(f'{fn.ident}: expected one loop creating _VecData, found {len(loops)}')
    g = cfgm.build(fn)
    rd = cfgm.ReachingDefs(g)
    lay = Layout(fn, loops[0], g, rd)
    shape_args = []

    def range_of(st):
        for n in astx.walk(st):
            if _vecdata_call(n):
                r = n.args[1]
                shape_args.append(n.args[0])
                if isinstance(r, ast.Tuple) and len(r.elts) == 2:
                    return r.elts
                raise Unsup(st, 'range argument of _VecData is not a 2-tuple')
        return None

    def size_ok(sym):
        return any(sym in (astx.dump(ast.Call(func=ast.Name(id='shape_to_len', ctx=ast.Load()),
                                              args=[_copy(a)], keywords=[])),) for a in shape_args)
    check_layout(chk, lay, range_of, size_ok)

    fn = repo.func(VEC, 'Vector._get_local_views')
    chk = Chk(out, fn, 'get_local_views')
    ps = params(fn)
    arr = ps[1] if len(ps) == 2 else None

    def arr_slice(n):
        return isinstance(n, ast.Subscript) and isinstance(n.slice, ast.Slice) and is_name(n.value, arr)
    loops = _find_loops(fn, arr_slice)
    if arr is None or len(loops) != 1:
        raise AnalysisError(f'{fn.ident}: expected one loop slicing the array argument')
    g = cfgm.build(fn)
    rd = cfgm.ReachingDefs(g)
    lay = Layout(fn, loops[0], g, rd)
    tnames = {t.id for t in astx.assigned_targets(loops[0]) if isinstance(t, ast.Name)}

    def range_of2(st):
        for n in astx.walk(st):
            if arr_slice(n):
                if n.slice.step is not None or n.slice.lower is None or n.slice.upper is None:
                    raise Unsup(st, 'slice without explicit bounds')
                return n.slice.lower, n.slice.upper
        return None

    def size_ok2(sym):
        return any(sym == _K(f'{t}.size') for t in tnames)
    check_layout(chk, lay, range_of2, size_ok2)


# --------------------------------------------------------------------------- view (named views alias the data)
def _has_copy_call(e):
    for n in ast.walk(e):
        if isinstance(n, ast.Call):
            if isinstance(n.func, ast.Attribute) and n.func.attr in _COPY_METHS:
                return n
            if astx.call_name(n) in _COPY_FUNCS + ('np.ascontiguousarray', 'np.zeros_like', 'np.empty_like'):
                return n
    return None


def _unwrap_alias(e, shape_key):
    """Strip aliasing wrappers (.view(), .reshape(self.shape)); returns (inner, reshaped?, problem)."""
    reshaped = False
    while isinstance(e, ast.Call):
        f = e.func
        if isinstance(f, ast.Attribute) and f.attr == 'view' and not e.args and not e.keywords:
            e = f.value
        elif isinstance(f, ast.Attribute) and f.attr == 'reshape' and not e.keywords and e.args:
            a = e.args[0] if len(e.args) == 1 else ast.Tuple(elts=list(e.args), ctx=ast.Load())
            if astx.dump(a) != shape_key:
                return e, reshaped, f'reshapes to `{astx.src(a)}`'
            reshaped = True
            e = f.value
        elif astx.call_name(e) in ('np.reshape', 'numpy.reshape') and len(e.args) == 2 and not e.keywords:
            if astx.dump(e.args[1]) != shape_key:
                return e, reshaped, f'reshapes to `{astx.src(e.args[1])}`'
            reshaped = True
            e = e.args[0]
        else:
            break
    return e, reshaped, None


@rule('C33.view', floor=3)
def view(repo, out):
    """_VecData ranges, sizes and views are basic slices (aliases) of the array finally bound to _data."""
    # (a) _VecData.__init__(shape, rng)
    fn = repo.func(VEC, '_VecData.__init__')
    chk = Chk(out, fn, 'vecdata-init')
    ps = params(fn)
    sts = _paths_or_unsure(chk)
    if sts is not None:
        if len(ps) != 3 or len(sts) != 1:
            chk.unsure(fn.node, 'signature is not (self, shape, rng) / not straight-line')
        else:
            rng = ps[2]
            stores = {}
            for ev in sts[0].events:
                if ev.kind == 'store' and astx.path(ev.a):
                    stores[astx.path(ev.a)] = ev
            r, s = stores.get('self.range'), stores.get('self.size')
            if r is None or s is None:
                chk.unsure(fn.node, 'self.range / self.size not assigned')
            else:
                if not is_name(r.b, rng):
                    (chk.unsure if rng in astx.names(r.b) else
                     (lambda n, w: chk.bad(n, w, 'range')))(r.stmt, f'self.range is `{astx.src(r.b)}`, not `{rng}`')
                want = _K(f'{rng}[1] - {rng}[0]')
                if astx.dump(s.b) != want:
                    l = lin(s.b, {})
                    if l == {'x:' + _K(f'{rng}[1]'): 1, 'x:' + _K(f'{rng}[0]'): -1}:
                        pass
                    elif all(k.startswith('x:') and k[2:] in (_K(f'{rng}[1]'), _K(f'{rng}[0]')) or k == ''
                             for k in l):
                        chk.bad(s.stmt, f'self.size is `{astx.src(s.b)}`, not `{rng}[1] - {rng}[0]`: consumers '
                                'that rebuild offsets from sizes (_get_local_views) disagree with the ranges',
                                'size')
                    else:
                        chk.unsure(s.stmt, f'self.size is `{astx.src(s.b)}`')
                chk.ok(fn.node, f'range = {rng}; size = {rng}[1] - {rng}[0]')

    # (b) _VecData.set_view(data)
    fn = repo.func(VEC, '_VecData.set_view')
    chk = Chk(out, fn, 'set_view')
    ps = params(fn)
    sts = _paths_or_unsure(chk)
    if sts is not None:
        if len(ps) != 2:
            chk.unsure(fn.node, 'signature is not (self, data)')
            sts = []
        d = ps[1] if len(ps) == 2 else None
        n_resh = 0
        for st in sts:
            stores = {}
            for ev in st.events:
                if ev.kind == 'store' and astx.path(ev.a) in ('self.view', 'self.flat'):
                    stores[astx.path(ev.a)] = ev
                elif ev.kind != 'return':
                    chk.unsure(ev.stmt, f'unrecognised statement `{astx.src(ev.stmt)}`')
            fl, vw = stores.get('self.flat'), stores.get('self.view')
            if fl is None or vw is None:
                chk.bad(fn.node, 'self.flat / self.view not assigned on every path: the variable keeps no view '
                        '(or a stale one) of the data', 'view-missing')
                break
            f = fl.b
            c = _has_copy_call(f) or _has_copy_call(vw.b)
            if c is not None:
                chk.bad(fl.stmt, f'`{astx.src(c)}` copies: the named view no longer aliases the vector data',
                        'view-copy')
                break
            if not (isinstance(f, ast.Subscript) and isinstance(f.slice, ast.Slice)):
                chk.unsure(fl.stmt, f'self.flat is `{astx.src(f)}`, not a basic slice')
                break
            if not is_name(f.value, d):
                (chk.unsure if d in astx.names(f.value) else
                 (lambda n, w: chk.bad(n, w, 'view-base')))(fl.stmt, f'self.flat slices `{astx.src(f.value)}`, '
                                                            f'not the array `{d}` handed in')
                break
            lo, hi = f.slice.lower, f.slice.upper
            k0, k1 = _K('self.range[0]'), _K('self.range[1]')
            if f.slice.step is not None or lo is None or hi is None or \
                    (astx.dump(lo), astx.dump(hi)) != (k0, k1):
                got = (astx.dump(lo), astx.dump(hi))
                if f.slice.step is not None or got == (k1, k0) or (set(got) <= {k0, k1, 'None'}):
                    chk.bad(fl.stmt, f'self.flat is `{astx.src(f)}`: it must be {d}[range[0]:range[1]]',
                            'view-bounds')
                else:
                    chk.unsure(fl.stmt, f'slice bounds of `{astx.src(f)}` not recognised')
                break
            inner, resh, prob = _unwrap_alias(vw.b, _K('self.shape'))
            if prob:
                chk.unsure(vw.stmt, f'self.view {prob}')
                break
            if astx.dump(inner) != astx.dump(f):
                if isinstance(inner, ast.Subscript) and is_name(inner.value, d):
                    chk.bad(vw.stmt, f'self.view is built from `{astx.src(inner)}` but self.flat from '
                            f'`{astx.src(f)}`', 'view-bounds')
                else:
                    chk.unsure(vw.stmt, f'self.view is `{astx.src(vw.b)}`')
                break
            n_resh += resh
        if sts and not n_resh and chk.state is None:
            chk.bad(fn.node, 'self.view is never reshaped to self.shape: multi-dimensional variables are '
                    'exposed flat', 'view-shape')
        chk.ok(fn.node, f'flat = {d}[range[0]:range[1]]; view = flat or flat.view().reshape(shape)')

    # (c) DefaultVector._initialize_data binds every view to the final self._data
    fn = repo.func(DVEC, 'DefaultVector._initialize_data')
    chk = Chk(out, fn, 'bind-views')
    g = cfgm.build(fn)
    rd = cfgm.ReachingDefs(g)
    calls = g.calling('set_view')
    datadefs = g.where(lambda n: n.kind == 'stmt' and isinstance(n.ast, ast.Assign) and
                       any(astx.path(t) == 'self._data' for t in astx.assigned_targets(n.ast)))
    if not calls:
        chk.bad(fn.node, 'set_view is never called: the variables have no views of the data', 'bind-missing')
    elif not datadefs:
        chk.unsure(fn.node, 'self._data is not assigned here')
    for n in calls:
        call = next(c for c in n.calls() if astx.callee_attr(c) == 'set_view')
        loop = astx.enclosing(n.ast, (ast.For,))
        ok_iter = False
        if loop is not None and isinstance(loop.iter, ast.Call) and astx.callee_attr(loop.iter) == 'values' and \
                isinstance(loop.target, ast.Name) and is_name(astx.receiver(call), loop.target.id):
            rc = astx.receiver(loop.iter)
            hdr = g.nodes_of(loop)[0]
            if astx.path(rc) == 'self._views':
                ok_iter = True
            elif isinstance(rc, ast.Name):
                ds = rd.defs(hdr, rc.id)
                ok_iter = bool(ds) and all(d.kind == 'stmt' and isinstance(d.ast, ast.Assign) and
                                           any(astx.path(t) == 'self._views' for t in d.ast.targets)
                                           for d in ds)
        if not ok_iter:
            chk.unsure(n.ast, 'set_view is not called for every entry of self._views.values()')
            continue
        hdr = g.nodes_of(loop)[0]
        if len(call.args) != 1:
            chk.unsure(n.ast, 'set_view arguments')
            continue
        a = call.args[0]
        at = n
        if isinstance(a, ast.Name):
            ds = rd.defs(n, a.id)
            if len(ds) != 1 or not (next(iter(ds)).kind == 'stmt' and isinstance(next(iter(ds)).ast, ast.Assign)):
                chk.unsure(n.ast, f'`{a.id}` has several definitions')
                continue
            at = next(iter(ds))
            a = at.ast.value
        if astx.path(a) != 'self._data':
            c = _has_copy_call(a)
            if c is not None and 'self' in astx.names(a):
                chk.bad(n.ast, f'views are taken of `{astx.src(a)}`, a copy of self._data', 'bind-copy')
            elif isinstance(a, ast.Attribute) and a.attr in ('real', 'imag') and astx.path(a.value) == 'self._data':
                chk.bad(n.ast, f'views are taken of `{astx.src(a)}`: they cannot hold the complex-step part',
                        'bind-copy')
            elif astx.path(a) and astx.path(a).endswith('._data'):
                chk.bad(n.ast, f'views are taken of `{astx.src(a)}`, not of self._data', 'bind-copy')
            else:
                chk.unsure(n.ast, f'views are taken of `{astx.src(a)}`')
            continue
        late = g.reach(g.normal_succ(at), labels=cfgm.noexc) & set(datadefs)
        if late:
            chk.bad(next(iter(late)).ast, 'self._data is rebound after the views were taken: named views alias '
                    'the old array', 'bind-order')
            continue
        w = g.must_pass([g.entry], [at], datadefs, labels=cfgm.noexc)
        if w is not None:
            chk.bad(n.ast, 'views can be taken before self._data is assigned: ' + g.fmt_path(w), 'bind-order')
            continue
        w = g.must_pass([g.entry], [g.exit], [hdr], labels=cfgm.noexc)
        if w is not None:
            chk.bad(loop, 'the views are not (re)bound on every path: ' + g.fmt_path(w), 'bind-missing')
            continue
        chk.ok(n.ast, 'every _VecData gets a view of self._data after its final assignment, on every path')


# --------------------------------------------------------------------------- subvec
PSLICE = 'self._parent_slice'


@rule('C33.subvec', floor=4)
def subvec(repo, out):
    """A sub-vector, its scaler and its adder are one and the same slice of the parent's arrays."""
    fn = repo.func(DVEC, 'DefaultVector._initialize_data')
    ps = params(fn)
    if len(ps) < 2:
        raise AnalysisError(f'{fn.ident}: parent vector parameter not found')
    par = ps[1]
    g = cfgm.build(fn)
    rd = cfgm.ReachingDefs(g)
    lay_loops = _find_loops(fn, _vecdata_call)
    if len(lay_loops) != 1:
        raise AnalysisError(f'{fn.ident}: layout loop not found')
    lay = Layout(fn, lay_loops[0], g, rd)
    totals = set(lay.carried)          # names that hold the total local size after the layout loop
    body_l = set(g.body_nodes(lay_loops[0]))

    def total_name(e, at):
        """True if e is a name holding the total size at node `at` (all its defs are the layout's)."""
        if not (isinstance(e, ast.Name) and e.id in totals):
            return False
        ds = rd.defs(at, e.id)
        return bool(ds) and all(d in body_l or (d.kind == 'stmt' and isinstance(d.ast, ast.Assign) and
                                                isinstance(d.ast.value, ast.Constant) and d.ast.value.value == 0)
                                for d in ds)

    # the root / non-root split
    split = [st for st in astx.walk_stmts(fn.node.body) if isinstance(st, ast.If) and
             astx.dump(st.test) in (_K(f'{par} is None'), _K(f'{par} is not None'))]
    if len(split) != 1:
        raise AnalysisError(f'{fn.ident}: `if {par} is None` not found')
    split = split[0]
    root_is_body = astx.dump(split.test) == _K(f'{par} is None')
    root_stmts = split.body if root_is_body else split.orelse
    sub_stmts = split.orelse if root_is_body else split.body

    # ---- root: _parent_slice = slice(0, total); _data = np.zeros(total)
    chk = Chk(out, fn, 'root')
    ps_def = [st for st in astx.walk_stmts(root_stmts) if isinstance(st, ast.Assign) and
              any(astx.path(t) == PSLICE for t in st.targets)]
    dt_def = [st for st in astx.walk_stmts(root_stmts) if isinstance(st, ast.Assign) and
              any(astx.path(t) == 'self._data' for t in st.targets)]
    if len(ps_def) != 1 or len(dt_def) != 1:
        chk.unsure(split, 'root branch does not assign _parent_slice and _data exactly once')
    else:
        v = dt_def[0].value
        at = g.nodes_of(dt_def[0])[0]
        if not (isinstance(v, ast.Call) and astx.call_name(v) in ('np.zeros', 'numpy.zeros') and v.args):
            chk.unsure(dt_def[0], f'root data is `{astx.src(v)}`')
        elif not total_name(v.args[0], at):
            l = lin(v.args[0], {t: {t: 1} for t in totals})
            if isinstance(v.args[0], ast.Name) or any(k in totals for k in l):
                chk.bad(dt_def[0], f'root array has length `{astx.src(v.args[0])}`, not the total size of the '
                        'variables: the last views are truncated or the array has a tail no view covers',
                        'root-size')
            else:
                chk.unsure(dt_def[0], f'root array length `{astx.src(v.args[0])}`')
        s = ps_def[0].value
        if chk.state is None:
            if not (isinstance(s, ast.Call) and astx.call_name(s) == 'slice' and len(s.args) == 2):
                chk.unsure(ps_def[0], f'root slice `{astx.src(s)}`')
            elif not (isinstance(s.args[0], ast.Constant) and s.args[0].value == 0 and
                      total_name(s.args[1], g.nodes_of(ps_def[0])[0])):
                chk.bad(ps_def[0], f'root _parent_slice is `{astx.src(s)}`, not slice(0, total size)', 'root-size')
        chk.ok(dt_def[0], 'root: _data = zeros(total size), _parent_slice = slice(0, total size)')

    # ---- non-root: offset of the first variable in the parent
    chk = Chk(out, fn, 'sub')
    floops = [st for st in sub_stmts if isinstance(st, ast.For)]
    if len(floops) != 1:
        chk.unsure(split, 'first-variable loop not found in the sub-vector branch')
        return
    fl = floops[0]
    if not (isinstance(fl.target, ast.Name) and fl.body and isinstance(fl.body[-1], ast.Break)):
        if isinstance(fl.target, ast.Name) and not any(isinstance(x, ast.Break) for x in astx.walk_stmts(fl.body)):
            chk.bad(fl, 'the loop does not stop at the first variable: the offset of the last variable is used',
                    'sub-first')
        else:
            chk.unsure(fl, 'first-variable idiom not recognised')
        return
    vname = fl.target.id
    it_ok = astx.path(fl.iter) == 'self._views' or (
        isinstance(fl.iter, ast.Name) and all(
            d.kind == 'stmt' and isinstance(d.ast, ast.Assign) and
            any(astx.path(t) == 'self._views' for t in d.ast.targets)
            for d in rd.defs(g.nodes_of(fl)[0], fl.iter.id)) and rd.defs(g.nodes_of(fl)[0], fl.iter.id))
    if not it_ok:
        chk.unsure(fl, f'`{astx.src(fl.iter)}` is not the local variable table')
        return
    env = {t: {t: 1} for t in totals}
    pslice = data = None
    for st in fl.body[:-1]:
        if isinstance(st, ast.Assign) and len(st.targets) == 1:
            p = astx.path(st.targets[0])
            if isinstance(st.targets[0], ast.Name):
                env[p] = lin(st.value, env)
                continue
            if p == PSLICE:
                pslice = st
                continue
            if p == 'self._data':
                data = st
                continue
        chk.unsure(st, f'unrecognised statement `{astx.src(st)}`')
        return
    if pslice is None or data is None:
        chk.unsure(fl, '_parent_slice / _data not assigned for the first variable')
        return
    s = pslice.value
    if not (isinstance(s, ast.Call) and astx.call_name(s) == 'slice' and len(s.args) == 2 and not s.keywords):
        chk.unsure(pslice, f'`{astx.src(s)}` is not slice(a, b)')
        return
    # names in env that were assigned in this loop body shadow the totals
    lo, hi = lin(s.args[0], env), lin(s.args[1], env)
    want_off = {'x:' + _K(f'{par}._views[{vname}].range[0]'): 1}
    if lo != want_off:
        alt = {'x:' + _K(f'{par}._views[{vname}].range[1]'): 1}
        if lo == alt or all(k in totals or k == '' for k in lo):
            chk.bad(pslice, f'sub-vector starts at {_fmt_lin(lo) if lo != alt else "the END of its first variable"}'
                    f' instead of {par}._views[{vname}].range[0]', 'sub-offset')
        else:
            chk.unsure(pslice, f'start `{astx.src(s.args[0])}` not recognised')
        return
    ln = _ladd(hi, lo, -1)
    tot = [t for t in totals if ln == {t: 1}]
    if not tot:
        if all(k in totals or k == '' or k in want_off for k in ln):
            chk.bad(pslice, f'sub-vector length is {_fmt_lin(ln)} (upper bound `{astx.src(s.args[1])}`) instead of '
                    'the total size of its variables: only a sub-vector that starts at 0 is right', 'sub-length')
        else:
            chk.unsure(pslice, f'upper bound `{astx.src(s.args[1])}` not recognised')
        return
    # the total must really be the total here (not overwritten by the offset)
    at = g.nodes_of(pslice)[0]
    ds = rd.defs(at, tot[0])
    if not all(d in body_l or (d.kind == 'stmt' and isinstance(d.ast, ast.Assign) and
                               isinstance(d.ast.value, ast.Constant)) for d in ds):
        chk.bad(pslice, f'`{tot[0]}` no longer holds the total size when the slice is built', 'sub-length')
        return
    chk.ok(pslice, f'slice(offset of first variable in parent, offset + total size)')

    chk = Chk(out, fn, 'sub-data')
    v = data.value
    if _has_copy_call(v) is not None:
        chk.bad(data, f'`{astx.src(v)}` copies the parent data: the sub-vector no longer aliases its parent',
                'sub-alias')
    elif not (isinstance(v, ast.Subscript) and astx.path(v.value) == f'{par}._data'):
        chk.unsure(data, f'sub-vector data is `{astx.src(v)}`')
    elif astx.dump(v.slice) != _K(PSLICE) and astx.dump(v.slice) != astx.dump(s):
        chk.bad(data, f'sub-vector data is `{astx.src(v)}`, not {par}._data[{PSLICE}]', 'sub-alias')
    elif g.nodes_of(data)[0] not in g.reach(g.normal_succ(at), labels=cfgm.noexc) and \
            astx.dump(v.slice) == _K(PSLICE):
        chk.bad(data, '_parent_slice is used before it is assigned', 'sub-alias')
    chk.ok(data, f'_data = {par}._data[_parent_slice] (a view)')

    # ---- scaling arrays of the parent are cut with the same slice
    chk = Chk(out, fn, 'sub-scaling')
    unpack = [st for st in astx.walk_stmts(sub_stmts) if isinstance(st, ast.Assign) and
              astx.path(st.value) == f'{par}._scaling' and len(st.targets) == 1 and
              isinstance(st.targets[0], ast.Tuple) and len(st.targets[0].elts) == 2 and
              all(isinstance(x, ast.Name) for x in st.targets[0].elts)]
    sc_def = [st for st in astx.walk_stmts(sub_stmts) if isinstance(st, ast.Assign) and
              any(astx.path(t) == 'self._scaling' for t in st.targets)]
    if len(unpack) != 1 or len(sc_def) != 1:
        chk.unsure(split, 'scaling hand-down idiom not recognised')
        return
    scaler, adder = (x.id for x in unpack[0].targets[0].elts)
    subs = [n for st in astx.walk_stmts(sub_stmts) for n in astx.walk(st)
            if isinstance(n, ast.Subscript) and isinstance(n.value, ast.Name) and n.value.id in (scaler, adder)
            and isinstance(getattr(n, 'ctx', None), ast.Load)]
    for n in subs:
        if astx.dump(n.slice) != _K(PSLICE):
            chk.bad(astx.stmt_of(n), f'`{astx.src(n)}`: the parent {("scaler" if n.value.id == scaler else "adder")} '
                    f'is not cut with {PSLICE}, the slice the data was cut with', 'sub-scaling')
    tv = sc_def[0].value
    if not (isinstance(tv, ast.Tuple) and len(tv.elts) == 2):
        chk.unsure(sc_def[0], f'self._scaling = `{astx.src(tv)}`')
        return
    e0, e1 = tv.elts
    if is_name(e0, scaler) and not any(isinstance(d.ast, ast.Assign) and d.ast is not unpack[0]
                                       for d in rd.defs(g.nodes_of(sc_def[0])[0], scaler) if d.kind == 'stmt'):
        chk.bad(sc_def[0], 'the whole parent scaler is handed to the sub-vector (not sliced)', 'sub-scaling')
    elif not (isinstance(e0, ast.Subscript) and is_name(e0.value, scaler)) and not is_name(e0, scaler):
        chk.unsure(sc_def[0], f'scaler `{astx.src(e0)}`')
    if is_name(e1, adder):
        ds = [d for d in rd.defs(g.nodes_of(sc_def[0])[0], adder) if d.kind == 'stmt' and d.ast is not unpack[0]]
        sliced = [d for d in ds if isinstance(d.ast, ast.Assign) and isinstance(d.ast.value, ast.Subscript)
                  and is_name(d.ast.value.value, adder)]
        if not sliced:
            chk.bad(sc_def[0], 'the whole parent adder is handed to the sub-vector (not sliced)', 'sub-scaling')
        else:
            for d in sliced:
                guard = astx.enclosing(d.ast, (ast.If,))
                if guard is None or astx.dump(guard.test) != _K(f'{adder} is not None') or \
                        not astx.in_body(d.ast, guard, 'body'):
                    chk.unsure(d.ast, 'adder slicing is not guarded by `adder is not None`')
    elif not (isinstance(e1, ast.Subscript) and is_name(e1.value, adder)):
        chk.unsure(sc_def[0], f'adder `{astx.src(e1)}`')
    at_sc = g.nodes_of(sc_def[0])[0]
    if g.must_pass([g.entry], [at_sc], [n for st in (pslice,) for n in g.nodes_of(st)] +
                   [n for n in g.where(lambda n: n.kind == 'stmt' and isinstance(n.ast, ast.Assign) and
                                       any(astx.path(t) == PSLICE for t in n.ast.targets))],
                   labels=cfgm.noexc) is not None:
        chk.bad(sc_def[0], f'{PSLICE} may be unset when the scaling arrays are cut', 'sub-scaling')
    chk.ok(sc_def[0], f'scaler and adder are {par}\'s arrays cut with {PSLICE}')


# --------------------------------------------------------------------------- who
WRITERS = {
    (VEC, 'Vector.__init__'): {'_views': 'empty table before _initialize_data', '_data': 'None before allocation'},
    (DVEC, 'DefaultVector._initialize_data'): {'_views': 'the variable table', '_data': 'allocation / parent view'},
    (VEC, '_VecData.__init__'): {'view': 'None before set_view', 'flat': 'None before set_view'},
    (VEC, '_VecData.set_view'): {'view': 'the view itself', 'flat': 'the flat view itself'},
}
WATCHED = ('_data', '_views', 'view', 'flat')


@rule('C33.who', floor=10)
def who(repo, out):
    """_data, _views, .view and .flat are rebound only by the initialisers (everything else stores in place)."""
    for rel in (VEC, DVEC):
        m = repo.module(rel)
        for f in m.funcs.values():
            for st in astx.walk_stmts(f.node.body):
                if not isinstance(st, (ast.Assign, ast.AnnAssign, ast.Delete)):
                    continue
                for t in astx.assigned_targets(st):
                    if isinstance(t, ast.Attribute) and t.attr in WATCHED:
                        reason = WRITERS.get((rel, f.qualname), {}).get(t.attr)
                        if reason:
                            out.ok(f, st, reason)
                        else:
                            out.bad(f, st, f'{f.qualname} rebinds `{astx.src(t)}`: views, parent and child vectors '
                                    'that alias the old array no longer see this vector\'s data (use an in-place '
                                    'store `[...] =`)', key=f'rebind-{t.attr}')


# --------------------------------------------------------------------------- assign (named stores hit the full storage)
@rule('C33.assign', floor=2)
def assign(repo, out):
    """set_vals/set_var assign through the (complex) views of _data, never through a `.real` projection."""
    for qn in ('Vector.set_vals', 'Vector.set_var'):
        fn = repo.func(VEC, qn)
        chk = Chk(out, fn, qn.split('.')[1])
        stores = []
        for st in astx.walk_stmts(fn.node.body):
            if isinstance(st, ast.Assign):
                for t in astx.assigned_targets(st):
                    if isinstance(t, ast.Subscript) and any(
                            isinstance(x, ast.Attribute) and x.attr in _DATA_ATTRS for x in _spine(t)):
                        stores.append((st, t))
            elif isinstance(st, ast.AugAssign) and isinstance(st.target, ast.Subscript) and any(
                    isinstance(x, ast.Attribute) and x.attr in _DATA_ATTRS for x in _spine(st.target)):
                chk.bad(st, f'`{astx.src(st)}` accumulates where the method name promises an assignment',
                        'assign-operator')
        for st, t in stores:
            if any(isinstance(x, ast.Attribute) and x.attr == 'real' for x in _spine(t)):
                chk.bad(st, f'`{astx.src(t)}` assigns through the real projection: the imaginary part of a '
                        'complex-allocated vector keeps stale values (NumPy data[idx] = val gives val+0j)',
                        'assign-imag')
        if not stores:
            chk.unsure(fn.node, 'no store through a named view found')
        chk.ok(fn.node, f'{len(stores)} store(s) through .flat/.view of the full storage')


# --------------------------------------------------------------------------- roundtrip (= C08.vec)
@rule('C33.roundtrip', floor=3)
def roundtrip(repo, out):
    """scale_to_norm/scale_to_phys and _scale_forward/_scale_reverse are exact inverses (C08.vec)."""
    try:
        from . import C08 as _c08
    except Exception as e:   # pragma: no cover
        raise AnalysisError(f'C08 rule module not importable: {e}')
    _c08.vec(repo, out)


# --------------------------------------------------------------------------- self-test
_IADD = "        data = self.asarray()\n        data[idxs] += val"
_ISUB = "        data = self.asarray()\n        data[idxs] -= val"
_IMUL = "        data = self.asarray()\n        data[idxs] *= val"
_LAY = ("            end += shape_to_len(shape)\n            views[name] = _VecData(shape, (start, end))\n"
        "            start = end\n")
_LV = ("            end += vinfo.size\n            dct[name[pathlen:]] = (arr[start:end].reshape(vinfo.view.shape), "
       "vinfo.is_scalar)\n            start = end\n")

_HELPER = ("""    def _inplace_op(self, op, val, idxs):
        data = self.asarray()
        data[idxs] = op(data[idxs], val)

    def iadd(self, val, idxs=_full_slice):""")

selftest(
    'C33',
    # ---- opname
    Mutant('isub-adds', DVEC, _ISUB, "        data = self.asarray()\n        data[idxs] += val", 'C33.opname'),
    Mutant('iadd-ignores-idxs', DVEC, _IADD, "        data = self.asarray()\n        data += val", 'C33.opname'),
    Mutant('imul-overwrites', DVEC, _IMUL, "        data = self.asarray()\n        data[idxs] = val", 'C33.opname'),
    Mutant('iadd-on-copy', DVEC, _IADD, "        data = self.asarray(copy=True)\n        data[idxs] += val",
           'C33.opname'),
    Mutant('imul-rebinds', DVEC, _IMUL, "        data = self.asarray()\n        data = data[idxs] * val", 'C33.opname'),
    Mutant('isub-wrong-operand', DVEC, _ISUB, "        data = self.asarray()\n        data[idxs] -= data[idxs]",
           'C33.opname'),
    Mutant('dunder-isub-delegates-iadd', DVEC, "            self.isub(vec.asarray())", "            self.iadd(vec.asarray())",
           'C33.opname'),
    Mutant('dunder-imul-scalar-adds', DVEC, "            data = self.asarray()\n            data *= vec",
           "            data = self.asarray()\n            data += vec", 'C33.opname'),
    Mutant('dunder-iadd-no-return', DVEC, "            data += vec\n        return self", "            data += vec",
           'C33.opname'),
    Mutant('dunder-isub-self-operand', DVEC, "            self.isub(vec.asarray())", "            self.isub(self.asarray())",
           'C33.opname'),
    Mutant('scal-vec-drops-scalar', DVEC, "        data += (val * vec.asarray())", "        data += vec.asarray()",
           'C33.opname'),
    Mutant('scal-vec-rebinds', DVEC, "        data += (val * vec.asarray())", "        data = data + (val * vec.asarray())",
           'C33.opname'),
    Mutant('scal-vec-sum', DVEC, "        data += (val * vec.asarray())", "        data += (val + vec.asarray())",
           'C33.opname'),
    Mutant('set-val-accumulates', DVEC, "        self._data[idxs] = val", "        self._data[idxs] += val", 'C33.opname'),
    Mutant('set-val-rebinds', DVEC, "        self._data[idxs] = val", "        self._data = val", ['C33.opname', 'C33.who']),
    Mutant('dot-vdot', DVEC, "        return np.dot(self.asarray(), vec.asarray())", "        return np.vdot(self.asarray(), vec.asarray())",
           'C33.opname'),
    Mutant('dot-conj-operand', DVEC, "        return np.dot(self.asarray(), vec.asarray())",
           "        return np.dot(self.asarray().conj(), vec.asarray())", 'C33.opname'),
    Mutant('imul-index-temp', DVEC, _IMUL, "        data = self.asarray()[idxs]\n        data *= val", 'C33.opname'),
    Mutant('add-to-slice-index-temp', VEC, "        self.asarray()[slc] += val.flat", "        part = self.asarray()[slc]\n        part += val.flat",
           'C33.opname'),
    Mutant('scal-vec-skip-zero', DVEC, "        data = self.asarray()\n        data += (val * vec.asarray())",
           "        if val == 0.0:\n            return  # nothing to add\n\n        data = self.asarray()\n        data += (val * vec.asarray())", 'C33.opname'),
    Mutant('scal-vec-skip-falsy', DVEC, "        data = self.asarray()\n        data += (val * vec.asarray())",
           "        if val:\n            data = self.asarray()\n            data += (val * vec.asarray())", 'C33.opname'),
    Mutant('dunder-keyword-wrong-method', DVEC, "            self.isub(vec.asarray())", "            self.iadd(val=vec.asarray())", 'C33.opname'),
    Mutant('dunder-keyword-as-index', DVEC, "            self.imul(vec.asarray())", "            self.imul(1.0, idxs=vec.asarray())", 'C33.opname'),
    Mutant('dunder-keyword-self-operand', DVEC, "            self.iadd(vec.asarray())", "            self.iadd(val=self.asarray())", 'C33.opname'),
    Mutant('isub-ufunc-at', DVEC, _ISUB, "        np.subtract.at(self.asarray(), idxs, val)", 'C33.opname'),
    Mutant('add-to-slice-ufunc-at', VEC, "        self.asarray()[slc] += val.flat", "        np.add.at(self.asarray(), slc, val.flat)", 'C33.opname'),
    Mutant('norm-raw-storage', DVEC, "        return np.linalg.norm(self.asarray())", "        return np.linalg.norm(self._data)", 'C33.opname'),
    Mutant('dot-raw-storage', DVEC, "        return np.dot(self.asarray(), vec.asarray())", "        return np.dot(self._data, vec.asarray())", 'C33.opname'),
    Mutant('get-slice-raw-storage', VEC, "        return self.asarray()[slc]", "        return self._data[slc]", 'C33.opname'),
    Mutant('scale-norm-nl-adder', DVEC, "                self._scale_forward(self._nlvec._scaling[0], None)", "                self._scale_forward(*self._nlvec._scaling)", 'C33.roundtrip'),
    Mutant('helper-wrong-operator', DVEC, _IADD, "        self._inplace_op(operator.isub, val, idxs)", 'C33.opname',
           also=[(DVEC, "import hashlib\n", "import hashlib\nimport operator\n"),
                 (DVEC, "    def iadd(self, val, idxs=_full_slice):", _HELPER)]),
    Mutant('helper-drops-index', DVEC, _IADD, "        self._inplace_op(operator.iadd, val, idxs)", 'C33.opname',
           also=[(DVEC, "import hashlib\n", "import hashlib\nimport operator\n"),
                 (DVEC, "    def iadd(self, val, idxs=_full_slice):", _HELPER.replace("data[idxs] = op(data[idxs], val)", "data[:] = op(data[:], val)"))]),
    Mutant('helper-on-copy', DVEC, _IADD, "        self._inplace_op(operator.iadd, val, idxs)", 'C33.opname',
           also=[(DVEC, "import hashlib\n", "import hashlib\nimport operator\n"),
                 (DVEC, "    def iadd(self, val, idxs=_full_slice):", _HELPER.replace("self.asarray()", "self.asarray(copy=True)"))]),
    Mutant('imul-reversed-binop', DVEC, _ISUB, "        data = self.asarray()\n        data[idxs] = val - data[idxs]", 'C33.opname'),
    Mutant('set-val-real-view', DVEC, "        self._data[idxs] = val", "        data = self.asarray()\n        data[idxs] = val",
           'C33.opname'),
    Mutant('set-val-dot-real', DVEC, "        self._data[idxs] = val", "        self._data.real[idxs] = val", 'C33.opname'),
    Mutant('set-vec-real-view', DVEC, "        self.set_val(vec.asarray())", "        self.asarray()[:] = vec.asarray()", 'C33.opname'),
    Mutant('set-val-default', DVEC, "    def set_val(self, val, idxs=_full_slice):", "    def set_val(self, val, idxs=slice(1)):",
           'C33.opname'),
    Mutant('set-vec-self', DVEC, "        self.set_val(vec.asarray())", "        self.set_val(self.asarray())", 'C33.opname'),
    Mutant('dot-self-self', DVEC, "        return np.dot(self.asarray(), vec.asarray())",
           "        return np.dot(self.asarray(), self.asarray())", 'C33.opname'),
    Mutant('norm-ord-1', DVEC, "        return np.linalg.norm(self.asarray())", "        return np.linalg.norm(self.asarray(), 1)",
           'C33.opname'),
    Mutant('norm-squared', DVEC, "        return np.linalg.norm(self.asarray())",
           "        return np.dot(self.asarray(), self.asarray())", 'C33.opname'),
    Mutant('add-to-slice-subtracts', VEC, "        self.asarray()[slc] += val.flat", "        self.asarray()[slc] -= val.flat",
           'C33.opname'),
    Mutant('get-slice-whole', VEC, "        return self.asarray()[slc]", "        return self.asarray()", 'C33.opname'),
    # ---- alias
    Mutant('asarray-copy-inverted', DVEC, "        if copy:\n            return arr.copy()", "        if not copy:\n            return arr.copy()",
           'C33.alias'),
    Mutant('asarray-always-copy', DVEC, "        if copy:\n            return arr.copy()\n\n        return arr",
           "        return arr.copy()", 'C33.alias'),
    Mutant('asarray-cs-real', DVEC, "        if self._under_complex_step:\n            arr = self._data\n        else:",
           "        if self._under_complex_step:\n            arr = self._data.real\n        else:", 'C33.alias'),
    Mutant('asarray-nocs-complex', DVEC, "            arr = self._data.real\n", "            arr = self._data\n", 'C33.alias'),
    Mutant('get-data-swapped', DVEC, "        return self._data if self._under_complex_step else self._data.real",
           "        return self._data.real if self._under_complex_step else self._data", 'C33.alias'),
    Mutant('getval-flat-cs-real', VEC, "            if self._under_complex_step:\n                return self._views[name].flat\n",
           "            if self._under_complex_step:\n                return self._views[name].flat.real\n", 'C33.alias'),
    Mutant('getval-flat-returns-view', VEC, "                return self._views[name].flat\n            else:\n                return self._views[name].flat.real",
           "                return self._views[name].view\n            else:\n                return self._views[name].view.real", 'C33.alias'),
    Mutant('getval-scalar-cs-real', VEC, "            return vinfo.view.item() if self._under_complex_step else vinfo.view.item().real",
           "            return vinfo.view.item().real", 'C33.alias'),
    Mutant('setval-swapped', VEC, "        if self._under_complex_step:\n            self._views[name].view[idx] = val\n        else:\n            self._views[name].view.real[idx] = val",
           "        if self._under_complex_step:\n            self._views[name].view.real[idx] = val\n        else:\n            self._views[name].view[idx] = val", 'C33.alias'),
    Mutant('setval-ignores-idx', VEC, "            self._views[name].view[idx] = val\n        else:\n            self._views[name].view.real[idx] = val",
           "            self._views[name].view[:] = val\n        else:\n            self._views[name].view.real[:] = val", 'C33.alias'),
    Mutant('values-cs-real', VEC, "                    yield vinfo.view.item() if vinfo.is_scalar else vinfo.view\n",
           "                    yield vinfo.view.item().real if vinfo.is_scalar else vinfo.view.real\n", 'C33.alias'),
    Mutant('items-nocs-complex', VEC, "                    yield n[plen:], vinfo.view.item().real if vinfo.is_scalar else vinfo.view.real",
           "                    yield n[plen:], vinfo.view.item().real if vinfo.is_scalar else vinfo.view", 'C33.alias'),
    Mutant('item-iter-flat-vs-view', VEC, "                    yield name, vinfo.flat.real", "                    yield name, vinfo.view.real",
           'C33.alias'),
    Mutant('iadd-typo-assign', DVEC, _IADD, "        data = self.asarray()\n        data[idxs] = +val", 'C33.opname'),
    Mutant('scal-vec-self', DVEC, "        data += (val * vec.asarray())", "        data += (val * self.asarray())", 'C33.opname'),
    Mutant('dunder-imul-vector-unindexed-add', DVEC, "            self.imul(vec.asarray())", "            self.iadd(vec.asarray())", 'C33.opname'),
    Mutant('item-iter-cs-real', VEC, "                for name, vinfo in self._views.items():\n                    yield name, vinfo.flat\n",
           "                for name, vinfo in self._views.items():\n                    yield name, vinfo.flat.real\n", 'C33.alias'),
    Mutant('asarray-default-copy', DVEC, "    def asarray(self, copy=False):", "    def asarray(self, copy=True):", 'C33.alias'),
    # ---- layout
    Mutant('layout-no-advance', DVEC, _LAY, "            end += shape_to_len(shape)\n            views[name] = _VecData(shape, (start, end))\n",
           'C33.layout'),
    Mutant('layout-swapped-range', DVEC, "_VecData(shape, (start, end))", "_VecData(shape, (end, start))", 'C33.layout'),
    Mutant('layout-late-increment', DVEC, _LAY, "            views[name] = _VecData(shape, (start, end))\n            end += shape_to_len(shape)\n            start = end\n",
           'C33.layout'),
    Mutant('layout-assign-not-add', DVEC, "            end += shape_to_len(shape)", "            end = shape_to_len(shape)", 'C33.layout'),
    Mutant('layout-start-one', DVEC, "        start = end = 0\n        for name, shape", "        start = end = 1\n        for name, shape",
           'C33.layout'),
    Mutant('local-views-no-advance', VEC, _LV, _LV.replace("            start = end\n", ""), 'C33.layout'),
    Mutant('local-views-overlap', VEC, _LV, _LV.replace("start = end", "start = end - 1"), 'C33.layout'),
    # ---- view
    Mutant('view-copy', VEC, "        vflat = v = data[start:end]", "        vflat = v = data[start:end].copy()", 'C33.view'),
    Mutant('view-bounds-swapped', VEC, "        start, end = self.range\n        vflat", "        end, start = self.range\n        vflat",
           'C33.view'),
    Mutant('view-never-reshaped', VEC, "            v = vflat.view().reshape(self.shape)", "            v = vflat.view()", 'C33.view'),
    Mutant('view-reshape-of-copy', VEC, "            v = vflat.view().reshape(self.shape)", "            v = vflat.copy().reshape(self.shape)",
           'C33.view'),
    Mutant('vecdata-size', VEC, "        self.size = rng[1] - rng[0]", "        self.size = rng[1]", 'C33.view'),
    Mutant('bind-copy', DVEC, "        data = self._data\n        for vinfo in views.values():", "        data = self._data.copy()\n        for vinfo in views.values():",
           'C33.view'),
    Mutant('bind-real', DVEC, "        data = self._data\n        for vinfo in views.values():", "        data = self._data.real\n        for vinfo in views.values():",
           'C33.view'),
    Mutant('bind-then-rebind', DVEC, "            vinfo.set_view(data)\n", "            vinfo.set_view(data)\n        self._data = self._data.astype(complex if self._alloc_complex else float)\n",
           'C33.view'),
    Mutant('bind-root-only', DVEC, "        data = self._data\n        for vinfo in views.values():\n            vinfo.set_view(data)",
           "        data = self._data\n        if parent_vector is None:\n            for vinfo in views.values():\n                vinfo.set_view(data)", 'C33.view'),
    # ---- subvec
    Mutant('sub-upper-is-total', DVEC, "self._parent_slice = slice(start, start + end)", "self._parent_slice = slice(start, end)",
           'C33.subvec'),
    Mutant('sub-offset-range-end', DVEC, "start = parent_vector._views[name].range[0]", "start = parent_vector._views[name].range[1]",
           'C33.subvec'),
    Mutant('sub-data-copy', DVEC, "self._data = parent_vector._data[self._parent_slice]", "self._data = parent_vector._data[self._parent_slice].copy()",
           'C33.subvec'),
    Mutant('sub-no-break', DVEC, "                self._data = parent_vector._data[self._parent_slice]\n                break\n            else:",
           "                self._data = parent_vector._data[self._parent_slice]\n            else:", 'C33.subvec'),
    Mutant('sub-scaler-from-zero', DVEC, "(parent_scaler[self._parent_slice], parent_adder)", "(parent_scaler[:end], parent_adder)",
           'C33.subvec'),
    Mutant('sub-adder-unsliced', DVEC, "                if parent_adder is not None:\n                    parent_adder = parent_adder[self._parent_slice]\n",
           "", 'C33.subvec'),
    Mutant('root-size', DVEC, "            self._data = np.zeros(end, dtype=complex if self._alloc_complex else float)\n        else:",
           "            self._data = np.zeros(end - 1, dtype=complex if self._alloc_complex else float)\n        else:", 'C33.subvec'),
    # ---- who
    Mutant('set-vals-rebinds-flat', VEC, "            vinfo.flat[:] = val if vinfo.is_scalar else val.ravel()",
           "            vinfo.flat = val if vinfo.is_scalar else val.ravel()", 'C33.who'),
    Mutant('set-vec-rebinds-data', DVEC, "        self.set_val(vec.asarray())", "        self._data = vec.asarray(copy=True)",
           ['C33.who', 'C33.opname']),
    Mutant('cs-mode-reallocates', VEC, "        self._under_complex_step = active", "        self._under_complex_step = active\n        self._data = self._data.astype(complex if active else float)",
           'C33.who'),
    # ---- assign
    Mutant('set-vals-real', VEC, "            vinfo.flat[:] = val if vinfo.is_scalar else val.ravel()",
           "            vinfo.flat.real[:] = val if vinfo.is_scalar else val.ravel()", 'C33.assign'),
    Mutant('set-var-real', VEC, "            vinfo.flat[idxs.flat()] = value.flat", "            vinfo.flat.real[idxs.flat()] = value.flat",
           'C33.assign'),
    Mutant('set-vals-accumulates', VEC, "            vinfo.flat[:] = val if vinfo.is_scalar else val.ravel()",
           "            vinfo.flat[:] += val if vinfo.is_scalar else val.ravel()", 'C33.assign'),
    # ---- roundtrip (C08.vec)
    Mutant('scale-reverse-order', DVEC, "        data *= scaler\n        if adder is not None:  # nonlinear only\n            data += adder",
           "        if adder is not None:  # nonlinear only\n            data += adder\n        data *= scaler", 'C33.roundtrip'),
    Mutant('scale-on-copy', DVEC, "        data = self.asarray()\n        data *= scaler", "        data = self.asarray(copy=True)\n        data *= scaler",
           'C33.roundtrip'),
    Mutant('scale-phys-args', DVEC, "                self._scale_reverse(self._nlvec._scaling[0], None)", "                self._scale_reverse(*self._scaling)",
           'C33.roundtrip'),
    Mutant('scale-same-primitive', DVEC, "        if mode == 'rev':\n            self._scale_forward(*self._scaling)",
           "        if mode == 'rev':\n            self._scale_reverse(*self._scaling)", 'C33.roundtrip'),
    # ---- twins
    Twin('twin-iadd-rename', DVEC, _IADD, "        arr = self.asarray()\n        arr[idxs] += val"),
    Twin('twin-isub-direct', DVEC, _ISUB, "        self.asarray()[idxs] -= val"),
    Twin('twin-imul-copy-false', DVEC, _IMUL, "        data = self.asarray(copy=False)\n        data[idxs] *= val"),
    Twin('twin-dunder-flipped', DVEC, "        if isinstance(vec, Vector):\n            self.iadd(vec.asarray())\n        else:\n            data = self.asarray()\n            data += vec\n        return self",
         "        if not isinstance(vec, Vector):\n            data = self.asarray()\n            data += vec\n            return self\n        self.iadd(vec.asarray())\n        return self"),
    Twin('twin-dunder-direct', DVEC, "            self.imul(vec.asarray())", "            arr = self.asarray()\n            arr *= vec.asarray()"),
    Twin('twin-scal-vec-commuted', DVEC, "        data += (val * vec.asarray())", "        other = vec.asarray()\n        data += other * val"),
    Twin('twin-dot-method', DVEC, "        return np.dot(self.asarray(), vec.asarray())", "        a = self.asarray()\n        return a.dot(vec.asarray())"),
    Twin('twin-norm-sqrt', DVEC, "        return np.linalg.norm(self.asarray())", "        x = self.asarray()\n        return np.sqrt(np.dot(x, x))"),
    Twin('twin-iadd-slice-temp', DVEC, _IADD, "        data = self.asarray()[:]\n        data[idxs] += val"),
    Twin('twin-dot-inner', DVEC, "        return np.dot(self.asarray(), vec.asarray())", "        return np.inner(vec.asarray(), self.asarray())"),
    Twin('twin-dunder-keyword-early-return', DVEC, "        if isinstance(vec, Vector):\n            self.isub(vec.asarray())\n        else:\n            data = self.asarray()\n            data -= vec\n        return self",
         "        if not isinstance(vec, Vector):\n            arr = self.asarray()\n            arr -= vec\n            return self\n\n        self.isub(val=vec.asarray())\n        return self"),
    Twin('twin-set-vec-keyword', DVEC, "        self.set_val(vec.asarray())", "        self.set_val(idxs=_full_slice, val=vec.asarray())"),
    Twin('twin-norm-get-data', DVEC, "        return np.linalg.norm(self.asarray())", "        return np.linalg.norm(self._get_data())"),
    Twin('twin-isub-direct-copy-false', DVEC, _ISUB, "        self.asarray(copy=False)[idxs] -= val"),
    Twin('twin-helper-operator', DVEC, _IADD, "        self._inplace_op(operator.iadd, val, idxs)",
         also=[(DVEC, "import hashlib\n", "import hashlib\nimport operator\n"),
               (DVEC, "    def iadd(self, val, idxs=_full_slice):", _HELPER)]),
    Twin('twin-helper-keyword', DVEC, _IMUL, "        self._inplace_op(idxs=idxs, val=val, op=operator.imul)",
         also=[(DVEC, "import hashlib\n", "import hashlib\nimport operator\n"),
               (DVEC, "    def iadd(self, val, idxs=_full_slice):", _HELPER)]),
    Twin('twin-isub-binop', DVEC, _ISUB, "        data = self.asarray()\n        data[idxs] = data[idxs] - val"),
    Twin('twin-set-val-local-raw', DVEC, "        self._data[idxs] = val", "        data = self._data\n        data[idxs] = val"),
    Twin('twin-set-val-asarray', DVEC, "        self.set_val(vec.asarray())", "        self._data[:] = vec.asarray()"),
    Twin('twin-asarray-ifexp', DVEC, "        if copy:\n            return arr.copy()\n\n        return arr", "        return arr.copy() if copy else arr"),
    Twin('twin-asarray-flipped', DVEC, "        if self._under_complex_step:\n            arr = self._data\n        else:\n            arr = self._data.real\n",
         "        if not self._under_complex_step:\n            arr = self._data.real\n        else:\n            arr = self._data\n"),
    Twin('twin-getval-local', VEC, "        if flat:\n            if self._under_complex_step:\n                return self._views[name].flat\n            else:\n                return self._views[name].flat.real\n\n        vinfo = self._views[name]\n",
         "        vinfo = self._views[name]\n        if flat:\n            return vinfo.flat if self._under_complex_step else vinfo.flat.real\n\n"),
    Twin('twin-setval-flipped', VEC, "        if self._under_complex_step:\n            self._views[name].view[idx] = val\n        else:\n            self._views[name].view.real[idx] = val",
         "        v = self._views[name].view\n        if not self._under_complex_step:\n            v.real[idx] = val\n        else:\n            v[idx] = val"),
    Twin('twin-layout-explicit', DVEC, _LAY, "            end = start + shape_to_len(shape)\n            views[name] = _VecData(shape, (start, end))\n            start = end\n"),
    Twin('twin-layout-size-local', DVEC, _LAY, "            size = shape_to_len(shape)\n            views[name] = _VecData(shape, (end, end + size))\n            end += size\n            start = end\n"),
    Twin('twin-local-views-reorder', VEC, _LV, "            end = start + vinfo.size\n            dct[name[pathlen:]] = (arr[start:end].reshape(vinfo.view.shape), vinfo.is_scalar)\n            start += vinfo.size\n"),
    Twin('twin-set-view-direct', VEC, "        start, end = self.range\n        vflat = v = data[start:end]", "        vflat = v = data[self.range[0]:self.range[1]]"),
    Twin('twin-set-view-reshape', VEC, "            v = vflat.view().reshape(self.shape)", "            v = vflat.reshape(self.shape)"),
    Twin('twin-bind-direct', DVEC, "        data = self._data\n        for vinfo in views.values():\n            vinfo.set_view(data)",
         "        for info in self._views.values():\n            info.set_view(self._data)"),
    Twin('twin-sub-offset-local', DVEC, "                start = parent_vector._views[name].range[0]\n                self._parent_slice = slice(start, start + end)",
         "                off = parent_vector._views[name].range[0]\n                self._parent_slice = slice(off, off + end)"),
    Twin('twin-root-flipped', DVEC, "        if parent_vector is None:  # this is a root vector\n            self._parent_slice = slice(0, end)\n            self._data = np.zeros(end, dtype=complex if self._alloc_complex else float)\n        else:",
         "        if parent_vector is None:  # this is a root vector\n            self._data = np.zeros(end, dtype=complex if self._alloc_complex else float)\n            self._parent_slice = slice(0, end)\n        else:"),
    Twin('twin-norm-ord2', DVEC, "        return np.linalg.norm(self.asarray())", "        return np.linalg.norm(self.asarray(), ord=2)"),
    Twin('twin-asarray-compact', DVEC, "        if self._under_complex_step:\n            arr = self._data\n        else:\n            arr = self._data.real\n\n        if copy:\n            return arr.copy()\n\n        return arr",
         "        arr = self._data if self._under_complex_step else self._data.real\n        return np.array(arr) if copy else arr"),
    Twin('twin-set-view-flipped', VEC, "        if self.shape != vflat.shape and self.shape != ():\n            v = vflat.view().reshape(self.shape)\n",
         "        if self.shape == () or self.shape == vflat.shape:\n            v = vflat\n        else:\n            v = vflat.reshape(self.shape)\n"),
    Twin('twin-vecdata-unpack', VEC, "        self.size = rng[1] - rng[0]", "        lo, hi = rng\n        self.size = hi - lo"),
    Twin('twin-values-cs-local', VEC, "        if self._under_complex_step:\n            for n, vinfo in self._views.items():\n                if n in self._names:\n                    yield vinfo.view.item() if vinfo.is_scalar else vinfo.view\n",
         "        cs = self._under_complex_step\n        if cs:\n            for n, vinfo in self._views.items():\n                if n in self._names:\n                    yield vinfo.view.item() if vinfo.is_scalar else vinfo.view\n"),
    Twin('twin-add-to-slice-ravel', VEC, "        self.asarray()[slc] += val.flat", "        arr = self.asarray()\n        arr[slc] += val.ravel()"),
)
