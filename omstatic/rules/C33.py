"""C33 -- vector arithmetic, named views and scaling round trips act on the flat data like NumPy.

The anchor methods are tiny, so they are decided by a small symbolic executor: every path through
a method is reduced to a list of events (in-place update, store, call, return, yield) whose
expressions have local aliases substituted away.  The events are then compared with the NumPy
operation the method name promises (opname), with the sibling branch of the complex-step gate
(alias), with a linear-arithmetic model of the running offsets (layout/subvec), or with the
accepted aliasing wrappers (view).
"""
import ast

from .. import astx, cfg as cfgm
from ..core import AnalysisError
from ..engine import rule, describe, selftest, Mutant, Twin

VEC = 'openmdao/vectors/vector.py'
DVEC = 'openmdao/vectors/default_vector.py'
IDX = 'openmdao/utils/indexer.py'

describe('C33',
         'Decides from the source of vectors/vector.py and vectors/default_vector.py: (opname) iadd/isub/'
         'imul/__iadd__/__isub__/__imul__/add_scal_vec/set_vec/set_val/dot/get_norm/get_slice/add_to_slice '
         'perform exactly the NumPy operation their name promises, in place on the live array returned by '
         'asarray(), with the declared operands and index; (alias) asarray/_get_data/_abs_get_val/'
         '_abs_set_val/values/items/_abs_item_iter expose the same storage with and without complex step, '
         'the two sides of every `_under_complex_step` gate differing only by the `.real` projection, and '
         'asarray copies iff asked; (layout) the running offsets in _initialize_data/_get_local_views tile '
         'the array contiguously from 0 with each variable\'s own size; (view) _VecData ranges/size and '
         'set_view produce basic-slice views (no copies) of the array that is finally bound to _data; '
         '(subvec) a sub-vector, its scaler and its adder are the same slice of the parent; (who) _data, '
         '_views, .view and .flat are only rebound by the tabled initialisers; (roundtrip) = C08.vec. '
         'Does not decide floating point round-off, PETSc/MPI vectors or the indexer classes.',
         ['PETScVector (MPI only) is out of scope', 'System._name_shape_iter yields the variables of a '
          'subsystem contiguously and in the parent order (needed by the first-name offset idiom)',
          'ndarray basic slicing, .view(), .reshape() of a contiguous 1-D slice and .real alias their base'])


def _E(text):
    return ast.parse(text, mode='eval').body


def _K(text):
    return astx.dump(_E(text))


# --------------------------------------------------------------------------- functional AST copy
def _copy_with(node, hook):
    """Structural copy of an AST; hook(node) may return a replacement (already a fresh tree)."""
    if isinstance(node, ast.AST):
        r = hook(node)
        if r is not None:
            return r
        new = node.__class__()
        for f in node._fields:
            if hasattr(node, f):
                setattr(new, f, _copy_with(getattr(node, f), hook))
        return new
    if isinstance(node, list):
        return [_copy_with(x, hook) for x in node]
    return node


def _copy(node):
    return _copy_with(node, lambda n: None)


def _subst(expr, env):
    def hook(n):
        if isinstance(n, ast.Name) and n.id in env:
            return _copy(env[n.id])
        if isinstance(n, ast.Lambda):
            return _copy(n) if False else None
        return None
    return _copy_with(expr, hook)


def _replace(expr, target, repl):
    return _copy_with(expr, lambda n: _copy(repl) if n is target else None)


def _strip_real(expr):
    """Remove every `.real` projection and map complex literals to their real part."""
    def hook(n):
        if isinstance(n, ast.Attribute) and n.attr == 'real':
            return _copy_with(n.value, hook)
        if isinstance(n, ast.Constant) and isinstance(n.value, complex):
            return ast.Constant(value=n.value.real)
        return None
    return _copy_with(expr, hook)


# --------------------------------------------------------------------------- symbolic executor
class Unsup(Exception):
    def __init__(self, node, why):
        Exception.__init__(self, why)
        self.node, self.why = node, why


class Ev:
    __slots__ = ('kind', 'a', 'b', 'op', 'stmt')

    def __init__(self, kind, a=None, b=None, op=None, stmt=None):
        self.kind, self.a, self.b, self.op, self.stmt = kind, a, b, op, stmt

    def key(self):
        return (self.kind, self.op, astx.dump(self.a) if isinstance(self.a, ast.AST) else self.a,
                astx.dump(self.b) if isinstance(self.b, ast.AST) else self.b)


class St:
    def __init__(self, env=None, pc=(), events=None, done=None):
        self.env = dict(env or {})
        self.pc = tuple(pc)
        self.events = list(events or [])
        self.done = done

    def fork(self):
        return St(self.env, self.pc, self.events, self.done)


def _truth(test, flags, known):
    """(value, None) if decided, else (None, (atom key, negated))."""
    if isinstance(test, ast.UnaryOp) and isinstance(test.op, ast.Not):
        v, atom = _truth(test.operand, flags, known)
        if v is not None:
            return (not v), None
        return None, (atom[0], not atom[1])
    if isinstance(test, ast.Constant):
        return bool(test.value), None
    k = astx.dump(test)
    if k in flags:
        return flags[k], None
    if k in known:
        return known[k], None
    return None, (k, False)


def _decide(test, st, flags):
    val, atom = _truth(test, flags, dict(st.pc))
    if val is not None:
        yield val, st
        return
    key, neg = atom
    for choice in (True, False):
        s2 = st.fork()
        s2.pc = st.pc + ((key, choice),)
        yield (choice != neg), s2


def _eval(expr, st, flags):
    """Yield (expression with locals substituted and conditional expressions resolved, state)."""
    yield from _resolve(_subst(expr, st.env), st, flags)


def _resolve(e, st, flags):
    tgt = next((n for n in astx.walk(ast.Expr(value=e)) if isinstance(n, ast.IfExp)), None)
    if tgt is None:
        yield e, st
        return
    for val, s2 in _decide(tgt.test, st, flags):
        yield from _resolve(_replace(e, tgt, tgt.body if val else tgt.orelse), s2, flags)


def _bind(st, targets, value, stmt):
    """Assignment of `value` (already evaluated) to the targets of an Assign."""
    names = [t for t in targets if isinstance(t, ast.Name)]
    others = [t for t in targets if not isinstance(t, ast.Name)]
    alias = value
    for t in others:
        if isinstance(t, (ast.Tuple, ast.List)):
            elts = t.elts
            if not all(isinstance(x, ast.Name) for x in elts):
                raise Unsup(stmt, 'unpacking into non-local targets')
            if isinstance(value, (ast.Tuple, ast.List)) and len(value.elts) == len(elts):
                vals = list(value.elts)
            else:
                vals = [ast.Subscript(value=_copy(value), slice=ast.Constant(value=i), ctx=ast.Load())
                        for i in range(len(elts))]
            for x, v in zip(elts, vals):
                st.env[x.id] = v
        else:
            tt = _subst(t, st.env)
            st.events.append(Ev('store', tt, value, stmt=stmt))
            if not isinstance(value, ast.Constant) and isinstance(t, ast.Attribute) and alias is value:
                alias = tt   # `self._views = views = {}`: the local name denotes the attribute's object
    for t in names:
        st.env[t.id] = alias


def _step(s, st, flags):
    if astx.is_docstring(s) or isinstance(s, ast.Pass):
        yield st
    elif isinstance(s, ast.Expr):
        v = s.value
        if isinstance(v, ast.Yield):
            if v.value is None:
                st.events.append(Ev('yield', None, stmt=s))
                yield st
            else:
                for e, s2 in _eval(v.value, st, flags):
                    s2.events.append(Ev('yield', e, stmt=s))
                    yield s2
        elif isinstance(v, ast.Call):
            for e, s2 in _eval(v, st, flags):
                s2.events.append(Ev('call', e, stmt=s))
                yield s2
        else:
            raise Unsup(s, 'expression statement')
    elif isinstance(s, ast.Assign):
        if any(isinstance(n, (ast.Yield, ast.YieldFrom, ast.Await)) for n in astx.walk(s.value)):
            raise Unsup(s, 'yield expression')
        for e, s2 in _eval(s.value, st, flags):
            _bind(s2, s.targets, e, s)
            yield s2
    elif isinstance(s, ast.AugAssign):
        for e, s2 in _eval(s.value, st, flags):
            tgt = _subst(s.target, s2.env)
            s2.events.append(Ev('aug', tgt, e, op=type(s.op).__name__, stmt=s))
            yield s2
    elif isinstance(s, ast.If):
        for val, s2 in _decide(_subst(s.test, st.env), st, flags):
            yield from _block(s.body if val else s.orelse, s2, flags)
    elif isinstance(s, ast.For):
        if s.orelse:
            raise Unsup(s, 'for/else')
        if any(isinstance(x, (ast.Break, ast.Continue)) for x in astx.walk_stmts(s.body)):
            raise Unsup(s, 'break/continue')
        for it, s2 in _eval(s.iter, st, flags):
            for t in astx.assigned_targets(s):
                if isinstance(t, ast.Name):
                    s2.env.pop(t.id, None)
            s2.events.append(Ev('for', it, _copy(s.target), stmt=s))
            for s3 in _block(s.body, s2, flags):
                if not s3.done:
                    s3.events.append(Ev('endfor', stmt=s))
                yield s3
    elif isinstance(s, ast.Return):
        if s.value is None:
            st.events.append(Ev('return', None, stmt=s))
            st.done = 'return'
            yield st
        else:
            for e, s2 in _eval(s.value, st, flags):
                s2.events.append(Ev('return', e, stmt=s))
                s2.done = 'return'
                yield s2
    elif isinstance(s, ast.Raise):
        st.events.append(Ev('raise', None, stmt=s))
        st.done = 'raise'
        yield st
    else:
        raise Unsup(s, f'{type(s).__name__} statement')


def _block(stmts, st, flags):
    if not stmts:
        yield st
        return
    for s2 in _step(stmts[0], st, flags):
        if s2.done:
            yield s2
        else:
            yield from _block(stmts[1:], s2, flags)


def paths(fn, flags=None):
    """All symbolic paths through a function: list of St."""
    out = list(_block(list(fn.node.body), St(), dict(flags or {})))
    if len(out) > 64:
        raise Unsup(fn.node, 'too many paths')
    return out


def params(fn):
    a = fn.node.args
    return [x.arg for x in a.posonlyargs + a.args]


def default_of(fn, pname):
    a = fn.node.args
    pos = a.posonlyargs + a.args
    names = [x.arg for x in pos]
    if pname not in names:
        return None
    i = names.index(pname) - (len(pos) - len(a.defaults))
    return a.defaults[i] if i >= 0 else None


# --------------------------------------------------------------------------- data expressions
_COPY_FUNCS = ('np.array', 'np.copy', 'numpy.array', 'numpy.copy')
_COPY_METHS = ('copy', 'flatten', 'astype', 'tolist')


def self_kind(e):
    """'live' / 'copy' / 'raw' for an expression denoting this vector's flat data, else None."""
    if isinstance(e, ast.Call):
        nm = astx.call_name(e)
        if nm == 'self.asarray':
            if not e.args and not e.keywords:
                return 'live'
            c = astx.arg(e, 0, 'copy')
            if isinstance(c, ast.Constant) and len(e.args) + len(e.keywords) == 1:
                return 'copy' if c.value else 'live'
            return None
        if nm == 'self._get_data' and not e.args and not e.keywords:
            return 'live'
        f = e.func
        if isinstance(f, ast.Attribute) and f.attr in _COPY_METHS:
            return 'copy' if self_kind(f.value) else None
        if nm in _COPY_FUNCS and e.args:
            return 'copy' if self_kind(e.args[0]) else None
        return None
    if astx.path(e) == 'self._data':
        return 'raw'
    return None


def operand_of(e, pname):
    """True if e reads the flat data of the Vector parameter `pname` (asarray(...) / _get_data())."""
    return isinstance(e, ast.Call) and isinstance(e.func, ast.Attribute) and \
        e.func.attr in ('asarray', '_get_data') and isinstance(e.func.value, ast.Name) and \
        e.func.value.id == pname


def is_full(idx):
    if idx is None:
        return True
    if isinstance(idx, ast.Slice):
        return idx.lower is None and idx.upper is None and idx.step is None
    if isinstance(idx, ast.Name) and idx.id == '_full_slice':
        return True
    return astx.dump(idx) == _K('slice(None)')


def is_name(e, nm):
    return isinstance(e, ast.Name) and e.id == nm


_DELEGATE = {'iadd': 'Add', 'isub': 'Sub', 'imul': 'Mult'}
_OPTXT = {'Add': '+=', 'Sub': '-=', 'Mult': '*=', 'Div': '/='}


class Eff:
    """Normalised effect of one event on this vector's data."""

    def __init__(self, kind, ev, op=None, skind=None, idx=None, val=None):
        self.kind, self.ev, self.op, self.skind, self.idx, self.val = kind, ev, op, skind, idx, val


def effects(st):
    out = []
    for ev in st.events:
        if ev.kind == 'aug':
            t = ev.a
            if isinstance(t, ast.Subscript) and self_kind(t.value):
                out.append(Eff('inplace', ev, ev.op, self_kind(t.value), t.slice, ev.b))
            elif self_kind(t):
                out.append(Eff('inplace', ev, ev.op, self_kind(t), None, ev.b))
            else:
                out.append(Eff('other', ev))
        elif ev.kind == 'store':
            t = ev.a
            if isinstance(t, ast.Subscript) and self_kind(t.value):
                out.append(Eff('set', ev, None, self_kind(t.value), t.slice, ev.b))
            elif astx.path(t) == 'self._data':
                out.append(Eff('rebind', ev))
            else:
                out.append(Eff('other', ev))
        elif ev.kind == 'call':
            c = ev.a
            m = astx.callee_attr(c)
            if astx.path(astx.receiver(c)) == 'self' and m in _DELEGATE and not c.keywords and \
                    1 <= len(c.args) <= 2:
                out.append(Eff('inplace', ev, _DELEGATE[m], 'live', c.args[1] if len(c.args) == 2 else None,
                               c.args[0]))
            elif astx.path(astx.receiver(c)) == 'self' and m == 'set_val' and not c.keywords and \
                    1 <= len(c.args) <= 2:
                out.append(Eff('set', ev, None, 'live', c.args[1] if len(c.args) == 2 else None, c.args[0]))
            elif astx.path(astx.receiver(c)) == 'self' and m == 'set_vec' and not c.keywords and \
                    len(c.args) == 1 and isinstance(c.args[0], ast.Name):
                v = ast.Call(func=ast.Attribute(value=_copy(c.args[0]), attr='asarray', ctx=ast.Load()),
                             args=[], keywords=[])
                out.append(Eff('set', ev, None, 'live', None, v))
            else:
                out.append(Eff('other', ev))
        elif ev.kind == 'return':
            out.append(Eff('return', ev, val=ev.a))
        elif ev.kind == 'raise':
            out.append(Eff('raise', ev))
        else:
            out.append(Eff('other', ev))
    return out


class Chk:
    """Verdict collector for one method: at most one verdict is emitted."""

    def __init__(self, out, fn, label):
        self.out, self.fn, self.label = out, fn, label
        self.state = None

    def bad(self, node, why, key):
        if self.state != 'bad':
            self.out.bad(self.fn, node, f'{self.fn.qualname}: {why}', key=f'{self.label}-{key}')
        self.state = 'bad'

    def unsure(self, node, why):
        if self.state is None:
            self.out.unsure(self.fn, node, f'{self.fn.qualname}: {why}')
            self.state = 'unsure'

    def ok(self, node, why):
        if self.state is None:
            self.out.ok(self.fn, node, why)
            self.state = 'ok'


def _stmt(e):
    return e.ev.stmt if e is not None else None


def check_update(chk, effs, kind, op, want_idx, val_check, allow_raw=False):
    """Exactly one data effect of `kind` ('inplace'/'set') with operator, index and value as declared.

    want_idx: parameter name of the index, or None for the whole array.
    val_check(expr) -> None (ok) | ('bad'|'unsure', message).
    """
    fn = chk.fn
    data = [e for e in effs if e.kind in ('inplace', 'set', 'rebind')]
    other = [e for e in effs if e.kind == 'other']
    if other:
        chk.unsure(_stmt(other[0]), f'unrecognised statement `{astx.src(_stmt(other[0]))}`')
        return
    if not data:
        chk.bad(fn.node, 'no in-place update of the vector data on this path (a rebinding such as '
                '`data = data + x` leaves the vector unchanged)', 'no-effect')
        return
    if len(data) > 1:
        chk.bad(_stmt(data[1]), 'the data is updated more than once', 'twice')
        return
    e = data[0]
    st = _stmt(e)
    if e.kind == 'rebind':
        chk.bad(st, 'rebinds self._data: the named views and the parent vector keep the old array', 'rebind')
        return
    if e.kind != kind:
        chk.bad(st, ('overwrites the data instead of accumulating' if kind == 'inplace' else
                     'accumulates into the data instead of overwriting it'), 'operator')
        return
    if kind == 'inplace' and e.op != op:
        chk.bad(st, f'uses `{_OPTXT.get(e.op, e.op)}` where `{_OPTXT[op]}` is required', 'operator')
        return
    if e.skind == 'copy':
        chk.bad(st, 'operates on a copy of the data, the vector itself is unchanged', 'copy')
        return
    if e.skind == 'raw' and not allow_raw:
        chk.unsure(st, 'operates on self._data instead of self.asarray()')
        return
    if want_idx is None:
        if not is_full(e.idx):
            chk.bad(st, f'only updates `[{astx.src(e.idx)}]` although the whole vector is addressed', 'index')
            return
    else:
        if is_full(e.idx):
            chk.bad(st, f'ignores the `{want_idx}` argument and updates the whole array', 'index')
            return
        if not is_name(e.idx, want_idx):
            if want_idx in astx.names(e.idx):
                chk.unsure(st, f'index `{astx.src(e.idx)}` is derived from `{want_idx}`')
            else:
                chk.bad(st, f'indexes with `{astx.src(e.idx)}` instead of `{want_idx}`', 'index')
            return
    r = val_check(e.val)
    if r is not None:
        if r[0] == 'bad':
            chk.bad(st, r[1], 'operand')
        else:
            chk.unsure(st, r[1])


def val_is_param(p):
    def chk(v):
        if is_name(v, p):
            return None
        if p in astx.names(v):
            return 'unsure', f'operand `{astx.src(v)}` is derived from `{p}`'
        return 'bad', f'operand is `{astx.src(v)}` instead of `{p}`'
    return chk


def val_is_vec(p):
    def chk(v):
        if operand_of(v, p):
            return None
        if p in astx.names(v):
            return 'unsure', f'operand `{astx.src(v)}` is not `{p}.asarray()`'
        return 'bad', f'operand is `{astx.src(v)}` instead of the data of `{p}`'
    return chk


def check_returns(chk, effs, want):
    """want: 'none' (no value), 'self'."""
    rets = [e for e in effs if e.kind == 'return']
    if want == 'self':
        if not rets or not is_name(rets[-1].val, 'self'):
            chk.bad(_stmt(rets[-1]) if rets else chk.fn.node, 'an in-place operator must return self '
                    '(`v += x` rebinds v to the returned value)', 'return')
    elif want == 'none':
        if rets and rets[-1].val is not None and not (isinstance(rets[-1].val, ast.Constant) and
                                                    rets[-1].val.value is None):
            chk.unsure(_stmt(rets[-1]), 'unexpected return value')


def _paths_or_unsure(chk, flags=None):
    try:
        return paths(chk.fn, flags)
    except Unsup as u:
        chk.unsure(u.node, f'not analysable: {u.why}')
        return None


# --------------------------------------------------------------------------- opname
def _resolve_default(repo, fn, expr, depth=0):
    """Follow a module level name (through `from x import y`) to its defining expression."""
    if not isinstance(expr, ast.Name) or depth > 4:
        return expr
    m = fn.module if hasattr(fn, 'module') else fn
    for st in m.tree.body:
        if isinstance(st, ast.Assign) and any(is_name(t, expr.id) for t in st.targets):
            return st.value
    imp = m.imports.get(expr.id)
    if imp and imp[1]:
        rel = imp[0].replace('.', '/') + '.py'
        if repo.exists(rel):
            return _resolve_default(repo, repo.module(rel), ast.Name(id=imp[1], ctx=ast.Load()), depth + 1)
    return expr


def _check_default(repo, chk, pname):
    d = default_of(chk.fn, pname)
    if d is None:
        chk.bad(chk.fn.node, f'`{pname}` has no default: set_vec/iadd(...) without index address the whole '
                'array', 'default')
        return
    v = _resolve_default(repo, chk.fn, d)
    if astx.dump(v) == _K('slice(None)'):
        return
    if isinstance(v, ast.Call) and astx.call_name(v) == 'slice':
        chk.bad(chk.fn.node, f'default of `{pname}` is `{astx.src(v)}`, not the full slice', 'default')
    else:
        chk.unsure(chk.fn.node, f'default of `{pname}` not resolved to slice(None): `{astx.src(v)}`')


def _single_path(chk):
    ps = _paths_or_unsure(chk)
    if ps is None:
        return None
    if len(ps) != 1:
        chk.unsure(chk.fn.node, f'{len(ps)} paths where straight-line code was expected')
        return None
    return effects(ps[0])


def _op_indexed(repo, out, name, op):
    fn = repo.func(DVEC, f'DefaultVector.{name}')
    chk = Chk(out, fn, name)
    ps = params(fn)
    if len(ps) != 3:
        chk.unsure(fn.node, 'signature is not (self, val, idxs)')
        return
    effs = _single_path(chk)
    if effs is None:
        return
    if op is None:
        check_update(chk, effs, 'set', None, ps[2], val_is_param(ps[1]), allow_raw=True)
    else:
        check_update(chk, effs, 'inplace', op, ps[2], val_is_param(ps[1]))
    check_returns(chk, effs, 'none')
    if chk.state is None:
        _check_default(repo, chk, ps[2])
    what = f'data[{ps[2]}] {_OPTXT[op]} {ps[1]}' if op else f'data[{ps[2]}] = {ps[1]}'
    chk.ok(fn.node, f'{what} on the live array; default index is slice(None)')


def _op_dunder(repo, out, name, op):
    fn = repo.func(DVEC, f'DefaultVector.{name}')
    chk = Chk(out, fn, name)
    ps = params(fn)
    if len(ps) != 2:
        chk.unsure(fn.node, 'signature is not (self, other)')
        return
    p = ps[1]
    sts = _paths_or_unsure(chk)
    if sts is None:
        return
    atom = _K(f'isinstance({p}, Vector)')
    seen = set()
    for st in sts:
        pc = dict(st.pc)
        if set(pc) != {atom}:
            chk.unsure(fn.node, 'branches are not selected by isinstance(other, Vector) alone')
            return
        seen.add(pc[atom])
        effs = effects(st)
        if pc[atom]:
            check_update(chk, effs, 'inplace', op, None, val_is_vec(p))
        else:
            check_update(chk, effs, 'inplace', op, None, val_is_param(p))
        check_returns(chk, effs, 'self')
    if seen != {True, False}:
        chk.unsure(fn.node, 'expected a Vector branch and a scalar/array branch')
    chk.ok(fn.node, f'Vector operand: data {_OPTXT[op]} other.asarray(); otherwise data {_OPTXT[op]} other; '
           'returns self')


def _val_scal_vec(pv, pvec):
    def chk(v):
        if isinstance(v, ast.BinOp):
            sides = (v.left, v.right)
            has_val = any(is_name(s, pv) for s in sides)
            has_vec = any(operand_of(s, pvec) for s in sides)
            if has_val and has_vec:
                if isinstance(v.op, ast.Mult):
                    return None
                return 'bad', f'combines `{pv}` and `{pvec}` with `{type(v.op).__name__}` instead of a product'
        if operand_of(v, pvec) or is_name(v, pvec):
            return 'bad', f'the scalar `{pv}` is dropped'
        if is_name(v, pv):
            return 'bad', f'the vector `{pvec}` is dropped'
        nm = astx.names(v)
        if pv not in nm:
            return 'bad', f'the scalar `{pv}` is not used'
        if pvec not in nm:
            return 'bad', f'the vector `{pvec}` is not used'
        return 'unsure', f'operand `{astx.src(v)}` is not `{pv} * {pvec}.asarray()`'
    return chk


def _read_kind(chk, e, st):
    """Classify a read of this vector's data: True ok, False handled (verdict emitted)."""
    k = self_kind(e)
    if k in ('live', 'copy'):
        return True
    if k == 'raw':
        chk.unsure(st, 'reads self._data (may carry a stale imaginary part) instead of self.asarray()')
    return False


_FLAT_FORMS = ('flat', 'ravel', 'flatten')


def _val_flat_of(p):
    def chk(v):
        x = v
        if isinstance(x, ast.Call) and isinstance(x.func, ast.Attribute) and x.func.attr in _FLAT_FORMS \
                and not x.args:
            x = x.func.value
        elif isinstance(x, ast.Attribute) and x.attr in _FLAT_FORMS:
            x = x.value
        elif isinstance(x, ast.Call) and astx.call_name(x) in ('np.ravel', 'numpy.ravel') and len(x.args) == 1:
            x = x.args[0]
        if is_name(x, p):
            return None
        if p in astx.names(v):
            return 'unsure', f'operand `{astx.src(v)}` is derived from `{p}`'
        return 'bad', f'operand is `{astx.src(v)}` instead of `{p}`'
    return chk


def _ret_expr(chk, effs):
    other = [e for e in effs if e.kind not in ('return',)]
    if other:
        if other[0].kind in ('inplace', 'set', 'rebind'):
            chk.bad(_stmt(other[0]), 'a read-only query modifies the vector', 'mutates')
        else:
            chk.unsure(_stmt(other[0]), f'unrecognised statement `{astx.src(_stmt(other[0]))}`')
        return None
    rets = [e for e in effs if e.kind == 'return']
    if not rets or rets[-1].val is None:
        chk.bad(chk.fn.node, 'returns no value', 'return')
        return None
    return rets[-1]


def _sq_norm_arg(e):
    """x if e is a recognised form of sum(x**2), else None."""
    if isinstance(e, ast.Call):
        nm = astx.call_name(e)
        if nm in ('np.dot', 'numpy.dot', 'np.inner', 'np.vdot') and len(e.args) == 2 and \
                astx.same(e.args[0], e.args[1]):
            return e.args[0]
        if nm in ('np.sum', 'numpy.sum', 'sum') and len(e.args) == 1:
            a = e.args[0]
            if isinstance(a, ast.BinOp) and isinstance(a.op, ast.Pow) and isinstance(a.right, ast.Constant) \
                    and a.right.value == 2:
                return a.left
            if isinstance(a, ast.BinOp) and isinstance(a.op, ast.Mult) and astx.same(a.left, a.right):
                return a.left
        if isinstance(e.func, ast.Attribute) and e.func.attr == 'dot' and len(e.args) == 1 and \
                astx.same(e.func.value, e.args[0]):
            return e.args[0]
    return None


@rule('C33.opname', floor=13)
def opname(repo, out):
    """Each arithmetic method performs the NumPy operation its name promises, in place on asarray()."""
    _op_indexed(repo, out, 'iadd', 'Add')
    _op_indexed(repo, out, 'isub', 'Sub')
    _op_indexed(repo, out, 'imul', 'Mult')
    _op_indexed(repo, out, 'set_val', None)
    _op_dunder(repo, out, '__iadd__', 'Add')
    _op_dunder(repo, out, '__isub__', 'Sub')
    _op_dunder(repo, out, '__imul__', 'Mult')

    # add_scal_vec(val, vec): data += val * vec.asarray()
    fn = repo.func(DVEC, 'DefaultVector.add_scal_vec')
    chk = Chk(out, fn, 'add_scal_vec')
    ps = params(fn)
    effs = _single_path(chk) if len(ps) == 3 else chk.unsure(fn.node, 'signature is not (self, val, vec)')
    if effs is not None:
        check_update(chk, effs, 'inplace', 'Add', None, _val_scal_vec(ps[1], ps[2]))
        check_returns(chk, effs, 'none')
        chk.ok(fn.node, f'data += {ps[1]} * {ps[2]}.asarray()')

    # set_vec(vec): data[:] = vec.asarray()
    fn = repo.func(DVEC, 'DefaultVector.set_vec')
    chk = Chk(out, fn, 'set_vec')
    ps = params(fn)
    effs = _single_path(chk) if len(ps) == 2 else chk.unsure(fn.node, 'signature is not (self, vec)')
    if effs is not None:
        check_update(chk, effs, 'set', None, None, val_is_vec(ps[1]), allow_raw=True)
        check_returns(chk, effs, 'none')
        chk.ok(fn.node, f'data[:] = {ps[1]}.asarray() (through set_val)')

    # dot(vec)
    fn = repo.func(DVEC, 'DefaultVector.dot')
    chk = Chk(out, fn, 'dot')
    ps = params(fn)
    effs = _single_path(chk) if len(ps) == 2 else chk.unsure(fn.node, 'signature is not (self, vec)')
    if effs is not None:
        r = _ret_expr(chk, effs)
        if r is not None:
            v = r.val
            a = b = None
            if isinstance(v, ast.Call) and astx.call_name(v) in ('np.dot', 'numpy.dot', 'np.inner', 'numpy.inner') \
                    and len(v.args) == 2 and not v.keywords:
                a, b = v.args
            elif isinstance(v, ast.Call) and isinstance(v.func, ast.Attribute) and v.func.attr == 'dot' and \
                    len(v.args) == 1 and not v.keywords:
                a, b = v.func.value, v.args[0]
            elif isinstance(v, ast.BinOp) and isinstance(v.op, ast.MatMult):
                a, b = v.left, v.right
            if a is None:
                chk.unsure(_stmt(r), f'`{astx.src(v)}` is not a recognised dot product')
            else:
                s = [x for x in (a, b) if self_kind(x)]
                o = [x for x in (a, b) if operand_of(x, ps[1])]
                if len(s) == 2:
                    chk.bad(_stmt(r), f'dots the vector with itself, `{ps[1]}` is ignored', 'operand')
                elif len(o) == 2:
                    chk.bad(_stmt(r), f'dots `{ps[1]}` with itself, self is ignored', 'operand')
                elif len(s) == 1 and len(o) == 1:
                    if _read_kind(chk, s[0], _stmt(r)):
                        chk.ok(_stmt(r), f'np.dot(self.asarray(), {ps[1]}.asarray())')
                else:
                    chk.unsure(_stmt(r), f'operands of `{astx.src(v)}` not recognised')

    # get_norm()
    fn = repo.func(DVEC, 'DefaultVector.get_norm')
    chk = Chk(out, fn, 'get_norm')
    effs = _single_path(chk)
    if effs is not None:
        r = _ret_expr(chk, effs)
        if r is not None:
            v = r.val
            x = None
            if isinstance(v, ast.Call) and astx.call_name(v) in ('np.linalg.norm', 'numpy.linalg.norm') and v.args:
                o = astx.arg(v, 1, 'ord')
                extra = [k.arg for k in v.keywords if k.arg != 'ord']
                if extra or len(v.args) > 2:
                    chk.unsure(_stmt(r), f'extra arguments in `{astx.src(v)}`')
                elif o is not None and not (isinstance(o, ast.Constant) and o.value in (None, 2)):
                    if isinstance(o, ast.Constant) or astx.dump(o) in (_K('np.inf'), _K('-np.inf')):
                        chk.bad(_stmt(r), f'computes the norm of order `{astx.src(o)}` instead of the 2-norm',
                                'operand')
                    else:
                        chk.unsure(_stmt(r), f'norm order `{astx.src(o)}` not recognised')
                else:
                    x = v.args[0]
            elif isinstance(v, ast.Call) and astx.call_name(v) in ('np.sqrt', 'numpy.sqrt', 'math.sqrt') and \
                    len(v.args) == 1 and _sq_norm_arg(v.args[0]) is not None:
                x = _sq_norm_arg(v.args[0])
            elif isinstance(v, ast.BinOp) and isinstance(v.op, ast.Pow) and isinstance(v.right, ast.Constant) and \
                    v.right.value == 0.5 and _sq_norm_arg(v.left) is not None:
                x = _sq_norm_arg(v.left)
            elif _sq_norm_arg(v) is not None:
                chk.bad(_stmt(r), 'returns the squared norm (square root missing)', 'operand')
            else:
                chk.unsure(_stmt(r), f'`{astx.src(v)}` is not a recognised 2-norm')
            if x is not None and chk.state is None:
                if self_kind(x) is None:
                    chk.bad(_stmt(r), f'takes the norm of `{astx.src(x)}`, not of this vector', 'operand') \
                        if 'self' not in astx.names(x) else chk.unsure(_stmt(r), f'argument `{astx.src(x)}`')
                elif _read_kind(chk, x, _stmt(r)):
                    chk.ok(_stmt(r), 'np.linalg.norm(self.asarray())')

    # get_slice(slc) / add_to_slice(slc, val) in the base class
    fn = repo.func(VEC, 'Vector.get_slice')
    chk = Chk(out, fn, 'get_slice')
    ps = params(fn)
    effs = _single_path(chk) if len(ps) == 2 else chk.unsure(fn.node, 'signature is not (self, slc)')
    if effs is not None:
        r = _ret_expr(chk, effs)
        if r is not None:
            v = r.val
            if isinstance(v, ast.Subscript) and self_kind(v.value):
                if not is_name(v.slice, ps[1]):
                    if ps[1] in astx.names(v.slice):
                        chk.unsure(_stmt(r), f'index `{astx.src(v.slice)}`')
                    else:
                        chk.bad(_stmt(r), f'returns `[{astx.src(v.slice)}]` instead of `[{ps[1]}]`', 'index')
                elif _read_kind(chk, v.value, _stmt(r)):
                    chk.ok(_stmt(r), f'self.asarray()[{ps[1]}]')
            elif self_kind(v):
                chk.bad(_stmt(r), f'returns the whole array, `{ps[1]}` is ignored', 'index')
            else:
                chk.unsure(_stmt(r), f'`{astx.src(v)}` not recognised')

    fn = repo.func(VEC, 'Vector.add_to_slice')
    chk = Chk(out, fn, 'add_to_slice')
    ps = params(fn)
    effs = _single_path(chk) if len(ps) == 3 else chk.unsure(fn.node, 'signature is not (self, slc, val)')
    if effs is not None:
        check_update(chk, effs, 'inplace', 'Add', ps[1], _val_flat_of(ps[2]))
        check_returns(chk, effs, 'none')
        chk.ok(fn.node, f'self.asarray()[{ps[1]}] += {ps[2]}.flat')


# --------------------------------------------------------------------------- alias (complex-step gate)
_DATA_ATTRS = ('view', 'flat', '_data')
CS = 'self._under_complex_step'


def _spine(e):
    """Nodes of the access chain of e from the top down (Attribute / Subscript / method Call)."""
    out = []
    while True:
        out.append(e)
        if isinstance(e, ast.Attribute):
            e = e.value
        elif isinstance(e, ast.Subscript):
            e = e.value
        elif isinstance(e, ast.Call) and isinstance(e.func, ast.Attribute):
            e = e.func
        else:
            return out


def data_chains(e):
    """Maximal access chains in e that read a data attribute (view/flat/_data)."""
    found = []

    def rec(n):
        if isinstance(n, (ast.Attribute, ast.Subscript)) or \
                (isinstance(n, ast.Call) and isinstance(n.func, ast.Attribute)):
            sp = _spine(n)
            if any(isinstance(x, ast.Attribute) and x.attr in _DATA_ATTRS for x in sp):
                found.append(n)
                for x in sp:   # arguments and indices hang off the spine
                    if isinstance(x, ast.Subscript):
                        rec(x.slice)
                    elif isinstance(x, ast.Call):
                        for a in x.args:
                            rec(a)
                        for k in x.keywords:
                            rec(k.value)
                return
        for c in ast.iter_child_nodes(n):
            rec(c)
    if e is not None:
        rec(e)
    return found


def real_wrapped(chain):
    """True if a `.real` projection sits above the data attribute on the chain."""
    seen_real = False
    for x in _spine(chain):
        if isinstance(x, ast.Attribute):
            if x.attr == 'real':
                seen_real = True
            elif x.attr in _DATA_ATTRS:
                return seen_real
    return False


def has_real(e):
    return e is not None and any(isinstance(n, ast.Attribute) and n.attr == 'real' for n in ast.walk(e))


def _ev_exprs(ev):
    return [x for x in (ev.a, ev.b) if isinstance(x, ast.AST)]


def cs_gate(chk):
    """Compare the complex-step and the real side of a method path by path.

    Returns {pc: (events under complex step, events otherwise)} or None (verdict emitted).
    """
    fn = chk.fn
    key = _K(CS)
    try:
        on = paths(fn, {key: True})
        off = paths(fn, {key: False})
    except Unsup as u:
        chk.unsure(u.node, f'not analysable: {u.why}')
        return None
    d_on = {frozenset(s.pc): s for s in on}
    d_off = {frozenset(s.pc): s for s in off}
    if set(d_on) != set(d_off) or len(d_on) != len(on) or len(d_off) != len(off):
        chk.unsure(fn.node, 'the two sides of the complex-step gate branch on different conditions')
        return None
    n_data = 0
    for pc, s_on in d_on.items():
        s_off = d_off[pc]
        if len(s_on.events) != len(s_off.events) or \
                any(a.kind != b.kind or a.op != b.op for a, b in zip(s_on.events, s_off.events)):
            chk.bad(fn.node, 'with and without complex step the method performs different operations '
                    f'(condition {sorted(pc)})', 'gate-shape')
            return None
        for a, b in zip(s_on.events, s_off.events):
            for x in _ev_exprs(a):
                if has_real(x):
                    chk.bad(a.stmt, f'under complex step `{astx.src(x)}` takes `.real`: the imaginary part is '
                            'dropped, named access no longer aliases the complex array asarray() exposes',
                            'gate-cs-real')
                    return None
                n_data += len(data_chains(x))
            for x in _ev_exprs(b):
                for c in data_chains(x):
                    if not real_wrapped(c):
                        chk.bad(b.stmt, f'without complex step `{astx.src(c)}` exposes the complex storage '
                                'instead of its `.real` view (asarray() returns the real view)', 'gate-real')
                        return None
            xa, xb = _ev_exprs(a), _ev_exprs(b)
            if len(xa) != len(xb):
                chk.bad(a.stmt, 'the two sides of the complex-step gate differ in shape', 'gate-shape')
                return None
            for p, q in zip(xa, xb):
                if astx.dump(_strip_real(p)) != astx.dump(_strip_real(q)):
                    ca = [astx.dump(_strip_real(c)) for c in data_chains(p)]
                    cb = [astx.dump(_strip_real(c)) for c in data_chains(q)]
                    if ca != cb:
                        chk.bad(b.stmt, f'complex-step side reads `{astx.src(p)}` but the real side reads '
                                f'`{astx.src(q)}`: they must differ by the `.real` projection only', 'gate-differs')
                    else:
                        chk.unsure(b.stmt, f'`{astx.src(p)}` vs `{astx.src(q)}` differ in more than `.real`')
                    return None
    if not n_data:
        chk.unsure(fn.node, 'no data access found under the complex-step gate')
        return None
    return {pc: (d_on[pc].events, d_off[pc].events) for pc in d_on}


def _unwrap_copy(e):
    """(inner, True) if e is a recognised copy of inner, else (e, False)."""
    if isinstance(e, ast.Call):
        if isinstance(e.func, ast.Attribute) and e.func.attr == 'copy' and not e.args and not e.keywords:
            return e.func.value, True
        if astx.call_name(e) in _COPY_FUNCS and len(e.args) == 1:
            return e.args[0], True
    return e, False


def _last_return(events):
    r = [e for e in events if e.kind == 'return']
    return r[-1] if r else None


@rule('C33.alias', floor=11)
def alias(repo, out):
    """Named access and asarray() expose the same storage; complex-step gates differ by `.real` only."""
    # generators: only the gate
    for qn in ('Vector.values', 'Vector.items', 'Vector._abs_item_iter'):
        fn = repo.func(VEC, qn)
        chk = Chk(out, fn, qn.split('.')[1])
        g = cs_gate(chk)
        if g is not None:
            chk.ok(fn.node, f'{len(g)} path(s): real side = complex side with `.real` applied to every data read')

    # asarray(copy) and _get_data()
    for qn, has_copy in (('DefaultVector.asarray', True), ('DefaultVector._get_data', False)):
        fn = repo.func(DVEC, qn)
        chk = Chk(out, fn, qn.split('.')[1])
        g = cs_gate(chk)
        if g is None:
            continue
        chk.ok(fn.node, f'{len(g)} path(s): `.real` view unless under complex step')
        chk = Chk(out, fn, qn.split('.')[1])
        ps = params(fn)
        flagsets = [({}, None)]
        if has_copy:
            if len(ps) != 2:
                chk.unsure(fn.node, 'signature is not (self, copy=False)')
                continue
            d = default_of(fn, ps[1])
            if not (isinstance(d, ast.Constant) and d.value is False):
                chk.bad(fn.node, f'`{ps[1]}` must default to False: every in-place operation relies on '
                        'asarray() returning the live array', 'asarray-default')
                continue
            flagsets = [({_K(ps[1]): True}, True), ({_K(ps[1]): False}, False)]
        for fl, want_copy in flagsets:
            fl = dict(fl)
            fl[_K(CS)] = True
            try:
                sts = paths(fn, fl)
            except Unsup as u:
                chk.unsure(u.node, u.why)
                break
            if len(sts) != 1 or _last_return(sts[0].events) is None or \
                    any(e.kind != 'return' for e in sts[0].events):
                chk.unsure(fn.node, 'not a pure selection of the returned array')
                break
            r = _last_return(sts[0].events)
            inner, copied = _unwrap_copy(r.a) if r.a is not None else (None, False)
            if inner is None or astx.path(inner) != 'self._data':
                if r.a is not None and self_kind(r.a) is None and 'self' in astx.names(r.a):
                    chk.unsure(r.stmt, f'returns `{astx.src(r.a)}`')
                else:
                    chk.bad(r.stmt, f'returns `{astx.src(r.a)}` instead of self._data', 'asarray-source')
                break
            if want_copy is True and not copied:
                chk.bad(r.stmt, 'copy=True returns the live array: callers that snapshot the vector '
                        'see later updates', 'asarray-copy')
                break
            if want_copy in (False, None) and copied:
                chk.bad(r.stmt, 'returns a copy although no copy was requested: every in-place operation '
                        'is lost', 'asarray-copy')
                break
        chk.ok(fn.node, 'returns self._data itself' + (', a copy iff copy is set' if has_copy else ''))

    # _abs_get_val(name, flat)
    fn = repo.func(VEC, 'Vector._abs_get_val')
    chk = Chk(out, fn, '_abs_get_val')
    g = cs_gate(chk)
    if g is not None:
        chk.ok(fn.node, f'{len(g)} path(s): `.real` unless under complex step')
        chk = Chk(out, fn, '_abs_get_val')
        ps = params(fn)
        if len(ps) != 3:
            chk.unsure(fn.node, 'signature is not (self, name, flat)')
        else:
            nm, fl = ps[1], ps[2]
            base = f'self._views[{nm}]'
            scal = _K(f'{base}.is_scalar')
            for flat in (True, False):
                try:
                    sts = paths(fn, {_K(CS): True, _K(fl): flat})
                except Unsup as u:
                    chk.unsure(u.node, u.why)
                    break
                for st in sts:
                    pc = dict(st.pc)
                    r = _last_return(st.events)
                    if r is None or r.a is None or any(e.kind != 'return' for e in st.events) or \
                            set(pc) - {scal}:
                        chk.unsure(fn.node, 'unrecognised path')
                        break
                    got = astx.dump(r.a)
                    if flat:
                        want = [_K(f'{base}.flat')]
                    elif pc.get(scal) is True:
                        want = [_K(f'{base}.view.item()')]
                    elif pc.get(scal) is False:
                        want = [_K(f'{base}.view')]
                    else:
                        want = [_K(f'{base}.view')]
                    if got not in want:
                        alt = {_K(f'{base}.flat'), _K(f'{base}.view'), _K(f'{base}.view.item()')}
                        if got in alt or (isinstance(r.a, ast.Attribute) and r.a.attr in ('flat', 'view')):
                            chk.bad(r.stmt, f'flat={flat}: returns `{astx.src(r.a)}`; the flat flag must select '
                                    f'.flat and otherwise the shaped .view of variable `{nm}`', 'getval-select')
                        else:
                            chk.unsure(r.stmt, f'returns `{astx.src(r.a)}`')
                        break
            chk.ok(fn.node, f'flat -> _views[{nm}].flat, else .view (.item() for scalars)')

    # _abs_set_val(name, val, idx)
    fn = repo.func(VEC, 'Vector._abs_set_val')
    chk = Chk(out, fn, '_abs_set_val')
    g = cs_gate(chk)
    if g is not None:
        chk.ok(fn.node, f'{len(g)} path(s): stores through `.real` unless under complex step')
        chk = Chk(out, fn, '_abs_set_val')
        ps = params(fn)
        if len(ps) != 4:
            chk.unsure(fn.node, 'signature is not (self, name, val, idx)')
        else:
            for pc, (ev_on, _) in g.items():
                st = [e for e in ev_on if e.kind == 'store']
                if pc or len(st) != 1 or len(ev_on) != 1:
                    kinds = [e.kind for e in ev_on]
                    if 'store' not in kinds and 'aug' not in kinds and 'call' not in kinds:
                        chk.bad(fn.node, 'does not store into the view (a rebinding has no effect)', 'setval-store')
                    elif 'aug' in kinds:
                        chk.bad(fn.node, 'accumulates instead of storing', 'setval-store')
                    else:
                        chk.unsure(fn.node, 'unrecognised path')
                    break
                t, v = st[0].a, st[0].b
                if not isinstance(t, ast.Subscript):
                    chk.bad(st[0].stmt, f'rebinds `{astx.src(t)}` instead of storing into the view', 'setval-store')
                    break
                if astx.dump(t.value) not in (_K(f'self._views[{ps[1]}].view'), _K(f'self._views[{ps[1]}].flat')):
                    chk.unsure(st[0].stmt, f'target `{astx.src(t)}`')
                    break
                if not is_name(t.slice, ps[3]):
                    if is_full(t.slice) or ps[3] not in astx.names(t.slice):
                        chk.bad(st[0].stmt, f'ignores the index `{ps[3]}`', 'setval-index')
                    else:
                        chk.unsure(st[0].stmt, f'index `{astx.src(t.slice)}`')
                    break
                if not is_name(v, ps[2]):
                    if ps[2] in astx.names(v):
                        chk.unsure(st[0].stmt, f'value `{astx.src(v)}`')
                    else:
                        chk.bad(st[0].stmt, f'stores `{astx.src(v)}` instead of `{ps[2]}`', 'setval-value')
                    break
            chk.ok(fn.node, f'_views[{ps[1]}].view[{ps[3]}] = {ps[2]}')
