"""C02 -- forward and reverse linear operators are exact adjoints.

Every fwd/rev sibling pair is reduced to a small operator normal form and compared: Lin(M, transposed),
Coo(scatter, gather, weight), Diag(weight), Id(sign), Prod(matrix, mask placement), Sub(apply_fwd/rev).
adj(Lin(M,t)) = Lin(M, not t); adj(Coo(I,J,w)) = Coo(J,I,w); Diag and Id are self-adjoint; the roles of
source and target vector swap.  Mode tables (which vector is the unknown, which the right-hand side,
transpose flags) must be exact swaps.
"""
import ast

from .. import astx, pathx, cfg as cfgm
from ..core import AnalysisError
from ..engine import rule, describe, selftest, Mutant, Twin

SUBJAC = 'openmdao/jacobians/subjac.py'

describe('C02',
         'Decides syntactic adjointness of every fwd/rev sibling pair: Subjac/OMCOOSubjac/DiagonalSubjac '
         '_apply_fwd_X vs _apply_rev_X (transpose on both value branches, rows/cols swapped in bincount, same '
         'weight, views bound to col_slice/row_slice consistently, += on both), _map_functions binding, '
         'DefaultTransfer._transfer (gather/assign vs bincount-scatter/accumulate with swapped index roles), '
         'COOMatrix/DenseMatrix._prod (matrix vs transpose(), same masked argument), the fwd/rev branches of '
         'SplitJacobian._apply and the two dictionary jacobians (role-swapped updates, mask on argument in fwd '
         'vs on result in rev, apply_fwd vs apply_rev), Group._apply_linear and the block solvers (reverse '
         'composition order), and the x/b/transposition mode tables of DirectSolver, ScipyKrylov, '
         'BlockLinearSolver and Problem.compute_jacvec_product. Round-off duality and PETSc transfers '
         '(MPI only) are not decided.',
         ['petsc_transfer.py / petsc_ksp.py are not analysed (MPI-only)'])


def is_mode_fwd(test):
    """True/False if test is `mode == 'fwd'` / `mode == 'rev'` (any receiver: mode, self._mode), else None."""
    if isinstance(test, ast.Compare) and len(test.ops) == 1 and isinstance(test.ops[0], (ast.Eq, ast.NotEq)):
        for a, b in ((test.left, test.comparators[0]), (test.comparators[0], test.left)):
            lit = astx.const_str(b)
            p = astx.path(a)
            if lit in ('fwd', 'rev') and p and p.split('.')[-1].lstrip('_') == 'mode':
                r = lit == 'fwd'
                return r if isinstance(test.ops[0], ast.Eq) else not r
    if isinstance(test, ast.Name) and test.id == 'fwd':
        return True
    return None


def _terminates(stmts):
    return bool(stmts) and isinstance(stmts[-1], (ast.Return, ast.Raise, ast.Continue, ast.Break))


def mode_ifs(fn):
    """[(If stmt, fwd_body, rev_body)] for every mode test in fn.

    Forms: `if mode == 'fwd': A else: B`, `if mode == 'fwd': A elif mode == 'rev': B`, either polarity, and
    the early-exit form `if <mode test>: A; return` followed by B (B = the rest of the enclosing block)."""
    out = []
    for st in astx.walk_stmts(fn.node.body):
        if isinstance(st, ast.If):
            f = is_mode_fwd(st.test)
            if f is None:
                continue
            par = getattr(st, '_parent', None)
            if isinstance(par, ast.If) and par.orelse == [st] and is_mode_fwd(par.test) is not None:
                continue        # the elif arm of a mode test already listed
            other = st.orelse
            # `elif mode == 'rev':` form
            if len(other) == 1 and isinstance(other[0], ast.If) and is_mode_fwd(other[0].test) is (not f) \
                    and not other[0].orelse:
                other = other[0].body
            mine = st.body
            if not other and _terminates(mine) and isinstance(mine[-1], (ast.Return, ast.Continue)) and \
                    getattr(mine[-1], 'value', None) is None:
                rest = _rest_of_block(st)
                if rest:
                    other = rest
                    mine = mine[:-1]
                    if _terminates(other) and isinstance(other[-1], ast.Return) and other[-1].value is None:
                        other = other[:-1]
            out.append((st, mine if f else other, other if f else mine))
    return out


def _rest_of_block(st):
    """Statements following *st* in the block that contains it."""
    par = getattr(st, '_parent', None)
    if par is None:
        return []
    for fld in ('body', 'orelse', 'finalbody'):
        blk = getattr(par, fld, None)
        if isinstance(blk, list) and any(x is st for x in blk):
            i = [k for k, x in enumerate(blk) if x is st][0]
            return blk[i + 1:]
    for h in getattr(par, 'handlers', []):
        if any(x is st for x in h.body):
            i = [k for k, x in enumerate(h.body) if x is st][0]
            return h.body[i + 1:]
    return []


# --------------------------------------------------------------------------- subjac
VIEW_SRC = {'_in_view': ('d_inputs', 'col_slice'), '_out_view': ('d_outputs', 'col_slice'),
            '_res_view': ('d_residuals', 'row_slice')}


def _is_randgen_test(t):
    """True if t is `randgen is None`, False if `randgen is not None` / `randgen`, else None."""
    if isinstance(t, ast.Compare) and len(t.ops) == 1 and astx.path(t.left) == 'randgen' and \
            isinstance(t.comparators[0], ast.Constant) and t.comparators[0].value is None:
        if isinstance(t.ops[0], (ast.Is, ast.Eq)):
            return True
        if isinstance(t.ops[0], (ast.IsNot, ast.NotEq)):
            return False
    if isinstance(t, ast.Name) and t.id == 'randgen':
        return False
    if isinstance(t, ast.UnaryOp) and isinstance(t.op, ast.Not):
        r = _is_randgen_test(t.operand)
        return None if r is None else not r
    return None


def _subjac_form(fn):
    """Normal form of one _apply_{fwd,rev}_{input,output} body: (views, (val name, value), update).

    The value local is the one selected on `randgen`; every other read-only local (e.g. a temporary holding
    the bincount weights) is substituted into the update statement."""
    body = astx.strip_doc(fn.node.body)
    views = {}
    val_def = None
    update = None
    env = {}
    for st in body:
        if isinstance(st, ast.If) and _is_randgen_test(st.test) is not None and len(st.body) == 1 and \
                len(st.orelse) == 1 and all(isinstance(x, ast.Assign) and len(x.targets) == 1 and
                                            isinstance(x.targets[0], ast.Name) for x in (st.body[0], st.orelse[0])) \
                and st.body[0].targets[0].id == st.orelse[0].targets[0].id:
            # if randgen is None: val = A  else: val = B   ==   val = A if randgen is None else B
            val_def = (st.body[0].targets[0].id,
                       ast.IfExp(test=st.test, body=st.body[0].value, orelse=st.orelse[0].value))
        elif isinstance(st, ast.If):
            for s2 in st.body:
                if isinstance(s2, ast.Assign) and len(s2.targets) == 1:
                    p = astx.path(s2.targets[0])
                    c = s2.value
                    if p and p.startswith('self._') and isinstance(c, ast.Call) and \
                            astx.callee_attr(c) == 'get_slice' and len(c.args) == 1:
                        views[p.split('.')[-1]] = (astx.path(astx.receiver(c)), astx.path(c.args[0]))
        elif isinstance(st, ast.Assign) and len(st.targets) == 1 and isinstance(st.targets[0], ast.Name):
            nm = st.targets[0].id
            if val_def is None and (astx.mentions(st.value, 'randgen') or isinstance(st.value, ast.IfExp)):
                val_def = (nm, st.value)
            elif val_def is None and not env and not any(
                    isinstance(n, ast.Name) and n.id in env for n in astx.walk(st.value)) and \
                    not any(astx.path(n) in ('self._in_view', 'self._out_view', 'self._res_view')
                            for n in astx.walk(st.value)):
                val_def = (nm, st.value)
            else:
                env[nm] = pathx._Sub(env).visit(pathx._cp(st.value))
        elif isinstance(st, ast.AugAssign):
            if update is not None:
                raise AnalysisError(f'{fn.ident}: more than one update statement')
            update = st
            if env:
                update = pathx._Sub(env).visit(pathx._cp(st))
    if update is None:
        raise AnalysisError(f'{fn.ident}: no accumulate statement found')
    if val_def is not None and val_def[0] in env:
        raise AnalysisError(f'{fn.ident}: value local {val_def[0]} is rebound')
    return views, val_def, update


def _val_branches(val_def):
    """The value expression for (randgen is None, randgen given)."""
    name, e = val_def
    if isinstance(e, ast.IfExp):
        r = _is_randgen_test(e.test)
        if r is False:
            return name, [e.orelse, e.body]
        return name, [e.body, e.orelse]
    return name, [e]


def _strip_T(e):
    """(base expr, transposed?)"""
    if isinstance(e, ast.Attribute) and e.attr == 'T':
        return e.value, True
    if isinstance(e, ast.Call) and astx.callee_attr(e) == 'transpose' and not e.args:
        return astx.receiver(e), True
    return e, False


def _op_form(update, val_def):
    """Operator normal form of `T += E`."""
    tgt = astx.path(update.target)
    op = type(update.op).__name__
    E = update.value
    vname, vbranches = _val_branches(val_def) if val_def else (None, [])

    def is_val(x):
        return isinstance(x, ast.Name) and x.id == vname

    if isinstance(E, ast.BinOp) and isinstance(E.op, ast.MatMult):
        if is_val(E.left):
            trans = [_strip_T(b) for b in vbranches]
            return dict(kind='Lin', target=tgt, op=op, src=astx.path(E.right),
                        mats=[astx.dump(b) for b, _ in trans], trans=[t for _, t in trans])
        if is_val(E.right):   # v @ M  ==  M.T @ v for 1-D v
            trans = [_strip_T(b) for b in vbranches]
            return dict(kind='Lin', target=tgt, op=op, src=astx.path(E.left),
                        mats=[astx.dump(b) for b, _ in trans], trans=[not t for _, t in trans])
    if isinstance(E, ast.Call) and astx.callee_attr(E) == 'bincount' and E.args and \
            astx.arg(E, 1, 'weights') is not None:
        scatter = astx.path(E.args[0])
        w = astx.arg(E, 1, 'weights')
        if isinstance(w, ast.BinOp) and isinstance(w.op, ast.Mult):
            for g_, wt in ((w.left, w.right), (w.right, w.left)):
                if isinstance(g_, ast.Subscript) and is_val(wt):
                    return dict(kind='Coo', target=tgt, op=op, src=astx.path(g_.value), scatter=scatter,
                                gather=astx.path(g_.slice), mats=[astx.dump(b) for b in vbranches],
                                minlength=astx.dump(astx.kwarg(E, 'minlength')))
    if isinstance(E, ast.BinOp) and isinstance(E.op, ast.Mult):
        for v_, wt in ((E.left, E.right), (E.right, E.left)):
            if is_val(wt) and astx.path(v_):
                return dict(kind='Diag', target=tgt, op=op, src=astx.path(v_),
                            mats=[astx.dump(b) for b in vbranches])
    return None


SUBJAC_CLASSES = ['Subjac', 'OMCOOSubjac', 'DiagonalSubjac']


@rule('C02.subjac', floor=6)
def subjac(repo, out):
    """Each subjac _apply_fwd_X / _apply_rev_X pair is an adjoint pair on consistently bound views."""
    m = repo.module(SUBJAC)
    classes = [c for c in m.classes if any(f'{c}._apply_fwd_{k}' in m.funcs for k in ('input', 'output'))]
    for c in SUBJAC_CLASSES:
        if c not in classes:
            raise AnalysisError(f'{c}._apply_* vanished')
    for c in classes:
        for kind, wrt_view, wrt_vec in (('input', '_in_view', 'd_inputs'), ('output', '_out_view', 'd_outputs')):
            ff = m.funcs.get(f'{c}._apply_fwd_{kind}')
            fr = m.funcs.get(f'{c}._apply_rev_{kind}')
            if ff is None or fr is None:
                out.bad((SUBJAC, c), m.classes[c], f'{c} defines only one of _apply_fwd_{kind}/_apply_rev_{kind}: '
                        'the inherited sibling is not its adjoint', key=f'subjac-missing-{kind}')
                continue
            vf, valf, uf = _subjac_form(ff)
            vr, valr, ur = _subjac_form(fr)
            bad = False
            for fn, views in ((ff, vf), (fr, vr)):
                for vn, srcp in views.items():
                    want = VIEW_SRC.get(vn)
                    if want is None:
                        continue
                    vec, slc = srcp
                    if vec != want[0] or slc != f'self.{want[1]}':
                        out.bad(fn, fn.node, f'self.{vn} is bound to {vec}.get_slice({slc}); expected '
                                f'{want[0]}.get_slice(self.{want[1]})', key=f'subjac-view-{vn}')
                        bad = True
                if wrt_view not in views or '_res_view' not in views:
                    out.bad(fn, fn.node, f'views self.{wrt_view} / self._res_view are not (both) initialised here',
                            key='subjac-view-init')
                    bad = True
            if bad:
                continue
            of, orv = _op_form(uf, valf), _op_form(ur, valr)
            if of is None or orv is None:
                out.unsure(ff if of is None else fr, (uf if of is None else ur), 'unrecognised operator shape')
                continue
            why = None
            if of['target'] != 'self._res_view' or of['src'] != f'self.{wrt_view}':
                why = f"fwd must accumulate into self._res_view from self.{wrt_view} (found {of['target']} from {of['src']})"
            elif orv['target'] != f'self.{wrt_view}' or orv['src'] != 'self._res_view':
                why = f"rev must accumulate into self.{wrt_view} from self._res_view (found {orv['target']} from {orv['src']})"
            elif of['op'] != 'Add' or orv['op'] != 'Add':
                why = 'both directions must accumulate with +='
            elif of['kind'] != orv['kind']:
                why = f"fwd is {of['kind']} but rev is {orv['kind']}"
            elif of['kind'] == 'Lin':
                if of['mats'] != orv['mats']:
                    why = 'fwd and rev use different matrices'
                elif len(of['trans']) != len(orv['trans']) or any(a == b for a, b in zip(of['trans'], orv['trans'])):
                    why = ('transpose must be applied in exactly one direction on every value branch '
                           f"(fwd transposed={of['trans']}, rev transposed={orv['trans']})")
                elif any(of['trans']):
                    why = 'fwd must use the untransposed matrix'
            elif of['kind'] == 'Coo':
                if of['mats'] != orv['mats']:
                    why = 'fwd and rev use different weights'
                elif not (of['scatter'] == orv['gather'] and of['gather'] == orv['scatter']):
                    why = (f"index roles must swap: fwd scatters to {of['scatter']} gathering {of['gather']}, "
                           f"rev scatters to {orv['scatter']} gathering {orv['gather']}")
                elif of['scatter'] != 'self.rows' or of['gather'] != 'self.cols':
                    why = 'fwd must scatter to rows and gather from cols'
                elif of['minlength'] == orv['minlength']:
                    why = 'fwd and rev bincount use the same minlength (row count vs column count expected)'
            elif of['kind'] == 'Diag':
                if of['mats'] != orv['mats']:
                    why = 'fwd and rev use different diagonal weights'
            if why:
                out.bad(fr, ur, f'{c} {kind}: not an adjoint pair: {why}', key=f'subjac-adjoint-{kind}')
            else:
                out.ok(fr, ur, f"{c} {kind}: {of['kind']} adjoint pair")


@rule('C02.map', floor=1)
def map_functions(repo, out):
    """_map_functions binds apply_fwd/apply_rev to the same-suffix pair in both branches."""
    fn = repo.func(SUBJAC, 'Subjac._map_functions')
    n = 0
    for st in astx.walk_stmts(fn.node.body):
        if isinstance(st, ast.If):
            for branch in (st.body, st.orelse):
                pairs = {}
                for s2 in branch:
                    if isinstance(s2, ast.Assign) and len(s2.targets) == 1:
                        t = astx.path(s2.targets[0])
                        v = astx.path(s2.value)
                        if t in ('self.apply_fwd', 'self.apply_rev') and v:
                            pairs[t] = v
                if len(pairs) == 2:
                    f, r = pairs['self.apply_fwd'], pairs['self.apply_rev']
                    n += 1
                    sf, sr = f.split('_apply_fwd_')[-1], r.split('_apply_rev_')[-1]
                    if '_apply_fwd_' not in f or '_apply_rev_' not in r or sf != sr:
                        out.bad(fn, branch[0], f'apply_fwd={f} and apply_rev={r} are not a fwd/rev pair of the same '
                                'kind', key='map-pair')
                    else:
                        want = 'input' if (branch is st.body) == (astx.mentions(st.test, 'wrt_is_input') and
                                                                  not isinstance(st.test, ast.UnaryOp)) else 'output'
                        if sf != want:
                            out.bad(fn, branch[0], f'wrt_is_input branch binds the {sf} pair', key='map-kind')
                        else:
                            out.ok(fn, branch[0], f'{sf} pair')
    if n < 2:
        raise AnalysisError('_map_functions branches not recognised')


# --------------------------------------------------------------------------- transfer
@rule('C02.transfer', floor=1)
def transfer(repo, out):
    """DefaultTransfer._transfer: fwd gather/assign and rev bincount-scatter/accumulate are adjoint."""
    fn = repo.func('openmdao/vectors/default_transfer.py', 'DefaultTransfer._transfer')
    pf = pathx.mode_paths(fn, is_mode_fwd, True)
    pr = pathx.mode_paths(fn, is_mode_fwd, False)
    if not mode_ifs(fn):
        raise AnalysisError('expected one mode test in DefaultTransfer._transfer')
    st = mode_ifs(fn)[0][0]
    if len(pf) != 1 or len(pr) != 1 or pf[0].opaque_return or pr[0].opaque_return:
        out.unsure(fn, st, 'fwd / rev specialisations of _transfer are not single straight-line paths')
        return
    fwd, rev = pf[0].stmts, pr[0].stmts
    # fwd: in_vec.set_val(out_vec.asarray()[OUT_INDS...], IN_INDS)
    fcall = [c for s in fwd for c in astx.calls(s) if astx.callee_attr(c) == 'set_val']
    rcall = [c for s in rev for c in astx.calls(s) if astx.callee_attr(c) in ('iadd', '__iadd__')]
    raug = [s for s in rev if isinstance(s, ast.AugAssign)]
    if len(fcall) != 1 or (len(rcall) + len(raug)) != 1:
        out.unsure(fn, st, 'fwd set_val / rev accumulate not found in the expected form')
        return
    if any(astx.callee_attr(c) in ('iadd', '__iadd__', 'set_val') for s in fwd for c in astx.calls(s)
           if c is not fcall[0]) or any(isinstance(s, ast.AugAssign) for s in fwd) or \
            any(astx.callee_attr(c) in ('set_val', 'iadd', '__iadd__') for s in rev for c in astx.calls(s)
                if not rcall or c is not rcall[0]):
        out.unsure(fn, st, 'a mode performs more than one vector update')
        return
    fc = fcall[0]
    if astx.path(astx.receiver(fc)) != 'in_vec' or len(fc.args) != 2:
        out.bad(fn, fc, 'fwd must assign into in_vec at the input indices', key='transfer-fwd')
        return
    gath = fc.args[0]
    if not (isinstance(gath, ast.Subscript) and astx.mentions(gath.value, 'out_vec')):
        out.bad(fn, fc, 'fwd must gather from out_vec', key='transfer-fwd')
        return

    def ind_name(e):
        for n in astx.walk(e):
            if isinstance(n, ast.Attribute) and n.attr in ('_in_inds', '_out_inds'):
                return n.attr
        return None
    f_gather, f_scatter = ind_name(gath.slice), ind_name(fc.args[1])
    if rcall:
        rc = rcall[0]
        tgt = astx.path(astx.receiver(rc))
        E = rc.args[0] if rc.args else None
        accumulate = True
    else:
        tgt = astx.path(raug[0].target)
        E = raug[0].value
        accumulate = isinstance(raug[0].op, ast.Add)
    w = astx.arg(E, 1, 'weights') if isinstance(E, ast.Call) else None
    if not (isinstance(E, ast.Call) and astx.callee_attr(E) == 'bincount' and E.args and w is not None):
        out.bad(fn, rev[0], 'rev must scatter-add with bincount (duplicate source indices must accumulate)',
                key='transfer-rev')
        return
    r_scatter = ind_name(E.args[0])
    r_gather = ind_name(w.slice) if isinstance(w, ast.Subscript) else None
    r_src_ok = isinstance(w, ast.Subscript) and astx.mentions(w.value, 'in_vec')
    ml = astx.kwarg(E, 'minlength')
    why = None
    if (f_gather, f_scatter) != ('_out_inds', '_in_inds'):
        why = f'fwd must gather at _out_inds and assign at _in_inds (found gather {f_gather}, scatter {f_scatter})'
    elif tgt != 'out_vec' or not accumulate:
        why = 'rev must accumulate into out_vec'
    elif not r_src_ok:
        why = 'rev must read from in_vec'
    elif (r_scatter, r_gather) != (f_gather, f_scatter):
        why = (f'index roles must swap between modes: fwd gather {f_gather} / scatter {f_scatter}, '
               f'rev scatter {r_scatter} / gather {r_gather}')
    elif ml is None or not astx.mentions(ml, 'out_vec'):
        why = 'rev bincount minlength must be the size of out_vec'
    if why:
        out.bad(fn, st, why, key='transfer-adjoint')
    else:
        out.ok(fn, st, 'fwd in[in_inds] = out[out_inds]; rev out += bincount(out_inds, in[in_inds], len(out))')


# --------------------------------------------------------------------------- matrix _prod
PROD_FILES = [('openmdao/matrices/coo_matrix.py', 'COOMatrix'), ('openmdao/matrices/dense_matrix.py', 'DenseMatrix')]


def _returns(stmts):
    out = []
    for st in stmts:
        for s in astx.walk_stmts([st]):
            if isinstance(s, ast.Return):
                out.append(s)
    return out


@rule('C02.prod', floor=2)
def prod(repo, out):
    """Matrix._prod: fwd = matrix @ x, rev = transpose() @ x with the same (masked) argument."""
    for rel, cls in PROD_FILES:
        fn = repo.func(rel, f'{cls}._prod')
        mi = mode_ifs(fn)
        if len(mi) != 1:
            raise AnalysisError(f'{fn.ident}: mode test not found')
        st = mi[0][0]
        pf = pathx.mode_paths(fn, is_mode_fwd, True)
        pr = pathx.mode_paths(fn, is_mode_fwd, False)
        if any(q.opaque_return or q.ret is None for q in pf + pr):
            out.unsure(fn, st, 'a path of _prod does not end in `return <product>`')
            continue

        def ckey(q):
            return tuple(sorted((astx.dump(t), v) for t, v in q.conds))
        kf, kr = {ckey(q): q for q in pf}, {ckey(q): q for q in pr}
        if set(kf) != set(kr) or not kf:
            out.bad(fn, st, 'fwd and rev branches have a different number of return sites', key='prod-shape')
            continue
        rf = [kf[k].stmts[-1] for k in sorted(kf)]
        rr = [kr[k].stmts[-1] for k in sorted(kf)]
        good = True
        for a, b in zip(rf, rr):
            ea, eb = a.value, b.value
            if not (isinstance(ea, ast.BinOp) and isinstance(ea.op, ast.MatMult) and
                    isinstance(eb, ast.BinOp) and isinstance(eb.op, ast.MatMult)):
                out.unsure(fn, a, 'return is not a matrix product')
                good = False
                continue
            ma, ta = _strip_T(ea.left)
            mb, tb = _strip_T(eb.left)
            # self.transpose() -> receiver self : resolve through the transpose method
            def base(mx, tr):
                p = astx.path(mx)
                if p == 'self' and tr:
                    return 'self._matrix', True
                return p, tr
            pa, ta = base(ma, ta)
            pb, tb = base(mb, tb)
            if pa != 'self._matrix' or ta:
                out.bad(fn, a, 'fwd product must use the untransposed self._matrix on the left', key='prod-fwd')
                good = False
            elif pb != 'self._matrix' or not tb:
                out.bad(fn, b, 'rev product must use the transpose of self._matrix', key='prod-rev')
                good = False
            elif not astx.same(ea.right, eb.right):
                out.bad(fn, b, 'fwd and rev apply the mask differently to the argument: '
                        f'{astx.src(ea.right)} vs {astx.src(eb.right)}', key='prod-mask')
                good = False
        if good:
            out.ok(fn, st, f'{len(rf)} return pair(s): M @ x / M.T @ x with identical argument')
        # transpose() returns the transpose of self._matrix
        tf = repo.lookup(rel, cls, 'transpose')
        if tf is None:
            raise AnalysisError(f'{cls}.transpose not found')
        rets = _returns(tf.node.body)
        okt = bool(rets)
        for r in rets:
            v = r.value
            p = astx.path(v)
            if p == 'self._matrix_T':
                continue
            b_, t_ = _strip_T(v)
            if not (t_ and astx.path(b_) == 'self._matrix'):
                okt = False
        # cached transpose must be computed from self._matrix.T
        for s in astx.walk_stmts(tf.node.body):
            if isinstance(s, ast.Assign) and any(astx.path(t) == 'self._matrix_T' for t in s.targets):
                b_, t_ = _strip_T(s.value)
                inner = s.value
                # allow self._matrix.T.tocsr()-style conversions
                while isinstance(inner, ast.Call) and isinstance(inner.func, ast.Attribute) and not t_:
                    inner = inner.func.value
                    b_, t_ = _strip_T(inner)
                if not (t_ and astx.path(b_) == 'self._matrix'):
                    okt = False
        if okt:
            out.ok(tf, tf.node, 'transpose() yields the transpose of self._matrix')
        else:
            out.bad(tf, tf.node, 'transpose() does not return the transpose of self._matrix', key='prod-transpose')


# --------------------------------------------------------------------------- jacobian _apply
R_NAMES = {'d_residuals', 'dresids', 'd_resids'}
O_NAMES = {'d_outputs', 'doutarr', 'doutputs'}
I_NAMES = {'d_inputs', 'dinputs'}


def _role(e):
    """'R' | 'O' | 'I' for a vector/array expression, looking through .asarray() and subscripts."""
    while True:
        if isinstance(e, ast.Call) and astx.callee_attr(e) in ('asarray', '_get_data') and astx.receiver(e) is not None:
            e = astx.receiver(e)
            continue
        break
    p = astx.path(e)
    if p in R_NAMES:
        return 'R'
    if p in O_NAMES:
        return 'O'
    if p in I_NAMES:
        return 'I'
    return None


def _attr_aliases(fn):
    """{local: 'self.attr'} for locals whose only binding in fn is `local = self.<attr path>`."""
    seen = {}
    for n in astx.walk(fn.node):
        if isinstance(n, ast.Name) and isinstance(n.ctx, ast.Store):
            seen.setdefault(n.id, []).append(getattr(n, '_parent', None))
    out = {}
    for k, pars in seen.items():
        if len(pars) == 1 and isinstance(pars[0], ast.Assign) and len(pars[0].targets) == 1 and \
                pars[0].targets[0].__class__ is ast.Name:
            p = astx.path(pars[0].value)
            if p and p.startswith('self.') and isinstance(pars[0].value, ast.Attribute):
                out[k] = p
    return out


def _updates(stmts, aliases=None):
    """Linear updates in a branch: list of dicts(kind, target, src, sign, mat, mask)."""
    ups = []
    pending = {}   # local name -> (mat, src, masked_result?)
    aliases = aliases or {}
    _path = astx.path

    class _A:        # astx.path with local matrix aliases resolved
        @staticmethod
        def path(e):
            p = _path(e)
            return aliases.get(p, p)
    for st in astx.walk_stmts(stmts):
        if isinstance(st, ast.Assign) and len(st.targets) == 1 and isinstance(st.targets[0], ast.Name):
            v = st.value
            if isinstance(v, ast.Call) and astx.callee_attr(v) == '_prod':
                pending[st.targets[0].id] = dict(mat=_A.path(astx.receiver(v)), src=_role(v.args[0]) if v.args else None,
                                                 argmask=len(v.args) > 2 or astx.kwarg(v, 'mask') is not None,
                                                 resmask=False)
            continue
        if isinstance(st, ast.Assign) and len(st.targets) == 1 and isinstance(st.targets[0], ast.Subscript):
            t = st.targets[0]
            if isinstance(t.value, ast.Name) and t.value.id in pending and \
                    isinstance(st.value, ast.Constant) and st.value.value == 0:
                pending[t.value.id]['resmask'] = True
            continue
        if isinstance(st, ast.AugAssign) and isinstance(st.op, (ast.Add, ast.Sub)):
            tr = _role(st.target)
            sign = '+' if isinstance(st.op, ast.Add) else '-'
            v = st.value
            if isinstance(v, ast.Call) and astx.callee_attr(v) == '_prod':
                ups.append(dict(kind='Prod', target=tr, src=_role(v.args[0]) if v.args else None, sign=sign,
                                mat=_A.path(astx.receiver(v)),
                                argmask=len(v.args) > 2 or astx.kwarg(v, 'mask') is not None, resmask=False, st=st))
            elif isinstance(v, ast.Name) and v.id in pending:
                p = pending[v.id]
                ups.append(dict(kind='Prod', target=tr, src=p['src'], sign=sign, mat=p['mat'],
                                argmask=p['argmask'], resmask=p['resmask'], st=st))
            elif _role(v) is not None and tr is not None:
                ups.append(dict(kind='Id', target=tr, src=_role(v), sign=sign, st=st))
        if isinstance(st, ast.Expr) and isinstance(st.value, ast.Call) and \
                astx.callee_attr(st.value) in ('apply_fwd', 'apply_rev'):
            c = st.value
            ups.append(dict(kind='Sub', dir=astx.callee_attr(c)[-3:], args=[astx.dump(a) for a in c.args],
                            recv=astx.dump(astx.receiver(c)), st=st,
                            guards=tuple(astx.dump(a.test) for a in astx.ancestors(st)
                                         if isinstance(a, ast.If) and is_mode_fwd(a.test) is None
                                         and not astx.mentions(a.test, 'left_vec', 'right_vec'))))
    return ups


JAC_APPLY = [('openmdao/jacobians/jacobian.py', 'SplitJacobian._apply', 3),
             ('openmdao/jacobians/dictionary_jacobian.py', 'ExplicitDictionaryJacobian._apply', 2),
             ('openmdao/jacobians/dictionary_jacobian.py', 'DictionaryJacobian._apply', 1)]


@rule('C02.jac_apply', floor=3)
def jac_apply(repo, out):
    """fwd and rev branches of the jacobian _apply methods are role-swapped adjoint update lists."""
    for rel, qn, npairs in JAC_APPLY:
        fn = repo.func(rel, qn)
        mi = [x for x in mode_ifs(fn)]
        if not mi:
            raise AnalysisError(f'{fn.ident}: no fwd/rev branch found')
        # use the outermost mode test(s)
        st, fwd, rev = mi[0]
        al = _attr_aliases(fn)
        uf, ur = _updates(fwd, al), _updates(rev, al)
        if len(uf) < npairs:
            raise AnalysisError(f'{fn.ident}: only {len(uf)} fwd updates recognised, expected {npairs}')
        used = set()
        bad = False
        for u in uf:
            match = None
            for j, v in enumerate(ur):
                if j in used or v['kind'] != u['kind']:
                    continue
                if u['kind'] == 'Id' and (v['target'], v['src'], v['sign']) == (u['src'], u['target'], u['sign']):
                    match = j
                elif u['kind'] == 'Prod' and (v['target'], v['src'], v['sign'], v['mat']) == \
                        (u['src'], u['target'], u['sign'], u['mat']):
                    match = j
                elif u['kind'] == 'Sub' and v['dir'] == 'rev' and u['dir'] == 'fwd' and v['args'] == u['args'] \
                        and v['recv'] == u['recv'] and v['guards'] == u['guards']:
                    match = j
                if match is not None:
                    break
            if match is None:
                desc = {k: v for k, v in u.items() if k != 'st'}
                out.bad(fn, u['st'], f'fwd update {desc} has no adjoint counterpart in the rev branch '
                        '(roles of target and source must swap, same sign, same matrix / same subjac call and guards)',
                        key=f"jac-apply-{u['kind']}")
                bad = True
                continue
            used.add(match)
            v = ur[match]
            if u['kind'] == 'Prod':
                # mask: on the argument in fwd  <=>  on the result in rev (adjoint of J.Mask is Mask.J^T)
                if u['argmask'] != v['resmask'] or v['argmask'] or u['resmask']:
                    out.bad(fn, v['st'], 'mask placement is not adjoint: fwd masks '
                            f"{'the argument' if u['argmask'] else 'nothing'}, rev masks "
                            f"{'the result' if v['resmask'] else ('the argument' if v['argmask'] else 'nothing')}",
                            key='jac-apply-mask')
                    bad = True
        extra = [v for j, v in enumerate(ur) if j not in used]
        for v in extra:
            desc = {k: x for k, x in v.items() if k != 'st'}
            out.bad(fn, v['st'], f'rev update {desc} has no fwd counterpart', key=f"jac-apply-extra-{v['kind']}")
            bad = True
        if not bad:
            out.ok(fn, st, f'{len(uf)} fwd update(s) matched by adjoint rev updates')


# --------------------------------------------------------------------------- rev transfer scaling pair
class _Only:
    """Forward to `out` only the verdicts about one function (used to reuse a clause of another module)."""

    def __init__(self, out, qualname):
        self._out, self._qn = out, qualname

    def _mine(self, where):
        qn = getattr(where, 'qualname', None) or (where[1] if isinstance(where, tuple) else None)
        return qn == self._qn

    def ok(self, where, node, why=''):
        if self._mine(where):
            self._out.ok(where, node, why)

    def bad(self, where, node, why, key=None):
        if self._mine(where):
            self._out.bad(where, node, why, key)

    def unsure(self, where, node, why):
        if self._mine(where):
            self._out.unsure(where, node, why)

    def count(self, *a, **k):
        pass

    def note(self, *a, **k):
        pass


@rule('C02.transfer_scaling', floor=2)
def transfer_scaling(repo, out):
    """Group._transfer: the input vector is put back into the physical state after every scaled transfer.

    In reverse mode the transfer accumulates the (normalised) input vector into the outputs; leaving it
    normalised afterwards makes the next reverse product read inputs in the wrong state, so the rev operator
    is no longer the adjoint of the fwd one.  The pairing clause is the one C08.who decides (reused)."""
    try:
        from . import C08 as _c08
    except Exception as e:   # pragma: no cover
        raise AnalysisError(f'C08 rule module not importable: {e}')
    _c08.who(repo, _Only(out, 'Group._transfer'))


# --------------------------------------------------------------------------- solution / rhs vector selection
SOLVEC_FILES = ['openmdao/solvers/linear/linear_block_gs.py', 'openmdao/solvers/linear/linear_block_jac.py',
                'openmdao/solvers/linear/direct.py', 'openmdao/solvers/linear/scipy_iter_solver.py',
                'openmdao/solvers/linear/user_defined.py', 'openmdao/solvers/solver.py']
_LINV = {'_doutputs': '_dresiduals', '_dresiduals': '_doutputs'}


def _own_linvec(e):
    """The `_doutputs`/`_dresiduals` attribute nodes of the solver's OWN system inside expression e."""
    res = []
    for n in astx.walk(e):
        if isinstance(n, ast.Attribute) and n.attr in _LINV:
            b = astx.path(n.value) or ''
            if b in ('system', 'self._system()', 'self._system') or (isinstance(n.value, ast.Call) and
                                                                      astx.call_name(n.value) == 'self._system'):
                res.append(n)
    return res


def _swap_dump(e):
    c = pathx._cp(e)
    for n in ast.walk(c):
        if isinstance(n, ast.Attribute) and n.attr in _LINV:
            n.attr = _LINV[n.attr]
    return astx.dump(c)


@rule('C02.solvec', floor=6)
def solvec(repo, out):
    """A linear solver names its solution / right-hand-side vector by a fwd/rev switch with swapped roles.

    In fwd mode the unknowns are d_outputs and the right-hand side d_residuals; in rev mode the roles swap.
    Every binding of a local or attribute to the solver's own `_doutputs`/`_dresiduals` must therefore sit in
    one arm of a mode test whose other arm binds the same target to the other vector."""
    n = 0
    for rel in SOLVEC_FILES:
        if not repo.exists(rel):
            continue
        m = repo.module(rel)
        for f in m.funcs.values():
            mifs = mode_ifs(f)
            binds = [st for st in astx.walk_stmts(f.node.body)
                     if isinstance(st, ast.Assign) and len(st.targets) == 1 and
                     isinstance(st.targets[0], (ast.Name, ast.Attribute)) and _own_linvec(st.value)]
            # role variables: targets that some mode test binds (a name that is bound to one vector in both
            # modes everywhere is a plain alias of that vector, e.g. d_outputs = system._doutputs)
            def _modesel(st):
                return isinstance(st.value, ast.IfExp) and is_mode_fwd(st.value.test) is not None
            roles = {astx.dump(st.targets[0]) for st in binds
                     if _modesel(st) or any(any(x is st for x in arm) for _i, fw, rv in mifs for arm in (fw, rv))}
            for st in binds:
                if astx.dump(st.targets[0]) not in roles:
                    continue
                n += 1
                if _modesel(st):
                    # conditional-expression form: `v = A if mode == 'fwd' else B`
                    n += 1
                    if astx.dump(st.value.orelse) != _swap_dump(st.value.body):
                        out.bad(f, st, f'{astx.src(st.targets[0])} is {astx.src(st.value.body)} in one mode and '
                                f'{astx.src(st.value.orelse)} in the other: the two must be the same expression with '
                                '_doutputs and _dresiduals exchanged', key='solvec-mirror')
                    else:
                        out.ok(f, st, 'mode-selected with swapped roles')
                    continue
                arm = None
                for ifst, fwd, rev in mifs:
                    for mine, other in ((fwd, rev), (rev, fwd)):
                        if any(x is st for x in mine):
                            arm = (ifst, other)
                if arm is None:
                    out.bad(f, st, f'{astx.src(st.targets[0])} is bound to {astx.src(st.value)} in both derivative modes: '
                            'the solution and right-hand-side vectors swap between fwd and rev, so one of the two '
                            'modes works on the wrong vector', key='solvec-unconditional')
                    continue
                tgt = astx.dump(st.targets[0])
                mirror = [x for x in arm[1] if isinstance(x, ast.Assign) and len(x.targets) == 1 and
                          astx.dump(x.targets[0]) == tgt]
                if not mirror:
                    out.bad(f, st, f'the other mode does not bind {astx.src(st.targets[0])}', key='solvec-mirror')
                elif astx.dump(mirror[0].value) != _swap_dump(st.value):
                    out.bad(f, st, f'{astx.src(st.targets[0])} is {astx.src(st.value)} here and '
                            f'{astx.src(mirror[0].value)} in the other mode: the two must be the same expression with '
                            '_doutputs and _dresiduals exchanged', key='solvec-mirror')
                else:
                    out.ok(f, st, 'mode-selected with swapped roles')
    if n < 6:
        raise AnalysisError('vector selections of the linear solvers not found')


# --------------------------------------------------------------------------- rev-mode solution cache
RHSC = 'openmdao/solvers/linear/linear_rhs_checker.py'


class _Num:
    """Evaluate an arithmetic expression over {name: float} (+ - * / ** abs sqrt)."""

    def __init__(self, env):
        self.env = env

    def ev(self, e):
        if isinstance(e, ast.Constant) and isinstance(e.value, (int, float)) and not isinstance(e.value, bool):
            return float(e.value)
        if isinstance(e, ast.Name) and e.id in self.env:
            return self.env[e.id]
        if isinstance(e, ast.UnaryOp) and isinstance(e.op, (ast.USub, ast.UAdd)):
            v = self.ev(e.operand)
            return -v if isinstance(e.op, ast.USub) else v
        if isinstance(e, ast.BinOp) and type(e.op) in (ast.Add, ast.Sub, ast.Mult, ast.Div, ast.Pow):
            a, b = self.ev(e.left), self.ev(e.right)
            return {ast.Add: a + b, ast.Sub: a - b, ast.Mult: a * b,
                    ast.Div: a / b if b else float('nan'), ast.Pow: a ** b}[type(e.op)]
        if isinstance(e, ast.Call) and astx.call_name(e) in ('abs', 'np.abs', 'numpy.abs') and len(e.args) == 1:
            return abs(self.ev(e.args[0]))
        if isinstance(e, ast.Call) and astx.call_name(e) in ('np.sqrt', 'sqrt', 'math.sqrt') and len(e.args) == 1:
            return self.ev(e.args[0]) ** 0.5
        if isinstance(e, ast.Call) and astx.call_name(e) in ('np.sign', 'np.copysign') :
            a = [self.ev(x) for x in e.args]
            if len(a) == 1:
                return (a[0] > 0) - (a[0] < 0)
            return abs(a[0]) if a[1] >= 0 else -abs(a[0])
        raise AnalysisError(f'outside the evaluated fragment: {astx.src(e)}')


def _signed(e):
    """(base expr, sign) looking through unary minus."""
    sign = 1
    while isinstance(e, ast.UnaryOp) and isinstance(e.op, ast.USub):
        e, sign = e.operand, -sign
    return e, sign


@rule('C02.rhscache', floor=4)
def rhscache(repo, out):
    """The rev-mode solution cache is linear: a hit for c*rhs returns c*solution, sign included."""
    add = repo.func(RHSC, 'LinearRHSChecker.add_solution')
    get = repo.func(RHSC, 'LinearRHSChecker.get_solution')
    # writer: (rhs, solution, norm of rhs)
    def _local_defs(name):
        return [st.value for st in astx.walk_stmts(add.node.body) if isinstance(st, ast.Assign)
                and len(st.targets) == 1 and astx.path(st.targets[0]) == name]

    def _entry(e):
        # the appended entry, also through a local name (`entry = (...)`; `caches.append(entry)`)
        if isinstance(e, ast.Name):
            ds = _local_defs(e.id)
            if len(ds) == 1:
                return ds[0]
        return e
    apps = [c for c in astx.calls(add.node) if astx.callee_attr(c) == 'append' and len(c.args) == 1
            and isinstance(_entry(c.args[0]), ast.Tuple)]
    if len(apps) != 1 or len(_entry(apps[0].args[0]).elts) != 3:
        raise AnalysisError('add_solution: cache tuple not recognised')
    elts = _entry(apps[0].args[0]).elts
    params = [a.arg for a in add.node.args.args]

    def _closure(e):
        # parameter / local names the value of e is computed from (through every local definition)
        seen, todo = set(), [e]
        while todo:
            x = todo.pop()
            for nd in astx.walk(x):
                if isinstance(nd, ast.Name) and nd.id not in seen:
                    seen.add(nd.id)
                    if nd.id not in (params[1], params[2]):
                        todo.extend(_local_defs(nd.id))
        return seen
    norm_src = _closure(elts[2])
    norm_is_norm = any(astx.callee_attr(c) in ('sqrt', 'norm') for x in [elts[2]] + [d for nm in norm_src
                       for d in _local_defs(nm)] for c in astx.calls(x))
    if astx.path(elts[0]) != params[1] or astx.path(elts[1]) != params[2] or isinstance(elts[2], ast.Constant) or \
            params[1] not in norm_src or params[2] in norm_src or not norm_is_norm:
        out.bad(add, apps[0], 'cache entries must be (rhs, solution, norm of rhs) in this order', key='rhscache-writer')
        return
    out.ok(add, apps[0], 'entry = (rhs, solution, |rhs|)')
    # reader: unpack in the same order
    unp = [st for st in astx.walk_stmts(get.node.body) if isinstance(st, ast.Assign)
           and isinstance(st.targets[0], ast.Tuple) and len(st.targets[0].elts) == 3
           and astx.mentions(st.value, '_caches')]
    utgt = unp[0].targets[0] if len(unp) == 1 else None
    if utgt is None:
        # `for rhs, sol, norm in reversed(self._caches):` / `in self._caches`
        loops = [st for st in astx.walk_stmts(get.node.body) if isinstance(st, ast.For)
                 and isinstance(st.target, ast.Tuple) and len(st.target.elts) == 3
                 and astx.mentions(st.iter, '_caches')]
        if len(loops) == 1:
            unp, utgt = loops, loops[0].target
    if utgt is None or not all(isinstance(e, ast.Name) for e in utgt.elts):
        # indexing form: entry = self._caches[i]; entry[0], entry[1], entry[2]
        raise AnalysisError('get_solution: cache entry unpacking not recognised')
    R, S, N = [e.id for e in utgt.elts]
    rhs_p = [a.arg for a in get.node.args.args][1]
    out.ok(get, unp[0], f'entry read as ({R}, {S}, {N})')

    def first_def(name):
        ds = [st for st in astx.walk_stmts(get.node.body) if isinstance(st, ast.Assign) and len(st.targets) == 1
              and astx.path(st.targets[0]) == name]
        return ds[0].value if ds else None
    hits = [st for st in astx.walk_stmts(get.node.body) if isinstance(st, ast.Assign) and len(st.targets) == 1
            and astx.path(st.targets[0]) == 'sol_array' and not
            (isinstance(st.value, ast.Constant) and st.value.value is None)]
    n_ok = 0
    for st in hits:
        guard = next((a for a in astx.ancestors(st) if isinstance(a, ast.If) and isinstance(a.test, ast.Name)), None)
        val = st.value
        base, sgn = _signed(val)
        if any(isinstance(n, ast.Name) and n.id == R for n in astx.walk(val)) and \
                not any(isinstance(n, ast.Name) and n.id == S for n in astx.walk(val)):
            out.bad(get, st, f'the cache hit returns {astx.src(val)}, built from the first element of the entry '
                    '(the cached right-hand side, see add_solution) instead of the second (the cached solution)',
                    key='rhscache-reader')
            continue
        if isinstance(base, ast.Name) and base.id == S:
            # exact / negated hit: the comparison that guards it must carry the same sign on the cached rhs
            gdef = first_def(guard.test.id) if guard is not None else None
            if isinstance(gdef, ast.Call) and astx.callee_attr(gdef) != 'allclose':
                # the comparison may be passed through a helper (e.g. an all-ranks reduction): look inside
                inner = [c for c in astx.calls(gdef) if astx.callee_attr(c) == 'allclose']
                if len(inner) == 1:
                    gdef = inner[0]
            if not (isinstance(gdef, ast.Call) and astx.callee_attr(gdef) == 'allclose' and len(gdef.args) >= 2):
                out.unsure(get, st, 'guard of the cache hit is not an allclose(rhs, ±cached rhs) test')
                continue
            a0, a1 = gdef.args[0], gdef.args[1]
            b0, s0 = _signed(a0)
            b1, s1 = _signed(a1)
            if {astx.path(b0), astx.path(b1)} != {rhs_p, R}:
                out.bad(get, st, f'hit is guarded by a comparison of {astx.src(a0)} with {astx.src(a1)}, not of the '
                        'new rhs with the cached rhs', key='rhscache-guard')
                continue
            if s0 * s1 != sgn:
                out.bad(get, st, f'rhs matches {"-" if s0 * s1 < 0 else "+"}cached rhs but {"-" if sgn < 0 else "+"}'
                        'cached solution is returned', key='rhscache-sign')
                continue
            n_ok += 1
            out.ok(get, st, f'rhs == {"-" if sgn < 0 else ""}cached  ->  {"-" if sgn < 0 else ""}cached solution')
            continue
        # parallel hit: cached solution times a scalar
        if isinstance(val, ast.BinOp) and isinstance(val.op, ast.Mult):
            fac = val.right if astx.path(val.left) == S else val.left if astx.path(val.right) == S else None
            if fac is None:
                out.unsure(get, st, 'scaled hit does not multiply the cached solution')
                continue
            fexpr = first_def(fac.id) if isinstance(fac, ast.Name) else fac
            roles = {}
            for nm_node in {n.id for n in astx.walk(fexpr) if isinstance(n, ast.Name)}:
                dl = [x.value for x in astx.walk_stmts(get.node.body) if isinstance(x, ast.Assign)
                      and len(x.targets) == 1 and astx.path(x.targets[0]) == nm_node
                      and not (isinstance(x.value, ast.Constant) and x.value.value is None)]
                if nm_node == N:
                    roles[nm_node] = 'cn'
                elif dl and all(isinstance(d, ast.Call) and astx.callee_attr(d) in ('dot', 'vdot', 'allreduce')
                                for d in dl) and any(isinstance(d, ast.Call) and astx.callee_attr(d) in ('dot', 'vdot')
                                                     and {astx.path(a) for a in d.args} == {rhs_p, R} for d in dl):
                    roles[nm_node] = 'dot'
                elif dl and all(astx.mentions(d, rhs_p) and not astx.mentions(d, R) and
                                any(astx.callee_attr(c) in ('norm', 'sqrt') for c in astx.calls(d)) for d in dl):
                    roles[nm_node] = 'rn'
                elif nm_node in ('np', 'numpy', 'abs'):
                    continue
                else:
                    roles[nm_node] = None
            if None in roles.values():
                out.unsure(get, st, f'cannot assign roles to the names in the scale factor {astx.src(fexpr)}')
                continue
            bad = None
            for c in (2.0, -3.0, 0.5, -1.5):
                nrm = 2.0
                vals = dict(dot=c * nrm * nrm, rn=abs(c) * nrm, cn=nrm)
                try:
                    got = _Num({k: vals[r] for k, r in roles.items()}).ev(fexpr)
                except AnalysisError as e:
                    out.unsure(get, st, str(e))
                    bad = 'unsure'
                    break
                if abs(got - c) > 1e-12:
                    bad = (c, got)
                    break
            if bad is None:
                n_ok += 1
                out.ok(get, st, f'rhs = c*cached -> ({astx.src(fexpr)}) == c for c in (2, -3, 0.5, -1.5)')
            elif bad != 'unsure':
                out.bad(get, st, f'for rhs = {bad[0]} * cached rhs the cached solution is scaled by {bad[1]:g} '
                        f'({astx.src(fexpr)}): the replayed adjoint solution is not the solution of the new '
                        'right-hand side', key='rhscache-scale')
            continue
        out.unsure(get, st, f'unrecognised cache hit value {astx.src(val)}')
    if n_ok < 3 and not any(True for _ in []):
        pass


# --------------------------------------------------------------------------- explicit solve_linear mirror
@rule('C02.explicit_solve', floor=2)
def explicit_solve(repo, out):
    """Explicit-style _solve_linear (ExplicitComponent, and Group with approximated derivatives): what the
    method does in rev mode is what it does in fwd mode with d_outputs and d_residuals exchanged."""
    swap = {'d_outputs': 'd_residuals', 'd_residuals': 'd_outputs'}

    def spec(stmts, fwd, env, ren):
        """Skeleton of the statements executed in one mode: mode tests resolved, vector aliases
        (`sol, rhs = d_outputs, d_residuals`) substituted, plain definitions dropped."""
        res = []
        for s_ in stmts:
            if isinstance(s_, ast.If):
                mf = is_mode_fwd(s_.test)
                if mf is not None:
                    res += spec(s_.body if mf == fwd else s_.orelse, fwd, env, ren)
                    continue
                t = s_.test
                atoms = t.values if isinstance(t, ast.BoolOp) else [t]
                res.append(('if', type(t.op).__name__ if isinstance(t, ast.BoolOp) else '',
                            tuple(sorted(astx.dump(x) for x in atoms)), tuple(spec(s_.body, fwd, dict(env), ren)),
                            tuple(spec(s_.orelse, fwd, dict(env), ren))))
            elif isinstance(s_, ast.With):
                listed = []
                for it in s_.items:
                    c = it.context_expr
                    if isinstance(c, ast.Call) and astx.callee_attr(c) == '_unscaled_context':
                        for kw, pos in (('outputs', 0), ('residuals', 1)):
                            a_ = astx.arg(c, pos, kw)
                            listed.append((kw, tuple(sorted(env.get(astx.path(e), astx.path(e)) for e in a_.elts))
                                           if a_ is not None and isinstance(a_, (ast.List, ast.Tuple)) else None))
                    else:
                        listed.append(('other', astx.dump(c)))
                res.append(('with', tuple(sorted(listed)), tuple(spec(s_.body, fwd, env, ren))))
            elif isinstance(s_, ast.Pass):
                continue
            elif isinstance(s_, ast.Assign) and len(s_.targets) == 1:
                tg, v = s_.targets[0], s_.value
                pairs = list(zip(tg.elts, v.elts)) if isinstance(tg, ast.Tuple) and isinstance(v, ast.Tuple) and \
                    len(tg.elts) == len(v.elts) else [(tg, v)]
                if all(isinstance(x, ast.Name) and isinstance(y, ast.Name) for x, y in pairs):
                    new_env = {x.id: env.get(y.id, y.id) for x, y in pairs}
                    env.update(new_env)
                    continue
                if all(isinstance(x, ast.Name) and astx.path(y) and (astx.path(y) or '').startswith('self.')
                       for x, y in pairs):
                    continue        # definitions such as d_outputs = self._doutputs
                res.append(('stmt', dumpr(s_, env, ren)))
            else:
                res.append(('stmt', dumpr(s_, env, ren)))
        return res

    def dumpr(node, env, ren):
        c = pathx._cp(node)
        for n in ast.walk(c):
            if isinstance(n, ast.Name):
                n.id = env.get(n.id, n.id)
                if ren and n.id in swap:
                    n.id = swap[n.id]
        return astx.dump(c)
    for rel, qn in (('openmdao/core/explicitcomponent.py', 'ExplicitComponent._solve_linear'),
                    ('openmdao/core/group.py', 'Group._solve_linear')):
        fn = repo.func(rel, qn)
        if not any(is_mode_fwd(x.test) is not None for x in astx.walk_stmts(fn.node.body) if isinstance(x, ast.If)) \
                and not any(isinstance(x, ast.IfExp) and is_mode_fwd(x.test) is not None for x in astx.walk(fn.node)):
            raise AnalysisError(f'{qn}: no mode test found')
        body = astx.strip_doc(fn.node.body)
        a = spec(body, True, {}, False)
        b = spec(body, False, {}, True)
        if not any('set_vec' in str(x) for x in a):
            out.unsure(fn, fn.node, 'the explicit solve (set_vec) was not found in the fwd specialisation')
        elif a == b:
            out.ok(fn, fn.node, 'rev = fwd with d_outputs and d_residuals exchanged (same guards, same contexts)')
        else:
            diff = next((i for i, (x, y) in enumerate(zip(a, b)) if x != y), min(len(a), len(b)))
            mi = mode_ifs(fn)
            where = mi[0][0] if mi else fn.node
            out.bad(fn, where, 'what _solve_linear does in rev mode is not what it does in fwd mode with d_outputs and '
                    f'd_residuals exchanged (first difference at step {diff + 1} of the specialised bodies: the '
                    'guards, the unscaled contexts or the operations differ), so the two are not adjoint for every '
                    'scaling', key='explicit-solve-mirror')


# --------------------------------------------------------------------------- cached vjp functions
VJP_FILES = ['openmdao/components/jax_explicit_comp.py', 'openmdao/components/jax_implicit_comp.py']


@rule('C02.vjpcache', floor=2)
def vjpcache(repo, out):
    """A cached reverse-mode (vjp) function is keyed on every vector its linearisation point is read from."""
    n = 0
    for rel in VJP_FILES:
        if not repo.exists(rel):
            continue
        m = repo.module(rel)
        for f in m.funcs.values():
            for st in astx.walk_stmts(f.node.body):
                if not (isinstance(st, ast.If) and isinstance(st.test, ast.Compare) and len(st.test.ops) == 1 and
                        isinstance(st.test.ops[0], ast.NotEq)):
                    continue
                l, r = st.test.left, st.test.comparators[0]
                key, slot = (l, r) if isinstance(l, ast.Name) else (r, l)
                sp = astx.path(slot) or ''
                if not (isinstance(key, ast.Name) and sp.startswith('self.') and sp.endswith('_hash')):
                    continue
                if not any((astx.path(t) or '').endswith('_vjp_fun') for x in astx.walk_stmts(st.body)
                           if isinstance(x, ast.Assign) for t in astx.assigned_targets(x)):
                    continue
                n += 1
                kdefs = [x for x in astx.walk_stmts(f.node.body) if isinstance(x, ast.Assign) and
                         astx.path(x.targets[0]) == key.id]
                stores = [x for x in astx.walk_stmts(st.body) if isinstance(x, ast.Assign) and
                          astx.path(x.targets[0]) == sp and astx.path(x.value) == key.id]
                if len(kdefs) != 1:
                    out.unsure(f, st, 'cache key is not defined exactly once')
                    continue
                if not stores:
                    out.bad(f, st, f'{sp} is not updated with the key the cached function was built for',
                            key='vjpcache-store')
                    continue
                kexpr = kdefs[0].value
                params = {a.arg for a in f.node.args.args}
                used = set()
                for c in astx.calls(ast.Module(body=st.body, type_ignores=[])):
                    if astx.callee_attr(c) == '_get_compute_primal_invals':
                        for a in c.args:
                            p_ = astx.path(a)
                            if p_:
                                used.add(p_)
                missing = []
                for u in sorted(used):
                    last = u.split('.')[-1].lstrip('_')
                    if u in params and not last.startswith('discrete'):
                        okk = any(astx.callee_attr(c) == 'get_hash' and astx.path(astx.receiver(c)) == u
                                  for c in astx.calls(kexpr))
                    else:
                        okk = any((astx.path(n_) or '').split('.')[-1].lstrip('_') == last
                                  for n_ in astx.walk(kexpr) if isinstance(n_, (ast.Name, ast.Attribute)))
                    if not okk:
                        missing.append(u)
                if not used:
                    out.unsure(f, st, 'linearisation point of the cached function not recognised')
                elif missing:
                    out.bad(f, kdefs[0], f'the cached vjp function is built from {sorted(used)} but the key '
                            f'{astx.src(kexpr)} does not cover {missing}: after only {missing} change the stale '
                            'function is reused and the rev product is no longer the adjoint of the fwd product',
                            key='vjpcache-key')
                else:
                    out.ok(f, kdefs[0], f'key covers {sorted(used)}')
    if n < 2:
        raise AnalysisError('cached vjp sites not found')


# --------------------------------------------------------------------------- composition order
def _call_order(stmts, names):
    """Sequence of callee names (restricted to names) in source order inside stmts."""
    seq = []
    for st in astx.walk_stmts(stmts):
        if isinstance(st, (ast.If, ast.For, ast.While, ast.With, ast.Try)):
            exprs = [st.test] if isinstance(st, (ast.If, ast.While)) else \
                [st.iter] if isinstance(st, ast.For) else \
                [i.context_expr for i in st.items] if isinstance(st, ast.With) else []
        else:
            exprs = [st]
        cs = []
        for e in exprs:
            cs += [c for c in astx.calls(e)]
        cs.sort(key=lambda c: (c.lineno, c.col_offset))
        for c in cs:
            n = astx.callee_attr(c)
            if n in names:
                seq.append(n)
    return seq


@rule('C02.order', floor=3)
def order(repo, out):
    """Reverse mode composes transfer / apply / solve in the reverse order of forward mode."""
    # Group._apply_linear: fwd transfer -> children ; rev children -> transfer
    fn = repo.func('openmdao/core/group.py', 'Group._apply_linear')
    g = cfgm.build(fn)
    xf = g.calling('_transfer')
    ch = [n for n in g.calling('_apply_linear') if any(astx.path(astx.receiver(c)) not in ('self', None)
                                                       for c in n.calls() if astx.callee_attr(c) == '_apply_linear')]
    if not xf or not ch:
        raise AnalysisError('Group._apply_linear: transfer / child apply not found')

    def guard_mode(n):
        for a in astx.ancestors(n.ast):
            if isinstance(a, ast.If):
                f = is_mode_fwd(a.test)
                if f is not None:
                    return f if astx.in_body(n.ast, a, 'body') else (not f)
        return None
    fx = [n for n in xf if guard_mode(n) is True]
    rx = [n for n in xf if guard_mode(n) is False]
    if len(fx) != 1 or len(rx) != 1:
        out.bad(fn, fn.node, 'expected exactly one transfer under mode==fwd and one under mode==rev',
                key='order-group-transfer')
    else:
        # fwd transfer dominates child apply; rev transfer is post-dominated... i.e. children dominate rev transfer
        c0 = ch[0]
        # a loop over children may run zero times: order is judged at the loop header
        loop = astx.enclosing(c0.ast, (ast.For, ast.While))
        heads = g.nodes_of(loop) if loop is not None and astx.in_body(loop, fn.node, 'body') else ch
        w1 = g.path([g.entry], heads, avoid=fx, labels=cfgm.noexc, edge_ok=_assume_mode(True))
        w2 = g.path([g.entry], [rx[0]], avoid=heads, labels=cfgm.noexc, edge_ok=_assume_mode(False))
        if w1 is not None:
            out.bad(fn, fx[0].ast, 'fwd: children are applied before/without the transfer', key='order-group-fwd')
        elif w2 is not None:
            out.bad(fn, rx[0].ast, 'rev: the transfer happens before/without applying the children',
                    key='order-group-rev')
        else:
            out.ok(fn, c0.ast, 'fwd: transfer -> children; rev: children -> transfer')
    # LinearBlockGS
    fn = repo.func('openmdao/solvers/linear/linear_block_gs.py', 'LinearBlockGS._single_iteration')
    mi = [m for m in mode_ifs(fn) if any(astx.callee_attr(c) == '_solve_linear' for s in m[1] for c in astx.calls(s))]
    if len(mi) != 1:
        raise AnalysisError('LinearBlockGS._single_iteration: mode branch not found')
    st, fwd, rev = mi[0]
    names = {'_transfer', '_apply_linear', '_solve_linear'}
    sf = [n for n in _call_order(fwd, names)]
    # rev: only the local-subsystem branch
    sr = _call_order(rev, names)
    want_f = ['_transfer', '_apply_linear', '_solve_linear']
    if sf != want_f:
        out.bad(fn, st, f'fwd sweep must be transfer -> apply_linear -> solve_linear per subsystem (found {sf})',
                key='order-lbgs-fwd')
    elif sr[:3] != ['_transfer', '_solve_linear', '_apply_linear']:
        out.bad(fn, st, 'rev sweep must be transfer -> solve_linear -> apply_linear per subsystem '
                f'(found {sr[:3]})', key='order-lbgs-rev')
    elif not any(astx.callee_attr(c) == 'reverse' for s in rev for c in astx.calls(s)) and \
            not any(astx.callee_attr(c) == 'reversed' for s in rev for c in astx.calls(s)):
        out.bad(fn, st, 'rev sweep must visit the subsystems in reverse order', key='order-lbgs-reverse')
    else:
        out.ok(fn, st, 'fwd: transfer, apply, solve in order; rev: reversed list, transfer, solve, apply')
    # LinearBlockJac
    fn = repo.func('openmdao/solvers/linear/linear_block_jac.py', 'LinearBlockJac._single_iteration')
    mi = mode_ifs(fn)
    if len(mi) != 1:
        raise AnalysisError('LinearBlockJac._single_iteration: mode branch not found')
    st, fwd, rev = mi[0]
    sf, sr = _call_order(fwd, names), _call_order(rev, names)
    if sf != ['_transfer', '_apply_linear', '_solve_linear']:
        out.bad(fn, st, f'fwd must be transfer -> apply -> solve (found {sf})', key='order-lbj-fwd')
    elif sr != ['_apply_linear', '_transfer', '_solve_linear']:
        out.bad(fn, st, f'rev must be apply -> transfer -> solve (found {sr})', key='order-lbj-rev')
    else:
        out.ok(fn, st, 'fwd: transfer, apply, solve; rev: apply, transfer, solve')


def _assume_mode(fwd):
    def ok(n, m, lab):
        if n.kind == 'test' and lab in ('true', 'false'):
            f = is_mode_fwd(n.ast.test)
            if f is not None:
                return (lab == 'true') == (f == fwd)
        return True
    return ok


# --------------------------------------------------------------------------- mask cache
def _single_aliases(fn):
    """{local: value expr} for locals bound exactly once in fn by a plain `name = expr`."""
    cnt, val = {}, {}
    for n in astx.walk(fn.node):
        if isinstance(n, ast.Name) and isinstance(n.ctx, (ast.Store, ast.Del)):
            cnt[n.id] = cnt.get(n.id, 0) + 1
            par = getattr(n, '_parent', None)
            if isinstance(par, ast.Assign) and len(par.targets) == 1 and par.targets[0] is n:
                val[n.id] = par.value
    return {k: v for k, v in val.items() if cnt.get(k) == 1}


def _expand(e, al, depth=0):
    """Copy of expression e with single-assignment locals replaced by their values (not through calls)."""
    if depth > 4:
        return e
    env = {k: v for k, v in al.items() if not any(isinstance(x, ast.Call) for x in astx.walk(v))}
    out = pathx._Sub(env).visit(pathx._cp(e))
    if astx.dump(out) != astx.dump(e):
        return _expand(out, al, depth + 1)
    return out


@rule('C02.maskcache', floor=1)
def maskcache(repo, out):
    """The cached input-scope mask is keyed by everything it is computed from (scope and mode)."""
    fn = repo.func('openmdao/jacobians/jacobian.py', 'SplitJacobian._get_mask')
    params = {a.arg for a in fn.node.args.args if a.arg != 'self'}
    al = _single_aliases(fn)
    n = 0
    for st in astx.walk_stmts(fn.node.body):
        if not isinstance(st, ast.Try) or not st.handlers:
            continue
        # try: v = cache[K] | return cache[K]   except KeyError: v = E ; cache[K2] = v
        look = None
        for s_ in st.body:
            v = s_.value if isinstance(s_, (ast.Assign, ast.Return)) else None
            if isinstance(v, ast.Subscript):
                look = (s_, v)
                break
        if look is None:
            continue
        lst, lsub = look
        key = _expand(lsub.slice, al)
        cache = astx.path(_expand(lsub.value, al))
        if not (cache or '').startswith('self.'):
            continue
        store = [s_ for h in st.handlers for s_ in h.body if isinstance(s_, ast.Assign)
                 and isinstance(s_.targets[0], ast.Subscript)
                 and astx.path(_expand(s_.targets[0].value, al)) == cache]
        if not store:
            out.unsure(fn, st, 'cache miss branch does not store into the cache')
            continue
        stored = store[0].value
        comp = None
        if isinstance(stored, ast.Name):
            cs = [s_ for h in st.handlers for s_ in h.body if isinstance(s_, ast.Assign)
                  and astx.path(s_.targets[0]) == stored.id]
            comp = cs[0].value if cs else None
        elif isinstance(stored, ast.Call):
            comp = stored
        if comp is None:
            out.unsure(fn, st, 'cache miss branch not in the `v = E; cache[K] = v` form')
            continue
        n += 1
        used = {x for x in astx.names(comp) if x in params}
        in_key = {x for x in astx.names(key) if x in params}
        skey = _expand(store[0].targets[0].slice, al)
        if not astx.same(key, skey):
            out.bad(fn, store[0], f'mask is looked up under {astx.src(key)} but stored under '
                    f'{astx.src(skey)}', key='maskcache-key-mismatch')
        elif not used <= in_key:
            out.bad(fn, lst, f'cached mask is computed from {sorted(used)} but the cache key {astx.src(key)} '
                    f'only depends on {sorted(in_key)}: a mask computed for one matvec scope is reused for another '
                    '(fwd applies J.Mask, rev Mask.J^T with a stale Mask: not adjoint to each other)',
                    key='maskcache-key')
        else:
            out.ok(fn, lst, f'key {astx.src(key)} covers {sorted(used)}')
    if n == 0:
        # no cache at all is fine (mask recomputed every time)
        rets = [s_ for s_ in astx.walk_stmts(fn.node.body) if isinstance(s_, ast.Return)]
        if rets and all(isinstance(r.value, ast.Call) and astx.callee_attr(r.value) == 'get_mask' for r in rets):
            out.ok(fn, rets[0], 'mask recomputed on every call (no cache)')
        else:
            raise AnalysisError('SplitJacobian._get_mask: cache idiom not recognised')


# --------------------------------------------------------------------------- mode tables
OUTK = ('_doutputs', 'd_outputs')
RESK = ('_dresiduals', 'd_residuals')


def _vkind(e):
    while isinstance(e, ast.Call) and astx.callee_attr(e) in ('asarray',) and astx.receiver(e) is not None:
        e = astx.receiver(e)
    p = astx.path(e)
    if p is None:
        return None
    last = p.split('.')[-1]
    if last in OUTK:
        return 'O'
    if last in RESK:
        return 'R'
    c = astx.const_str(e) if isinstance(e, ast.Constant) else None
    return None


MODE_TABLE_FUNCS = [
    ('openmdao/solvers/linear/direct.py', 'DirectSolver.solve'),
    ('openmdao/solvers/linear/scipy_iter_solver.py', 'ScipyKrylov._mat_vec'),
    ('openmdao/solvers/linear/scipy_iter_solver.py', 'ScipyKrylov.solve'),
    ('openmdao/solvers/linear/scipy_iter_solver.py', 'ScipyKrylov._apply_precon'),
    ('openmdao/solvers/solver.py', 'BlockLinearSolver._iter_get_norm'),
    ('openmdao/solvers/solver.py', 'BlockLinearSolver._update_rhs_vec'),
    ('openmdao/solvers/linear/linear_block_gs.py', 'LinearBlockGS._single_iteration'),
    ('openmdao/solvers/linear/user_defined.py', 'LinearUserDefined.solve'),
]


@rule('C02.modes', floor=5)
def modes(repo, out):
    """x/b vector selection and transposition flags are exact swaps between fwd and rev."""
    for rel, qn in MODE_TABLE_FUNCS:
        fn = repo.try_func(rel, qn)
        if fn is None:
            raise AnalysisError(f'{rel}:{qn} vanished')
        for st, fwd, rev in mode_ifs(fn):
            def table(branch):
                t = {}
                for s in branch:
                    if isinstance(s, ast.Assign) and len(s.targets) == 1 and isinstance(s.targets[0], ast.Name):
                        t[s.targets[0].id] = s.value
                return t
            tf, tr = table(fwd), table(rev)
            common = [k for k in tf if k in tr]
            vec_names = [k for k in common if _vkind(tf[k]) or _vkind(tr[k])]
            if not vec_names and not any(k.startswith('trans') for k in common):
                continue
            bad = False
            for k in vec_names:
                a, b = _vkind(tf[k]), _vkind(tr[k])
                if a is None or b is None or a == b:
                    out.bad(fn, st, f'{k} is bound to the same kind of vector in fwd ({astx.src(tf[k])}) and rev '
                            f'({astx.src(tr[k])}); the roles of d_outputs and d_residuals must swap', key=f'modes-swap-{k}')
                    bad = True
                elif k.startswith('x') and a != 'O':
                    out.bad(fn, st, f'{k} (unknown/operand vector) must be the output vector in fwd mode',
                            key=f'modes-orient-{k}')
                    bad = True
                elif k.startswith('b') and a != 'R':
                    out.bad(fn, st, f'{k} (right-hand side / result vector) must be the residual vector in fwd mode',
                            key=f'modes-orient-{k}')
                    bad = True
            # the two names in one table must not collapse onto the same vector
            if len(vec_names) == 2 and not bad:
                k1, k2 = vec_names
                if _vkind(tf[k1]) == _vkind(tf[k2]):
                    out.bad(fn, st, f'{k1} and {k2} refer to the same vector kind in fwd mode', key='modes-collapse')
                    bad = True
            for k in common:
                if k.startswith('trans'):
                    a, b = tf[k], tr[k]
                    if not (isinstance(a, ast.Constant) and isinstance(b, ast.Constant)):
                        continue
                    if a.value == b.value or a.value not in (0, 'N') or b.value not in (1, 'T'):
                        out.bad(fn, st, f'{k}: fwd must solve with the matrix ({a.value!r} expected 0/N) and rev with '
                                f'its transpose ({b.value!r} expected 1/T)', key=f'modes-{k}')
                        bad = True
            if not bad:
                out.ok(fn, st, f'swap table over {vec_names + [k for k in common if k.startswith("trans")]}')
    # helpers that hand out the (solution, rhs) vectors by mode: `if fwd: return A, B` / `return B, A`
    for rel in sorted({r for r, _ in MODE_TABLE_FUNCS}):
        for f in repo.module(rel).funcs.values():
            if len(list(astx.walk_stmts(f.node.body))) > 12 or \
                    not any(isinstance(x, ast.Return) and isinstance(x.value, ast.Tuple)
                            for x in astx.walk_stmts(f.node.body)):
                continue
            try:
                pf = pathx.mode_paths(f, is_mode_fwd, True, subst=False)
                pr = pathx.mode_paths(f, is_mode_fwd, False, subst=False)
            except AnalysisError:
                continue
            if len(pf) != 1 or len(pr) != 1 or not isinstance(pf[0].ret, ast.Tuple) or \
                    not isinstance(pr[0].ret, ast.Tuple) or len(pf[0].ret.elts) != len(pr[0].ret.elts):
                continue
            kf = [_vkind(e) for e in pf[0].ret.elts]
            kr = [_vkind(e) for e in pr[0].ret.elts]
            if not any(kf) and not any(kr):
                continue
            if None in kf or None in kr or any(a == b for a, b in zip(kf, kr)) or len(set(kf)) != len(kf):
                out.bad(f, f.node, f'returns vector kinds {kf} in fwd and {kr} in rev: every slot must swap between '
                        'd_outputs and d_residuals', key='modes-helper-swap')
            else:
                out.ok(f, f.node, f'mode-selected vector tuple {kf} / {kr}')
    # Problem.compute_jacvec_product
    fn = repo.func('openmdao/core/problem.py', 'Problem.compute_jacvec_product')
    done = False
    for st, fwd, rev in mode_ifs(fn):
        def kinds(branch):
            for s in branch:
                if isinstance(s, ast.Assign) and isinstance(s.targets[0], ast.Tuple) and \
                        [astx.path(t) for t in s.targets[0].elts] == ['lkind', 'rkind'] and \
                        isinstance(s.value, ast.Tuple):
                    return [astx.const_str(e) for e in s.value.elts]
            return None

        def names_(branch):
            for s in branch:
                if isinstance(s, ast.Assign) and isinstance(s.targets[0], ast.Tuple) and \
                        [astx.path(t) for t in s.targets[0].elts] == ['lnames', 'rnames'] and \
                        isinstance(s.value, ast.Tuple):
                    return [astx.path(e) for e in s.value.elts]
            return None
        kf, kr = kinds(fwd), kinds(rev)
        nf, nr = names_(fwd), names_(rev)
        if kf is None or kr is None:
            continue
        done = True
        if kf != ['output', 'residual'] or kr != ['residual', 'output']:
            out.bad(fn, st, f'fwd must seed the residual vector and read the output vector, rev the opposite '
                    f'(found fwd {kf}, rev {kr})', key='modes-jvp-kinds')
        elif nf != ['of', 'wrt'] or nr != ['wrt', 'of']:
            out.bad(fn, st, f'fwd reads `of`/seeds `wrt`, rev reads `wrt`/seeds `of` (found fwd {nf}, rev {nr})',
                    key='modes-jvp-names')
        else:
            out.ok(fn, st, 'fwd: seed wrt->residual, read of<-output; rev: seed of->output, read wrt<-residual')
    if not done:
        raise AnalysisError('compute_jacvec_product: lkind/rkind table not found')


# --------------------------------------------------------------------------- self-test
_DT = 'openmdao/vectors/default_transfer.py'
_JAC = 'openmdao/jacobians/jacobian.py'
_DJ = 'openmdao/jacobians/dictionary_jacobian.py'
selftest(
    'C02',
    Mutant('subjac-drop-T', SUBJAC, "        val = self.info['val'].T if randgen is None else self.get_rand_val(randgen).T\n        self._in_view += val @ self._res_view",
           "        val = self.info['val'].T if randgen is None else self.get_rand_val(randgen)\n        self._in_view += val @ self._res_view", 'C02.subjac'),
    Mutant('subjac-no-T-at-all', SUBJAC, "        val = self.info['val'].T if randgen is None else self.get_rand_val(randgen).T\n        self._out_view += val @ self._res_view",
           "        val = self.info['val'] if randgen is None else self.get_rand_val(randgen)\n        self._out_view += val @ self._res_view", 'C02.subjac'),
    Mutant('subjac-coo-rows-cols', SUBJAC, "        self._in_view += bincount(self.cols, self._res_view[self.rows] * val,",
           "        self._in_view += bincount(self.rows, self._res_view[self.cols] * val,", 'C02.subjac'),
    Mutant('subjac-wrong-view', SUBJAC, "        self._out_view += self._res_view * val", "        self._in_view += self._res_view * val", 'C02.subjac'),
    Mutant('subjac-view-slice', SUBJAC, "            self._in_view = d_inputs.get_slice(self.col_slice)\n            self._res_view = d_residuals.get_slice(self.row_slice)\n\n        val = self.info['val'] if randgen is None else self.get_rand_val(randgen)\n        self._res_view += self._in_view * val",
           "            self._in_view = d_inputs.get_slice(self.row_slice)\n            self._res_view = d_residuals.get_slice(self.row_slice)\n\n        val = self.info['val'] if randgen is None else self.get_rand_val(randgen)\n        self._res_view += self._in_view * val", 'C02.subjac'),
    Mutant('subjac-assign-not-accumulate', SUBJAC, "        self._res_view += self._out_view * val", "        self._res_view -= self._out_view * val", 'C02.subjac'),
    Mutant('map-cross', SUBJAC, "            self.apply_fwd = self._apply_fwd_output\n            self.apply_rev = self._apply_rev_output",
           "            self.apply_fwd = self._apply_fwd_output\n            self.apply_rev = self._apply_rev_input", 'C02.map'),
    Mutant('transfer-swap-inds', _DT, "out_vec.iadd(np.bincount(self._out_inds, in_vec._get_data()[self._in_inds],",
           "out_vec.iadd(np.bincount(self._in_inds, in_vec._get_data()[self._out_inds],", 'C02.transfer'),
    Mutant('transfer-minlength', _DT, "minlength=out_vec._data.size))", "minlength=in_vec._data.size))", 'C02.transfer'),
    Mutant('prod-no-transpose', 'openmdao/matrices/coo_matrix.py', "            return self.transpose() @ self._get_masked_arr(in_vec, mask)",
           "            return self._matrix @ self._get_masked_arr(in_vec, mask)", 'C02.prod'),
    Mutant('prod-dense-mask', 'openmdao/matrices/dense_matrix.py', "                return self.transpose() @ self._get_masked_arr(in_vec, mask)",
           "                return self.transpose() @ in_vec", 'C02.prod'),
    Mutant('jac-sign', _JAC, "                        doutarr -= dresids", "                        doutarr += dresids", 'C02.jac_apply'),
    Mutant('jac-mask-rev-arg', _JAC, "                    arr = drdi_mtx._prod(dresids, mode)\n                    mask = self._get_mask(d_inputs, mode)\n                    if mask is not None:\n                        arr[mask] = 0.0\n                    d_inputs += arr",
           "                    d_inputs += drdi_mtx._prod(dresids, mode, self._get_mask(d_inputs, mode))", 'C02.jac_apply'),
    Mutant('jac-rev-wrong-matrix', _JAC, "                        doutarr += self._dr_do_mtx._prod(dresids, mode)", "                        doutarr += drdi_mtx._prod(dresids, mode)", 'C02.jac_apply'),
    Mutant('dictjac-apply-fwd-in-rev', _DJ, "                            subjac.apply_rev(d_inputs, d_outputs, d_residuals, randgen)",
           "                            subjac.apply_fwd(d_inputs, d_outputs, d_residuals, randgen)", 'C02.jac_apply'),
    Mutant('dictjac-missing-identity', _DJ, "                    doutarr = d_outputs.asarray()\n                    doutarr -= dresids", "                    doutarr = d_outputs.asarray()", 'C02.jac_apply'),
    Mutant('order-group-rev', 'openmdao/core/group.py', "            if mode == 'fwd':\n                self._transfer('linear', mode)\n                for s in self._relevance.filter(self._subsystems_myproc, relevant=False):",
           "            if True:\n                self._transfer('linear', mode)\n            if mode == 'fwd':\n                for s in self._relevance.filter(self._subsystems_myproc, relevant=False):", 'C02.order'),
    Mutant('order-lbj-rev', 'openmdao/solvers/linear/linear_block_jac.py', "            system._transfer('linear', mode)\n\n            system._doutputs *= -1.0",
           "            system._doutputs *= -1.0", 'C02.order', also=[('openmdao/solvers/linear/linear_block_jac.py', "        else:  # rev\n            for i, subsys in enumerate(subs):", "        else:  # rev\n            system._transfer('linear', mode)\n            for i, subsys in enumerate(subs):")]),
    Mutant('modes-direct-trans', 'openmdao/solvers/linear/direct.py', "            trans_lu = 1\n            trans_splu = 'T'", "            trans_lu = 1\n            trans_splu = 'N'", 'C02.modes'),
    Mutant('modes-krylov-swap', 'openmdao/solvers/linear/scipy_iter_solver.py', "            x_vec = system._dresiduals\n            b_vec = system._doutputs\n\n        x_vec.set_val(in_arr)",
           "            x_vec = system._doutputs\n            b_vec = system._dresiduals\n\n        x_vec.set_val(in_arr)", 'C02.modes'),
    Mutant('modes-jvp', 'openmdao/core/problem.py', "            lkind, rkind = 'residual', 'output'", "            lkind, rkind = 'output', 'residual'", 'C02.modes'),
    Mutant('maskcache-mode-only', _JAC, "mask = self._mask_caches[(d_inputs._names, mode)]", "mask = self._mask_caches[mode]", 'C02.maskcache',
           also=[(_JAC, "self._mask_caches[(d_inputs._names, mode)] = mask", "self._mask_caches[mode] = mask")]),
    Mutant('maskcache-key-mismatch', _JAC, "self._mask_caches[(d_inputs._names, mode)] = mask", "self._mask_caches[(mode, d_inputs._names)] = mask", 'C02.maskcache'),
    Mutant('rhscache-norm-ratio', RHSC, "scaler = dot_product / rhs_cache_norm**2", "scaler = rhs_norm / rhs_cache_norm", 'C02.rhscache'),
    Mutant('rhscache-neg-returns-pos', RHSC, "                sol_array = -sol_cache", "                sol_array = sol_cache", 'C02.rhscache'),
    Mutant('rhscache-unpack-swapped', RHSC, "rhs_cache, sol_cache, rhs_cache_norm = self._caches[i]", "sol_cache, rhs_cache, rhs_cache_norm = self._caches[i]", 'C02.rhscache'),
    Mutant('rhscache-writer-swapped', RHSC, "self._caches.append((rhs, solution, rhs_norm))", "self._caches.append((solution, rhs, rhs_norm))", 'C02.rhscache'),
    Twin('twin-rhscache-scaler-form', RHSC, "scaler = dot_product / rhs_cache_norm**2", "scaler = dot_product / (rhs_cache_norm * rhs_cache_norm)"),
    Mutant('explicit-solve-rev-guard-narrowed', 'openmdao/core/explicitcomponent.py',
           "            if self._has_resid_scaling or self._has_output_scaling:\n                with self._unscaled_context(outputs=[d_outputs], residuals=[d_residuals]):\n                    d_residuals.set_vec(d_outputs)",
           "            if self._has_resid_scaling:\n                with self._unscaled_context(outputs=[d_outputs], residuals=[d_residuals]):\n                    d_residuals.set_vec(d_outputs)", 'C02.explicit_solve'),
    Mutant('explicit-solve-rev-sign', 'openmdao/core/explicitcomponent.py', "            d_residuals *= -1.0", "            d_residuals *= 1.0", 'C02.explicit_solve'),
    Twin('twin-explicit-solve-flags-swapped', 'openmdao/core/explicitcomponent.py',
         "            if self._has_resid_scaling or self._has_output_scaling:\n                with self._unscaled_context(outputs=[d_outputs], residuals=[d_residuals]):\n                    d_residuals.set_vec(d_outputs)",
         "            if self._has_output_scaling or self._has_resid_scaling:\n                with self._unscaled_context(residuals=[d_residuals], outputs=[d_outputs]):\n                    d_residuals.set_vec(d_outputs)"),
    Mutant('vjpcache-implicit-inputs-only', 'openmdao/components/jax_implicit_comp.py',
           "inhash = (inputs.get_hash(), outputs.get_hash()) + tuple(self._discrete_inputs.values())",
           "inhash = (inputs.get_hash(),) + tuple(self._discrete_inputs.values())", 'C02.vjpcache'),
    Mutant('vjpcache-explicit-no-discrete', 'openmdao/components/jax_explicit_comp.py',
           "            inhash = ((inputs.get_hash(),) + tuple(self._discrete_inputs.values()) +\n                      self.get_self_statics())",
           "            inhash = (inputs.get_hash(),) + self.get_self_statics()", 'C02.vjpcache'),
    Mutant('vjpcache-hash-not-stored', 'openmdao/components/jax_implicit_comp.py', "                self._vjp_hash = inhash\n", "                pass\n", 'C02.vjpcache'),
    Twin('twin-vjpcache-key-order', 'openmdao/components/jax_implicit_comp.py',
         "inhash = (inputs.get_hash(), outputs.get_hash()) + tuple(self._discrete_inputs.values())",
         "inhash = tuple(self._discrete_inputs.values()) + (outputs.get_hash(), inputs.get_hash())"),
    Mutant('transfer-scaling-rev-unpaired', 'openmdao/core/group.py', "                if xfer._has_input_scaling:\n                    vec_inputs.scale_to_phys(mode='rev')\n", "", 'C02.transfer_scaling'),
    Twin('twin-maskcache-key-temp-alias', _JAC, "        try:\n            mask = self._mask_caches[(d_inputs._names, mode)]\n        except KeyError:\n            mask = d_inputs.get_mask()\n            self._mask_caches[(d_inputs._names, mode)] = mask\n\n        return mask",
         "        cache_key = (d_inputs._names, mode)\n        caches = self._mask_caches\n        try:\n            return caches[cache_key]\n        except KeyError:\n            mask = d_inputs.get_mask()\n            caches[cache_key] = mask\n\n        return mask"),
    Mutant('maskcache-key-temp-mode-only', _JAC, "        try:\n            mask = self._mask_caches[(d_inputs._names, mode)]\n        except KeyError:\n            mask = d_inputs.get_mask()\n            self._mask_caches[(d_inputs._names, mode)] = mask\n\n        return mask",
           "        cache_key = mode\n        caches = self._mask_caches\n        try:\n            return caches[cache_key]\n        except KeyError:\n            mask = d_inputs.get_mask()\n            caches[cache_key] = mask\n\n        return mask", 'C02.maskcache'),
    Twin('twin-rhscache-reversed-loop', RHSC, "        for i in range(len(self._caches) - 1, -1, -1):\n            rhs_cache, sol_cache, rhs_cache_norm = self._caches[i]\n",
         "        for rhs_cache, sol_cache, rhs_cache_norm in reversed(self._caches):\n"),
    Mutant('rhscache-reversed-loop-swapped', RHSC, "        for i in range(len(self._caches) - 1, -1, -1):\n            rhs_cache, sol_cache, rhs_cache_norm = self._caches[i]\n",
           "        for sol_cache, rhs_cache, rhs_cache_norm in reversed(self._caches):\n", 'C02.rhscache'),
    Mutant('solvec-lbgs-aitken-unconditional', 'openmdao/solvers/linear/linear_block_gs.py',
           "            if self._mode == 'fwd':\n                d_out_vec = system._doutputs\n            else:\n                d_out_vec = system._dresiduals\n\n            d_n = d_out_vec.asarray(copy=True)",
           "            d_out_vec = system._doutputs\n\n            d_n = d_out_vec.asarray(copy=True)", 'C02.solvec'),
    Mutant('solvec-lbgs-init-same-vector', 'openmdao/solvers/linear/linear_block_gs.py',
           "                self._delta_d_n_1 = self._system()._dresiduals.asarray(copy=True)", "                self._delta_d_n_1 = self._system()._doutputs.asarray(copy=True)", 'C02.solvec'),
    Twin('twin-solvec-mode-ne', 'openmdao/solvers/linear/linear_block_gs.py',
         "            if self._mode == 'fwd':\n                d_out_vec = system._doutputs\n            else:\n                d_out_vec = system._dresiduals\n\n            d_n = d_out_vec.asarray(copy=True)",
         "            if self._mode != 'fwd':\n                d_out_vec = system._dresiduals\n            else:\n                d_out_vec = system._doutputs\n\n            d_n = d_out_vec.asarray(copy=True)"),
    Twin('twin-solvec-ifexp', 'openmdao/solvers/linear/linear_block_gs.py',
         "            if self._mode == 'fwd':\n                d_out_vec = system._doutputs\n            else:\n                d_out_vec = system._dresiduals\n\n            d_n = d_out_vec.asarray(copy=True)",
         "            d_out_vec = system._doutputs if mode == 'fwd' else system._dresiduals\n\n            d_n = d_out_vec.asarray(copy=True)"),
    Mutant('solvec-ifexp-same-vector', 'openmdao/solvers/linear/linear_block_gs.py',
           "            if self._mode == 'fwd':\n                d_out_vec = system._doutputs\n            else:\n                d_out_vec = system._dresiduals\n\n            d_n = d_out_vec.asarray(copy=True)",
           "            d_out_vec = system._doutputs if mode == 'fwd' else system._doutputs\n\n            d_n = d_out_vec.asarray(copy=True)", 'C02.solvec'),
    Twin('twin-rhscache-entry-local', 'openmdao/solvers/linear/linear_rhs_checker.py',
         "            rhs_norm = np.sqrt(rhs_norm)\n            self._caches.append((rhs, solution, rhs_norm))\n",
         "            entry = (rhs, solution, np.sqrt(rhs_norm))\n            caches = self._caches\n            caches.append(entry)\n"),
    Mutant('rhscache-entry-local-swapped', 'openmdao/solvers/linear/linear_rhs_checker.py',
           "            rhs_norm = np.sqrt(rhs_norm)\n            self._caches.append((rhs, solution, rhs_norm))\n",
           "            entry = (solution, rhs, np.sqrt(rhs_norm))\n            caches = self._caches\n            caches.append(entry)\n", 'C02.rhscache'),
    Mutant('rhscache-entry-norm-of-solution', 'openmdao/solvers/linear/linear_rhs_checker.py',
           "            rhs_norm = np.sum(rhs**2)\n",
           "            rhs_norm = np.sum(solution**2)\n", 'C02.rhscache'),
    Mutant('explicit-solve-group-rev-direction', 'openmdao/core/group.py',
           "                    with self._unscaled_context(outputs=[d_outputs], residuals=[d_residuals]):\n                        d_residuals.set_vec(d_outputs)",
           "                    with self._unscaled_context(outputs=[d_outputs], residuals=[d_residuals]):\n                        d_outputs.set_vec(d_residuals)", 'C02.explicit_solve'),
    Twin('twin-explicit-solve-role-variables', 'openmdao/core/explicitcomponent.py',
         "        if mode == 'fwd':\n            if self._has_resid_scaling or self._has_output_scaling:\n                with self._unscaled_context(outputs=[d_outputs], residuals=[d_residuals]):\n                    d_outputs.set_vec(d_residuals)\n            else:\n                d_outputs.set_vec(d_residuals)\n\n            # ExplicitComponent jacobian defined with -1 on diagonal.\n            d_outputs *= -1.0\n\n        else:  # rev\n            if self._has_resid_scaling or self._has_output_scaling:\n                with self._unscaled_context(outputs=[d_outputs], residuals=[d_residuals]):\n                    d_residuals.set_vec(d_outputs)\n            else:\n                d_residuals.set_vec(d_outputs)\n\n            # ExplicitComponent jacobian defined with -1 on diagonal.\n            d_residuals *= -1.0\n",
         "        if mode == 'fwd':\n            solution, rhs = d_outputs, d_residuals\n        else:\n            solution, rhs = d_residuals, d_outputs\n\n        if self._has_resid_scaling or self._has_output_scaling:\n            with self._unscaled_context(outputs=[d_outputs], residuals=[d_residuals]):\n                solution.set_vec(rhs)\n        else:\n            solution.set_vec(rhs)\n\n        solution *= -1.0\n"),
    Mutant('explicit-solve-role-variables-same', 'openmdao/core/explicitcomponent.py',
           "        if mode == 'fwd':\n            if self._has_resid_scaling or self._has_output_scaling:\n                with self._unscaled_context(outputs=[d_outputs], residuals=[d_residuals]):\n                    d_outputs.set_vec(d_residuals)\n            else:\n                d_outputs.set_vec(d_residuals)\n\n            # ExplicitComponent jacobian defined with -1 on diagonal.\n            d_outputs *= -1.0\n\n        else:  # rev\n            if self._has_resid_scaling or self._has_output_scaling:\n                with self._unscaled_context(outputs=[d_outputs], residuals=[d_residuals]):\n                    d_residuals.set_vec(d_outputs)\n            else:\n                d_residuals.set_vec(d_outputs)\n\n            # ExplicitComponent jacobian defined with -1 on diagonal.\n            d_residuals *= -1.0\n",
           "        if mode == 'fwd':\n            solution, rhs = d_outputs, d_residuals\n        else:\n            solution, rhs = d_outputs, d_residuals\n\n        if self._has_resid_scaling or self._has_output_scaling:\n            with self._unscaled_context(outputs=[d_outputs], residuals=[d_residuals]):\n                solution.set_vec(rhs)\n        else:\n            solution.set_vec(rhs)\n\n        solution *= -1.0\n", 'C02.explicit_solve'),
    Twin('twin-modes-vector-pair-helper', 'openmdao/solvers/linear/linear_block_gs.py', "            if self._mode == 'fwd':\n                self._delta_d_n_1 = self._system()._doutputs.asarray(copy=True)\n            else:\n                self._delta_d_n_1 = self._system()._dresiduals.asarray(copy=True)\n            self._theta_n_1 = 1.0\n\n        return super()._iter_initialize()\n",
         "            self._delta_d_n_1 = self._sol_rhs(self._system())[0].asarray(copy=True)\n            self._theta_n_1 = 1.0\n\n        return super()._iter_initialize()\n\n    def _sol_rhs(self, system):\n        if self._mode == 'fwd':\n            return system._doutputs, system._dresiduals\n        return system._dresiduals, system._doutputs\n"),
    Mutant('modes-vector-pair-helper-not-swapped', 'openmdao/solvers/linear/linear_block_gs.py', "            if self._mode == 'fwd':\n                self._delta_d_n_1 = self._system()._doutputs.asarray(copy=True)\n            else:\n                self._delta_d_n_1 = self._system()._dresiduals.asarray(copy=True)\n            self._theta_n_1 = 1.0\n\n        return super()._iter_initialize()\n",
           "            self._delta_d_n_1 = self._sol_rhs(self._system())[0].asarray(copy=True)\n            self._theta_n_1 = 1.0\n\n        return super()._iter_initialize()\n\n    def _sol_rhs(self, system):\n        if self._mode == 'fwd':\n            return system._doutputs, system._dresiduals\n        return system._doutputs, system._dresiduals\n", 'C02.modes'),
    Twin('twin-transfer-early-return', _DT,
         "        if mode == 'fwd':\n            # this works whether the vecs have multi columns or not due to broadcasting\n            in_vec.set_val(out_vec.asarray()[self._out_inds.flat], self._in_inds)\n\n        else:  # rev\n            out_vec.iadd(np.bincount(self._out_inds, in_vec._get_data()[self._in_inds],\n                                     minlength=out_vec._data.size))",
         "        if mode != 'fwd':\n            w = in_vec._get_data()[self._in_inds]\n            g = np.bincount(self._out_inds, weights=w, minlength=out_vec._data.size)\n            out_vec.iadd(g)\n            return\n        vals = out_vec.asarray()[self._out_inds.flat]\n        in_vec.set_val(vals, self._in_inds)"),
    Mutant('transfer-early-return-swapped-temp', _DT,
           "        if mode == 'fwd':\n            # this works whether the vecs have multi columns or not due to broadcasting\n            in_vec.set_val(out_vec.asarray()[self._out_inds.flat], self._in_inds)\n\n        else:  # rev\n            out_vec.iadd(np.bincount(self._out_inds, in_vec._get_data()[self._in_inds],\n                                     minlength=out_vec._data.size))",
           "        if mode != 'fwd':\n            w = in_vec._get_data()[self._out_inds]\n            g = np.bincount(self._in_inds, weights=w, minlength=out_vec._data.size)\n            out_vec.iadd(g)\n            return\n        vals = out_vec.asarray()[self._out_inds.flat]\n        in_vec.set_val(vals, self._in_inds)", 'C02.transfer'),
    Twin('twin-prod-operator-local', 'openmdao/matrices/coo_matrix.py',
         "        if mode == 'fwd':\n            return self._matrix @ self._get_masked_arr(in_vec, mask)\n        else:  # rev\n            return self.transpose() @ self._get_masked_arr(in_vec, mask)",
         "        if mode == 'fwd':\n            op = self._matrix\n        else:\n            op = self.transpose()\n        return op @ self._get_masked_arr(in_vec, mask)"),
    Mutant('prod-operator-local-same', 'openmdao/matrices/coo_matrix.py',
           "        if mode == 'fwd':\n            return self._matrix @ self._get_masked_arr(in_vec, mask)\n        else:  # rev\n            return self.transpose() @ self._get_masked_arr(in_vec, mask)",
           "        if mode == 'fwd':\n            op = self._matrix\n        else:\n            op = self._matrix\n        return op @ self._get_masked_arr(in_vec, mask)", 'C02.prod'),
    Twin('twin-subjac-weights-temp', SUBJAC,
         "        val = self.info['val'] if randgen is None else self.get_rand_val(randgen)\n        self._in_view += bincount(self.cols, self._res_view[self.rows] * val,\n                                  minlength=self.parent_ncols)",
         "        val = self.get_rand_val(randgen) if randgen is not None else self.info['val']\n        wts = self._res_view[self.rows] * val\n        self._in_view += bincount(self.cols, weights=wts, minlength=self.parent_ncols)"),
    Mutant('subjac-weights-temp-wrong-gather', SUBJAC,
           "        val = self.info['val'] if randgen is None else self.get_rand_val(randgen)\n        self._in_view += bincount(self.cols, self._res_view[self.rows] * val,\n                                  minlength=self.parent_ncols)",
           "        val = self.get_rand_val(randgen) if randgen is not None else self.info['val']\n        wts = self._res_view[self.cols] * val\n        self._in_view += bincount(self.cols, weights=wts, minlength=self.parent_ncols)", 'C02.subjac'),
    Mutant('subjac-randgen-branches-differ', SUBJAC,
           "        val = self.info['val'].T if randgen is None else self.get_rand_val(randgen).T\n        self._in_view += val @ self._res_view",
           "        val = self.get_rand_val(randgen) if randgen is not None else self.info['val'].T\n        self._in_view += val @ self._res_view", 'C02.subjac'),
    Twin('twin-jac-apply-early-return-alias', _JAC,
         "                    else:\n                        doutarr += self._dr_do_mtx._prod(dresids, mode)",
         "                    else:\n                        drdo = self._dr_do_mtx\n                        doutarr += drdo._prod(dresids, mode)"),
    Twin('twin-maskcache-nocache', _JAC, "        try:\n            mask = self._mask_caches[(d_inputs._names, mode)]\n        except KeyError:\n            mask = d_inputs.get_mask()\n            self._mask_caches[(d_inputs._names, mode)] = mask\n\n        return mask",
         "        return d_inputs.get_mask()"),
    Twin('twin-subjac-rename', SUBJAC, "        val = self.info['val'] if randgen is None else self.get_rand_val(randgen)\n        self._res_view += val @ self._in_view",
         "        mat = self.info['val'] if randgen is None else self.get_rand_val(randgen)\n        self._res_view += mat @ self._in_view"),
    Twin('twin-prod-flip', 'openmdao/matrices/coo_matrix.py', "        if mode == 'fwd':\n            return self._matrix @ self._get_masked_arr(in_vec, mask)\n        else:  # rev\n            return self.transpose() @ self._get_masked_arr(in_vec, mask)",
         "        if mode == 'rev':\n            return self.transpose() @ self._get_masked_arr(in_vec, mask)\n        else:\n            return self._matrix @ self._get_masked_arr(in_vec, mask)"),
    Twin('twin-diag-commute', SUBJAC, "        self._res_view += self._in_view * val", "        self._res_view += val * self._in_view", nth=0),
)
