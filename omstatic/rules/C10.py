"""C10 -- bounds enforcement keeps Newton updates inside bounds and along the step.

The anchors (LinesearchSolver._setup_solvers, the three enforcement kernels, _enforce_bounds,
BoundsEnforceLS._solve, ArmijoGoldsteinLS._iter_initialize/_solve, NewtonSolver._single_iteration,
Group._compute_root_scale_factors) are pure array formulas and short orchestration code.  They are
extracted from the AST and *evaluated by the checker's own evaluator* (omstatic/lib_c10.py: exact
rationals, +-inf, numpy broadcasting/view semantics, OpenMDAO Vector in-place semantics) over a finite
domain of configurations; OpenMDAO and numpy are never imported or run.  A configuration on which the
extracted code breaks a clause is a counterexample (VIOLATION with the witness); agreement on the whole
domain is reported as ok *for that domain*; a construct outside the evaluator's fragment is
cannot-decide.
"""
import ast
from fractions import Fraction as Fr

from .. import astx, cfg as cfgm, boolx
from ..core import AnalysisError
from ..engine import rule, describe, selftest, Mutant, Twin
from ..lib_c10 import (Interp, Obj, Vec, Arr, OptDict, Ctx, Opaque, NativeFn, Unknown, PyExc, INF, unwrap,
                       where, isnum)

BT = 'openmdao/solvers/linesearch/backtracking.py'
NEWTON = 'openmdao/solvers/nonlinear/newton.py'
GROUP = 'openmdao/core/group.py'
COMPONENT = 'openmdao/core/component.py'
SYSTEM = 'openmdao/core/system.py'

describe('C10',
         'Bounded evaluation (own evaluator over exact rationals, no OpenMDAO/numpy import) of the extracted '
         'anchors on a finite configuration domain: (mono/layout/fresh) LinesearchSolver._setup_solvers '
         'leaves in _lower_bounds/_upper_bounds exactly min/max of the images of the declared bounds under '
         'x -> (x-ref0)/(ref-ref0), +-inf elsewhere, at the offsets of the output vector, as a function of '
         'the current metadata only; (same-map) Group._compute_root_scale_factors uses a0=ref0, a1=ref-ref0; '
         '(kernel) for every declared bound_enforcement literal the dispatched kernel leaves u and '
         'u-alpha*du inside the bounds and between the start point and the full step; the None/array states of '
         'the two bound arrays handed to the kernels are restricted to those that _setup_solvers itself produces '
         'on probe models with _has_bounds True (only-lower, only-upper, both, explicitly infinite bounds, and -- '
         'unless Component._setup_procs resets _has_bounds before setup() -- a stale flag with no declared bound); '
         'an unproducible None is replaced by an all-infinite array; (placement) '
         'BoundsEnforceLS._solve / ArmijoGoldsteinLS._solve evaluate residuals and return only at points '
         'inside the bounds and on the step segment, for scripted residual norms incl. AnalysisError retries; '
         '(newton) NewtonSolver._single_iteration applies exactly one filtered update and _setup_solvers wires '
         'the line search; (flag) a declared bound always raises _has_bounds; (options) rho<=1, alpha>=0. '
         'Not decided: the inequality outside the sampled domain, vector scaling itself (C08), MPI.',
         ['the evaluator models numpy/Vector semantics faithfully on the fragment it accepts',
          'bounds satisfy lower <= upper and ref != ref0 elementwise; the start point is within bounds',
          'a passing verdict covers the sampled finite domain only'])


# ======================================================================================= helpers
class Rng:
    """Deterministic LCG (no dependence on the random module's algorithm)."""

    def __init__(self, seed):
        self.s = (seed * 2654435761 + 12345) % (2 ** 32)

    def next(self):
        self.s = (1103515245 * self.s + 12345) % (2 ** 31)
        return self.s >> 8

    def pick(self, seq):
        return seq[self.next() % len(seq)]

    def chance(self, num, den):
        return self.next() % den < num


class Fail(Exception):
    """A clause is broken on a configuration: (class key, human-readable witness)."""

    def __init__(self, key, why, node=None, fn=None):
        super().__init__(why)
        self.key, self.why, self.node, self.fn = key, why, node, fn


def fmt(x):
    x = unwrap(x)
    if isinstance(x, Arr):
        return '[' + ', '.join(fmt(v) for v in x.vals()) + ']'
    if isinstance(x, (list, tuple)):
        return '[' + ', '.join(fmt(v) for v in x) + ']'
    if isinstance(x, Fr):
        return str(x.numerator) if x.denominator == 1 else f'{x.numerator}/{x.denominator}'
    return str(x)


def noop(it, node, obj, *a, **k):
    return None


class Collector:
    """Groups failures by class key; keeps the first witness of each class."""

    def __init__(self):
        self.fails = {}
        self.n = 0

    def add(self, key, why, fn=None, node=None):
        if key not in self.fails:
            self.fails[key] = (why, fn, node)

    def run(self, thunk, fn=None, prefix='', context=''):
        """Run one configuration; PyExc -> failure class `raises-<T>`; Fail -> its class."""
        self.n += 1
        try:
            thunk()
        except Fail as f:
            self.add(prefix + f.key, f'{f.why}{context}', f.fn or fn, f.node)
        except PyExc as px:
            self.add(f'{prefix}raises-{px.tname}', f'the code raises {px.tname} ({px.msg}) at {where(px.node)}{context}',
                     fn, px.node)


def report(out, col, fn, node, ok_msg, default_fn=None):
    if not col.fails:
        out.ok(fn, node, ok_msg)
        return
    for key, (why, f2, n2) in sorted(col.fails.items()):
        out.bad(f2 or default_fn or fn, n2 if isinstance(n2, ast.AST) else node, why, key=key)


# ======================================================================================= scaled bound arrays
def _elems(v, size):
    """Per-element list of a model value (None | number | flat list)."""
    if isinstance(v, list):
        return list(v)
    return [v] * size


def _meta_val(v, shape):
    if isinstance(v, list):
        return Arr.of(list(v), shape)
    return v


def expected_bounds(model):
    """Reference semantics: scaled lower/upper per element of the output vector."""
    lo, up = [], []
    for var in model:
        n = 1
        for d in var['shape']:
            n *= d
        for l, u, r, r0 in zip(_elems(var['lower'], n), _elems(var['upper'], n), _elems(var['ref'], n),
                               _elems(var['ref0'], n)):
            l = -INF if l is None else l
            u = INF if u is None else u

            def img(x):
                if isinstance(x, float):
                    return x if r - r0 > 0 else -x
                return (x - r0) / (r - r0)
            a, b = img(l), img(u)
            lo.append(min(a, b))
            up.append(max(a, b))
    return lo, up


def make_system(model, has_bounds=True):
    names = [v['name'] for v in model]
    sizes = []
    meta = {}
    for v in model:
        n = 1
        for d in v['shape']:
            n *= d
        sizes.append(n)
        meta[v['name']] = {k: _meta_val(v[k], v['shape']) for k in ('lower', 'upper', 'ref', 'ref0')}
        meta[v['name']].update(res_ref=None, size=n, shape=v['shape'])
    outs = Vec([0] * sum(sizes), names=names, sizes=sizes)
    return Obj('system', _has_bounds=has_bounds, _outputs=outs, _doutputs=Vec([0] * sum(sizes), names, sizes),
               _var_abs2meta={'output': meta, 'input': {}}, _var_allprocs_abs2meta={'output': meta, 'input': {}},
               under_complex_step=False, pathname='')


def new_ls(cls='LinesearchSolver', **attrs):
    a = dict(_lower_bounds=None, _upper_bounds=None, _do_subsolve=False, _iter_count=0, _depth=0)
    a.update(attrs)
    return Obj('linesearch', cls=(BT, cls),
               hooks={('super', '_setup_solvers'): noop, ('super', '__init__'): noop}, **a)


def effective(v, n, default, which):
    v = unwrap(v) if not isinstance(v, Arr) else v
    if v is None:
        return [default] * n
    if not isinstance(v, Arr) or v.shape != (n,):
        raise Fail('array-shape', f'{which} is {fmt(v)} (shape {getattr(v, "shape", None)}), expected a flat array of '
                   f'length {n} or None')
    return v.vals()


def run_setup(repo, slf, model, has_bounds=True):
    fn = repo.func(BT, 'LinesearchSolver._setup_solvers')
    system = make_system(model, has_bounds)
    it = Interp(repo)
    it.call_func(fn, [system, 1], {}, bound=slf)
    n = system.attrs['_outputs'].data.size
    return (effective(slf.attrs.get('_lower_bounds'), n, -INF, '_lower_bounds'),
            effective(slf.attrs.get('_upper_bounds'), n, INF, '_upper_bounds'))


def describe_model(model):
    return '; '.join(f"{v['name']}{list(v['shape'])}: lower={fmt(v['lower'])} upper={fmt(v['upper'])} "
                     f"ref={fmt(v['ref'])} ref0={fmt(v['ref0'])}" for v in model)


def check_setup(repo, slf, model, key, has_bounds=True, want=None):
    lo, up = run_setup(repo, slf, model, has_bounds)
    elo, eup = want if want is not None else expected_bounds(model)
    for which, got, exp in (('_lower_bounds', lo, elo), ('_upper_bounds', up, eup)):
        for i, (g, e) in enumerate(zip(got, exp)):
            if not (g == e):
                raise Fail(key, f'{which}[{i}] = {fmt(g)} but the scaled image of the declared bounds is {fmt(e)} '
                           f'(whole array {fmt(got)}, expected {fmt(exp)}) for outputs {describe_model(model)}')


def var(name, shape=(2,), lower=None, upper=None, ref=Fr(1), ref0=Fr(0)):
    return dict(name=name, shape=shape, lower=lower, upper=upper, ref=ref, ref0=ref0)


_SPANS = [  # (ref, ref0, has negative span)
    (Fr(1), Fr(0), False), (Fr(2), Fr(1), False), (Fr(5, 2), Fr(1, 2), False), ([Fr(3), Fr(3)], Fr(1), False),
    (Fr(-1), Fr(3), True), (Fr(0), Fr(2), True), ([Fr(2), Fr(-1)], [Fr(0), Fr(3)], True),
    (Fr(1), [Fr(0), Fr(4)], True), ([Fr(-2), Fr(-3)], [Fr(2), Fr(1)], True),
]
_LOWERS = [None, Fr(0), [Fr(0), Fr(-1)], [-INF, Fr(0)]]
_UPPERS = [None, Fr(2), [Fr(2), Fr(5)], [INF, Fr(2)], Fr(0)]


def _setup_fn(repo):
    fn = repo.func(BT, 'LinesearchSolver._setup_solvers')
    loops = [s for s in astx.walk_stmts(fn.node.body) if isinstance(s, ast.For)]
    return fn, (loops[0] if loops else fn.node)


@rule('C10.mono', floor=1)
def mono(repo, out):
    """_setup_solvers stores min/max of the bound images under x->(x-ref0)/(ref-ref0), also for ref<ref0."""
    fn, node = _setup_fn(repo)
    pos, neg = Collector(), Collector()
    try:
        for ref, ref0, is_neg in _SPANS:
            for lo in _LOWERS:
                for up in _UPPERS:
                    model = [var('x', (2,), lo, up, ref, ref0)]
                    (neg if is_neg else pos).run(
                        lambda: check_setup(repo, new_ls(), model, 'bound-image'), fn)
    except Unknown as u:
        out.unsure(fn, u.node if isinstance(u.node, ast.AST) else node, f'evaluator: {u.why}')
        return
    out.count('configurations', pos.n + neg.n)
    col = Collector()
    for k, v in pos.fails.items():
        col.fails[k] = v
    for k, (why, f2, n2) in neg.fails.items():
        if k not in pos.fails:
            col.fails[k + '-negative-span'] = ('for ref < ref0 the scaling map is decreasing, so the image of the '
                                               'lower bound is the upper bound in scaled space: ' + why, f2, n2)
    report(out, col, fn, node, f'scaled bound arrays equal min/max of the bound images on {pos.n + neg.n} '
           'single-output configurations (4x5 bound patterns x 9 scalings, 5 with ref < ref0)')


def _layout_models():
    a = Fr
    return [
        [var('a', (1,), lower=a(0)), var('b', (2,)), var('c', (3,), upper=[a(1), a(2), a(3)]),
         var('d', (1,), lower=a(-1), upper=a(4))],
        [var('a', (2,)), var('b', (1,), lower=a(1), upper=a(2)), var('c', (2,))],
        [var('a', (2,), upper=a(5)), var('b', (2,)), var('c', (1,), upper=[a(7)])],
        [var('a', (1,), lower=a(3)), var('b', (3,), lower=[a(1), -INF, a(2)])],
        [var('a', (2,)), var('b', (1,))],
        [var('a', (1,), lower=-INF), var('b', (2,), upper=INF)],
        [var('a', (2, 2), lower=[a(0), a(1), a(2), a(3)], upper=[a(4), a(5), a(6), a(7)],
             ref=[a(2), a(2), a(4), a(4)], ref0=[a(0), a(1), a(0), a(1)]), var('b', (1,), lower=a(0))],
        [var('a', (2, 1), lower=[a(0), a(1)], ref=a(2)), var('b', (1, 2), upper=[a(4), a(5)], ref0=a(1), ref=a(3))],
        [var('a', (1,), lower=a(0), ref=a(2)), var('b', (2,), lower=a(0), upper=a(8), ref=a(4), ref0=a(2)),
         var('c', (1,)), var('d', (2,), upper=[a(1), INF])],
    ]


@rule('C10.layout', floor=1)
def layout(repo, out):
    """Bound arrays are aligned with the output vector: offsets, +-inf fill, unbounded outputs skipped."""
    fn, node = _setup_fn(repo)
    col = Collector()
    try:
        for model in _layout_models():
            col.run(lambda: check_setup(repo, new_ls(), model, 'layout'), fn)
    except Unknown as u:
        out.unsure(fn, u.node if isinstance(u.node, ast.AST) else node, f'evaluator: {u.why}')
        return
    out.count('configurations', col.n)
    report(out, col, fn, node, f'bound arrays aligned with the output vector on {col.n} multi-output models '
           '(mixed None/scalar/array/2-d bounds, explicit infinities)')


@rule('C10.fresh', floor=1)
def fresh(repo, out):
    """After _setup_solvers the bound arrays depend on the current metadata only (no state of an earlier setup)."""
    fn, node = _setup_fn(repo)
    a = Fr
    seqs = [
        ([var('x', (1,), lower=a(0)), var('y', (1,), upper=a(10))], True,
         [var('x', (1,)), var('y', (1,), upper=a(10))], True),
        ([var('x', (1,), lower=a(0), upper=a(1))], True, [var('x', (2,), upper=a(3))], True),
        ([var('x', (1,), lower=a(0))], True, [var('x', (3,), lower=a(1))], True),
        ([var('x', (2,), lower=a(0), upper=a(5))], True, [var('x', (2,), lower=a(0), upper=a(5))], True),
        ([var('x', (1,), upper=a(1)), var('y', (1,), lower=a(0))], True,
         [var('x', (1,), lower=a(-1)), var('y', (1,), lower=a(0))], True),
    ]
    col = Collector()
    try:
        for m1, hb1, m2, hb2 in seqs:
            def thunk():
                slf = new_ls()
                run_setup(repo, slf, m1, hb1)
                try:
                    check_setup(repo, slf, m2, 'stale-arrays', hb2)
                except Fail as f:
                    raise Fail('stale-arrays', f'after a first setup with outputs {describe_model(m1)} and a second setup of '
                               f'the same solver object: {f.why}')
            col.run(thunk, fn, context=' (second _setup_solvers call on the same line-search object)')
    except Unknown as u:
        out.unsure(fn, u.node if isinstance(u.node, ast.AST) else node, f'evaluator: {u.why}')
        return
    out.count('configurations', col.n)
    report(out, col, fn, node, f'bound arrays rebuilt from the current metadata on {col.n} re-setup sequences')


@rule('C10.same_map', floor=1)
def same_map(repo, out):
    """The output vector is scaled with a0=ref0, a1=ref-ref0: the affine map that is applied to the bounds."""
    fn = repo.func(GROUP, 'Group._compute_root_scale_factors')
    a = Fr
    cases = [(a(2), a(1)), (a(-1), a(3)), (a(5), a(0)), (a(1), a(2)), (a(1), a(0)), (a(0), a(2)),
             ([a(2), a(-1)], [a(0), a(3)]), ([a(3), a(3)], a(1)), (a(1), [a(0), a(4)])]
    col = Collector()
    try:
        for ref, ref0 in cases:
            def thunk():
                model = [var('x', (2,), None, None, ref, ref0)]
                sysm = make_system(model)
                slf = Obj('group', cls=None, _has_output_scaling=True, _has_resid_scaling=False,
                          _has_input_scaling=False, _has_output_adder=True, msginfo='', pathname='',
                          **{k: v for k, v in sysm.attrs.items() if k.startswith('_var_')})
                res = Interp(repo).call_func(fn, [], {}, bound=slf)
                r = _elems(ref, 2)
                r0 = _elems(ref0, 2)
                ident = all(x == 1 for x in r) and all(x == 0 for x in r0) and not isinstance(ref, list) \
                    and not isinstance(ref0, list)
                ent = res.get('x') if isinstance(res, dict) else None
                if ent is None or 'output' not in ent:
                    if ident:
                        return
                    raise Fail('scale-map', f'no output scale factor is produced for ref={fmt(ref)} ref0={fmt(ref0)}')
                tup = ent['output']
                if not isinstance(tup, tuple) or len(tup) < 2:
                    raise Unknown(fn.node, 'output scale factor is not a tuple')
                a0 = Arr.of(_elems(unwrap(tup[0]), 2)) if not isinstance(tup[0], Arr) else tup[0]
                a1 = Arr.of(_elems(unwrap(tup[1]), 2)) if not isinstance(tup[1], Arr) else tup[1]
                g0 = a0.vals() * (2 // a0.size)
                g1 = a1.vals() * (2 // a1.size)
                if g0 != r0 or g1 != [x - y for x, y in zip(r, r0)]:
                    raise Fail('scale-map', f'output scale factors (a0, a1) = ({fmt(g0)}, {fmt(g1)}) for ref={fmt(ref)} '
                               f'ref0={fmt(ref0)}; the bound arrays are mapped with a0=ref0, a1=ref-ref0')
            col.run(thunk, fn)
    except Unknown as u:
        out.unsure(fn, u.node if isinstance(u.node, ast.AST) else fn.node, f'evaluator: {u.why}')
        return
    out.count('configurations', col.n)
    report(out, col, fn, fn.node, f'(a0, a1) = (ref0, ref - ref0) on {col.n} scalings')


# ======================================================================================= line-search world
class World:
    """One line-search scenario: vectors, bounds, scripted residual norms, in-situ clause checks."""

    def __init__(self, repo, cls, lit, u0, du, lower, upper, alpha=Fr(1), norms=(100, 1), raise_at=(),
                 options=None, has_bounds=True, do_subsolve=False, route=''):
        self.repo = repo
        self.route = route
        self.lit = lit
        self.n = len(u0)
        self.u0 = [Fr(x) for x in u0]
        self.du0 = [Fr(x) for x in du]
        self.alpha0 = Fr(alpha)
        self.lower = lower            # list with -inf entries, or None
        self.upper = upper
        self.lo = lower if lower is not None else [-INF] * self.n
        self.up = upper if upper is not None else [INF] * self.n
        self.norms = [Fr(x) if not isinstance(x, float) else x for x in norms]
        self.raise_at = set(raise_at)
        self.applies = 0
        self.enforced = 0
        self.kernel = None
        self.it = Interp(repo, names={'Recording': NativeFn(self._recording, 'Recording'),
                                      'issue_warning': NativeFn(lambda it, n, *a, **k: None, 'issue_warning')})
        self.u = Vec(self.u0)
        self.du = Vec(self.du0)
        self.system = Obj('system', _has_bounds=has_bounds, _outputs=self.u, _doutputs=self.du,
                          under_complex_step=False, under_finite_difference=False, under_approx=False,
                          pathname='', _owns_approx_jac=False,
                          _residuals=Vec([0] * self.n), _dresiduals=Vec([0] * self.n),
                          hooks={'_apply_nonlinear': noop, '_linearize': noop, '_solve_nonlinear': noop})
        opts = {'bound_enforcement': lit, 'print_bound_enforce': False, 'iprint': -1, 'debug_print': False,
                'alpha': self.alpha0, 'rho': Fr(1, 2), 'c': Fr(1, 10), 'maxiter': 5, 'method': 'Armijo',
                'retry_on_analysis_error': True, 'atol': Fr(1, 10 ** 10), 'rtol': Fr(1, 10 ** 10),
                'err_on_non_converge': False, 'restart_from_successful': False, 'stall_limit': 0,
                'stall_tol': Fr(1, 10 ** 12), 'stall_tol_type': 'rel'}
        opts.update(options or {})
        info = Obj('solver_info', hooks={k: (lambda it, n, o, *a, **kw: Opaque('cache')) for k in
                                         ('save_cache', 'restore_cache', 'append_solver', 'append_subsolver',
                                          'pop', 'append_precon')}, prefix='')
        self.ls = new_ls(cls, options=OptDict(opts),
                         _lower_bounds=None if lower is None else Arr.of(lower),
                         _upper_bounds=None if upper is None else Arr.of(upper),
                         _system=NativeFn(lambda it, n: self.system, '_system'), _solver_info=info,
                         _analysis_error_raised=False, _do_subsolve=do_subsolve, _norm0=Fr(1), msginfo='',
                         _phi0=Fr(1), _dir_derivative=Fr(-1), alpha=self.alpha0, SOLVER='LS')
        self.ls.hooks.update({'_run_apply': self._run_apply, '_iter_get_norm': self._norm, '_mpi_print': noop,
                              '_mpi_print_header': noop, '_gs_iter': noop, '_enforce_bounds': self._enforce,
                              '_print_exc_debug_info': noop, '_linearize': noop, '_print_resid_norms': noop})

    # ---- stand-ins
    def _recording(self, it, node, *a, **k):
        return Ctx(Obj('rec'))

    def _norm(self, it, node, obj):
        if len(self.norms) > 1:
            return self.norms.pop(0)
        return self.norms[0]

    def _run_apply(self, it, node, obj):
        self.applies += 1
        self.check_point(self.u.vals(), f'at residual evaluation #{self.applies}', 'point')
        if self.applies in self.raise_at:
            raise PyExc('AnalysisError', 'scripted', node)

    def set_mode(self, fd):
        """Finite-difference re-solve: System.under_approx is under_complex_step or under_finite_difference."""
        self.system.attrs.update(under_finite_difference=bool(fd), under_approx=bool(fd))
        self.fd = bool(fd)

    def describe(self):
        return (f" [bound_enforcement='{self.lit}', start u={fmt(self.u0)}, Newton step du={fmt(self.du0)}, "
                f'alpha={fmt(self.alpha0)}, lower={fmt(self.lower) if self.lower is not None else None}, '
                f'upper={fmt(self.upper) if self.upper is not None else None}' +
                (f'; both arrays are None after _setup_solvers when: {self.route}' if self.route else '') +
                ('; the system is being finite-differenced (under_finite_difference=True, under_complex_step=False)'
                 if getattr(self, 'fd', False) else '') + ']')

    def check_point(self, vals, label, key, fn=None, bounds=True):
        for i, v in enumerate(vals):
            v = unwrap(v)
            if isinstance(v, float) or v is None:
                raise Fail(f'{key}-not-finite', f'entry {i} is {fmt(v)} {label}' + self.describe(), fn=fn)
            if bounds and (v < self.lo[i] or v > self.up[i]):
                raise Fail(f'{key}-out-of-bounds', f'entry {i} = {fmt(v)} is outside [{fmt(self.lo[i])}, '
                           f'{fmt(self.up[i])}] {label}' + self.describe(), fn=fn)
            full = self.u0[i] + self.alpha0 * self.du0[i]
            a, b = min(self.u0[i], full), max(self.u0[i], full)
            if v < a or v > b:
                beyond = (v > b) == (full >= self.u0[i]) if full != self.u0[i] else None
                kind = 'beyond-step' if beyond else 'against-step'
                raise Fail(f'{key}-{kind}', f'entry {i} = {fmt(v)} {label} is '
                           f'{"beyond the full step" if beyond else "on the wrong side of the start point"} '
                           f'(start {fmt(self.u0[i])}, full step {fmt(full)})' + self.describe(), fn=fn)

    def _enforce(self, it, node, obj, *args, **kwargs):
        vals = list(args) + list(kwargs.values())
        steps = [v for v in vals if isinstance(v, Vec)]
        alphas = [unwrap(v) for v in vals if isnum(unwrap(v))]
        if len(steps) != 1 or len(alphas) != 1 or len(vals) != 2:
            raise Unknown(node, '_enforce_bounds call shape not recognised')
        step, alpha = steps[0], Fr(alphas[0])
        self.enforced += 1
        real = it.lookup_method(obj.cls, '_enforce_bounds')
        if real is None:
            raise Unknown(node, '_enforce_bounds not found')
        pre = [u - alpha * d for u, d in zip(self.u.vals(), step.vals())]
        self.check_point(pre, f'for u - alpha*step when _enforce_bounds(alpha={fmt(alpha)}) is called: the kernels '
                         'assume that alpha*step was just added to an in-bounds point', 'enforce-precondition')
        self.check_point(self.u.vals(), 'when _enforce_bounds is called (before enforcement)', 'enforce-precondition',
                         bounds=False)
        mark = len(it.called)
        suffix = '-no-finite-bounds' if self.lower is None and self.upper is None else ''
        try:
            it.call_func(real, list(args), dict(kwargs), bound=obj, node=node)
        except PyExc as px:
            callee = [f for f in it.called[mark + 1:]]
            raise Fail(f'kernel-raises-{px.tname}{suffix}', f'{px.tname} ({px.msg}) at {where(px.node)}' +
                       self.describe(), node=px.node, fn=(callee[-1] if callee else real))
        callee = [f for f in it.called[mark + 1:] if f.cls is None]
        self.kernel = callee[-1] if callee else None
        kfn = self.kernel or real
        if self.kernel is None:
            self.check_point(self.u.vals(), f"after _enforce_bounds: no enforcement kernel ran for bound_enforcement="
                             f"'{self.lit}'", 'dispatch', fn=real)
        self.check_point(self.u.vals(), f'after enforcement by {kfn.qualname}', 'kernel', fn=kfn)
        post = [u - alpha * d for u, d in zip(self.u.vals(), step.vals())]
        self.check_point(post, f'for u - alpha*du after enforcement by {kfn.qualname} (the point a line search '
                         f'backtracks towards as the step length goes to 0)', 'kernel-backtrack', fn=kfn)

    # ---- drivers
    def solve(self, scripted_ok=('AnalysisError',)):
        f = self.it.lookup_method(self.ls.cls, '_solve')
        try:
            self.it.call_func(f, [], {}, bound=self.ls)
        except PyExc as px:
            if px.tname in scripted_ok and self.raise_at:
                return
            raise
        self.check_point(self.u.vals(), 'when the line search returns', 'point')


# ======================================================================================= kernel input domain
def flag_can_be_stale(repo):
    """True unless Component._setup_procs (or System._setup_procs through super()) resets _has_bounds to False
    before the user's setup() re-declares the outputs: without such a reset a component that declared a bound in
    an earlier Problem.setup() keeps _has_bounds == True although no output declares a bound any more."""
    def resets_before(fn, stop_pred):
        g = cfgm.build(fn.node)
        resets = g.where(lambda n: n.kind == 'stmt' and isinstance(n.ast, ast.Assign) and
                         any(isinstance(t, ast.Attribute) and t.attr == '_has_bounds' and astx.path(t.value) == 'self'
                             for t in astx.assigned_targets(n.ast)) and
                         isinstance(n.ast.value, ast.Constant) and n.ast.value.value is False)
        stops = g.where(stop_pred)
        if not resets:
            return False, stops
        targets = stops or [g.exit]
        return all(g.dominated_by(t, resets, labels=cfgm.noexc) is None for t in targets), stops

    def calls(n, name, recv):
        return any(astx.callee_attr(c) == name and recv(astx.receiver(c)) for c in n.calls())
    try:
        comp = func_slice(repo, COMPONENT, 'Component._setup_procs')
    except AnalysisError:
        return True
    ok, stops = resets_before(comp, lambda n: calls(n, 'setup', lambda r: astx.path(r) == 'self'))
    if ok:
        return False
    sup = [n for n in cfgm.build(comp.node).where(
        lambda n: calls(n, '_setup_procs', lambda r: isinstance(r, ast.Call) and astx.call_name(r) == 'super'))]
    if sup and '_has_bounds = False' in repo.source(SYSTEM):
        try:
            sysf = func_slice(repo, SYSTEM, 'System._setup_procs')
            ok2, _ = resets_before(sysf, lambda n: False)
            if ok2:
                return False
        except AnalysisError:
            pass
    return True


def none_patterns(repo):
    """Which (lower array is None, upper array is None) states LinesearchSolver._setup_solvers can leave behind
    while system._has_bounds is True: derived by evaluating it on probe models, not assumed.  Maps each producible
    pattern to the description of a model that produces it."""
    a = Fr
    probes = [
        ([var('x', (1,), lower=a(0)), var('y', (2,))], 'only lower bounds declared'),
        ([var('x', (2,)), var('y', (1,), upper=a(1))], 'only upper bounds declared'),
        ([var('x', (1,), lower=a(0), upper=a(1)), var('y', (1,))], 'lower and upper declared'),
        ([var('x', (1,), lower=a(0)), var('y', (1,), upper=a(3))], 'lower and upper declared on different outputs'),
        ([var('x', (1,), lower=-INF), var('y', (1,))], 'only an explicitly infinite lower bound (lower=-inf) declared'),
        ([var('x', (2,), upper=INF)], 'only an explicitly infinite upper bound declared'),
        ([var('x', (1,), lower=a(0), ref=a(-1), ref0=a(3))], 'only a lower bound, on an output with ref < ref0'),
    ]
    if flag_can_be_stale(repo):
        probes.append(([var('x', (1,)), var('y', (2,))],
                       'no output declares a bound but _has_bounds is still True: Component._has_bounds is set in '
                       'add_output and never reset, so after a second Problem.setup() in which the bound is no longer '
                       'declared the flag is stale'))
    fn = repo.func(BT, 'LinesearchSolver._setup_solvers')
    pats = {}
    for model, what in probes:
        slf = new_ls()
        try:
            Interp(repo).call_func(fn, [make_system(model, True), 1], {}, bound=slf)
        except PyExc:
            continue   # reported by C10.mono / C10.layout
        pat = (unwrap(slf.attrs.get('_lower_bounds')) is None, unwrap(slf.attrs.get('_upper_bounds')) is None)
        pats.setdefault(pat, what)
    return pats


def admit(case, pats):
    """Replace a None bound array by an all-infinite array when _setup_solvers cannot produce that None pattern."""
    n = len(case['u0'])
    pat = (case['lower'] is None, case['upper'] is None)
    if pat in pats:
        case['route'] = pats[pat] if pat == (True, True) else ''
        return case
    for cand in ((False, False), (pat[0], False), (False, pat[1])):
        if cand in pats:
            if not cand[0] and case['lower'] is None:
                case['lower'] = [-INF] * n
            if not cand[1] and case['upper'] is None:
                case['upper'] = [INF] * n
            case['route'] = ''
            return case
    raise Unknown(None, f'_setup_solvers produces none of the expected bound-array states (found {sorted(pats)})')


def gen_case(rng, allow_none=True):
    n = rng.pick([1, 2, 2, 3, 3, 4])
    alpha = rng.pick([Fr(1), Fr(1), Fr(1, 2), Fr(2), Fr(1, 4), Fr(3, 2)])
    lo, up, u0, du = [], [], [], []
    for _ in range(n):
        L = rng.pick([Fr(-2), Fr(0), Fr(1)])
        U = L + rng.pick([Fr(1), Fr(2), Fr(5), Fr(1, 2)])
        if rng.chance(1, 12):
            U = L
        l = L if rng.chance(2, 3) else -INF
        u = U if rng.chance(2, 3) else INF
        cands = [L, U, (L + U) / 2, L + (U - L) / 4]
        if l == -INF:
            cands += [L - 3, L - Fr(7, 2)]
        if u == INF:
            cands += [U + 3, U + Fr(9, 2)]
        x = rng.pick(cands)
        d = rng.pick([Fr(0), Fr(1, 2), Fr(-1, 2), Fr(1), Fr(-1), Fr(3), Fr(-3), Fr(8), Fr(-8), Fr(1, 3), Fr(-2, 3)])
        lo.append(l)
        up.append(u)
        u0.append(x)
        du.append(d)
    lower = None if (allow_none and all(v == -INF for v in lo)) else lo
    upper = None if (allow_none and all(v == INF for v in up)) else up
    return dict(u0=u0, du=du, alpha=alpha, lower=lower, upper=upper)


def declared_literals(repo):
    """Literals of declare('bound_enforcement', values=[...]) in LinesearchSolver._declare_options."""
    fn = repo.func(BT, 'LinesearchSolver._declare_options')
    for c in astx.calls(fn.node):
        if astx.callee_attr(c) == 'declare' and c.args and astx.const_str(c.args[0]) == 'bound_enforcement':
            vals = astx.kwarg(c, 'values')
            if isinstance(vals, (ast.List, ast.Tuple, ast.Set)) and vals.elts and \
                    all(astx.const_str(e) is not None for e in vals.elts):
                default = astx.kwarg(c, 'default')
                return fn, c, [astx.const_str(e) for e in vals.elts], default
            raise AnalysisError("values= of option 'bound_enforcement' is not a literal list of strings")
    raise AnalysisError("declare('bound_enforcement', ...) not found")


_KERNEL_KEYS = ('kernel', 'dispatch')


def _is_kernel_fail(key):
    return key.startswith(_KERNEL_KEYS)


def _kernel_rule(repo, out, ncases, seed):
    dfn, dcall, lits, default = declared_literals(repo)
    if default is not None and astx.const_str(default) not in lits:
        out.bad(dfn, dcall, f'default {astx.src(default)} of bound_enforcement is not one of the declared values {lits}',
                key='default-not-declared')
    efn = repo.func(BT, 'LinesearchSolver._enforce_bounds')
    for lit in lits:
        col = Collector()
        rng = Rng(seed + sum(ord(c) for c in lit))
        kernels = {}
        done = [0]
        try:
            pats = none_patterns(repo)
            cases = [admit(gen_case(rng), pats) for _ in range(ncases)]
            if (True, True) in pats:   # _has_bounds set but _setup_solvers leaves both arrays None
                for n in (1, 3):
                    for d in ([Fr(1)] * n, [Fr(-2)] * n, [Fr(0)] * n):
                        cases.append(admit(dict(u0=[Fr(0)] * n, du=d, alpha=Fr(1), lower=None, upper=None), pats))
            for k, case in enumerate(cases):
                cls = 'BoundsEnforceLS' if (k % 2 == 0 and case['alpha'] == 1) else 'ArmijoGoldsteinLS'

                def thunk():
                    w = World(repo, cls, lit, case['u0'], case['du'], case['lower'], case['upper'], case['alpha'],
                              norms=[100, 0], route=case.get('route', ''))
                    try:
                        w.solve()
                    except Fail as f:
                        if _is_kernel_fail(f.key):
                            raise
                        return    # orchestration problems are reported by C10.placement
                    finally:
                        if w.kernel is not None:
                            kernels[w.kernel.qualname] = w.kernel
                    if w.enforced == 0:
                        raise Unknown(None, '_enforce_bounds was never reached by the harness')
                    done[0] += 1
                col.run(thunk, efn)
        except Unknown as u:
            out.unsure(efn, u.node if isinstance(u.node, ast.AST) else efn.node, f"'{lit}': evaluator: {u.why}")
            continue
        out.count('configurations', col.n)
        kfn = next(iter(kernels.values())) if len(kernels) == 1 else efn
        if not col.fails and done[0] < col.n // 2:
            out.unsure(efn, efn.node, f"'{lit}': only {done[0]} of {col.n} harness runs reached the end of the line search "
                       '(the harness itself is broken: see C10.placement)')
            continue
        if not col.fails:
            out.ok(kfn, kfn.node, f"bound_enforcement='{lit}' -> {', '.join(sorted(kernels)) or 'no kernel'}: u and "
                   f'u - alpha*du stay within the bounds and on the step segment on {col.n} configurations')
        else:
            for key, (why, f2, n2) in sorted(col.fails.items()):
                out.bad(f2 or kfn, n2 if isinstance(n2, ast.AST) else (f2 or kfn).node, why, key=f'{lit}:{key}')


@rule('C10.kernel', floor=3)
def kernel(repo, out):
    """For every declared bound_enforcement literal the dispatched kernel leaves u and u-alpha*du in bounds, on the step."""
    _kernel_rule(repo, out, 140, 1000)


@rule('C10.kernel_deep', floor=3, tier='thorough')
def kernel_deep(repo, out):
    """Same clause as C10.kernel on a larger configuration domain (2500 per literal)."""
    _kernel_rule(repo, out, 2500, 31337)


def _placement_scenarios(rng, cls, n=60, pats=None):
    out = []
    for k in range(n):
        case = gen_case(rng)
        if pats is not None and not (cls == 'BoundsEnforceLS' and k % 10 == 9):
            case = admit(case, pats)
        sc = dict(case=case, options={}, norms=[100, 0], raise_at=(), has_bounds=True, do_subsolve=False)
        if cls == 'BoundsEnforceLS':
            case['alpha'] = Fr(1)
            sc['norms'] = [rng.pick([0, 1, 100]), rng.pick([0, 1, 100])]
            if k % 10 == 9:
                sc['has_bounds'] = False
                case['lower'] = case['upper'] = None
        else:
            nback = rng.pick([0, 1, 2, 3, 5, 7])
            sc['norms'] = [100] + [rng.pick([100, 200, float('nan')]) for _ in range(nback)] + [0]
            sc['options'] = dict(rho=rng.pick([Fr(1, 2), Fr(1, 10), Fr(9, 10), Fr(1, 100)]),
                                 maxiter=rng.pick([5, 5, 2, 8, 0, 1]),
                                 method=rng.pick(['Armijo', 'Goldstein']),
                                 retry_on_analysis_error=not rng.chance(1, 6))
            sc['do_subsolve'] = rng.chance(1, 3)
            if rng.chance(1, 3):
                sc['raise_at'] = tuple({rng.pick([2, 3, 4]), rng.pick([2, 3, 5])})
        out.append(sc)
    return out


def _placement_rule(repo, out, n, seed):
    _, _, lits, _ = declared_literals(repo)
    for cls in ('BoundsEnforceLS', 'ArmijoGoldsteinLS'):
        repo.cls(BT, cls)
        fn = Interp(repo).lookup_method((BT, cls), '_solve')
        if fn is None:
            raise AnalysisError(f'{cls}._solve not found')
        col = Collector()
        rng = Rng(seed + len(cls))
        nenf = 0
        skipped = 0
        try:
            for sc in _placement_scenarios(rng, cls, n, none_patterns(repo)):
                for lit in lits:
                    def thunk():
                        nonlocal nenf, skipped
                        c = sc['case']
                        w = World(repo, cls, lit, c['u0'], c['du'], c['lower'], c['upper'], c['alpha'],
                                  norms=list(sc['norms']), raise_at=sc['raise_at'], options=sc['options'],
                                  has_bounds=sc['has_bounds'], do_subsolve=sc['do_subsolve'])
                        try:
                            w.solve()
                        except Fail as f:
                            if _is_kernel_fail(f.key):
                                skipped += 1
                                return   # reported by C10.kernel
                            raise
                        finally:
                            nenf += w.enforced
                    col.run(thunk, fn)
        except Unknown as u:
            out.unsure(fn, u.node if isinstance(u.node, ast.AST) else fn.node, f'evaluator: {u.why}')
            continue
        out.count('configurations', col.n)
        if not col.fails and (nenf == 0 or skipped > col.n // 2):
            out.unsure(fn, fn.node, '_enforce_bounds is never reached' if nenf == 0 else
                       f'{skipped} of {col.n} line searches stopped at a kernel failure (see C10.kernel)')
            continue
        report(out, col, fn, fn.node, f'{cls}: every residual evaluation and the returned point are inside the bounds '
               f'and on the step segment in {col.n} scripted line searches ({nenf} enforcements)')


@rule('C10.placement', floor=2)
def placement(repo, out):
    """Both line searches evaluate residuals and return only at in-bounds points on the step segment."""
    _placement_rule(repo, out, 60, 77)


@rule('C10.placement_deep', floor=2, tier='thorough')
def placement_deep(repo, out):
    """Same clause as C10.placement on a larger set of scripted line searches (800 per class and literal)."""
    _placement_rule(repo, out, 800, 900001)


# ======================================================================================= Newton wiring
def _newton_obj(w, linesearch, step):
    def lin_solve(it, node, obj, *a, **k):
        w.du.data.setvals([Fr(x) for x in step])

    info = Obj('solver_info', hooks={k: noop for k in ('save_cache', 'restore_cache', 'append_solver',
                                                        'append_subsolver', 'pop', 'append_precon')}, prefix='')
    lin = Obj('linear_solver', hooks={'_linearize_children': lambda it, n, o: False, 'solve': lin_solve,
                                      '_linearize': noop, '_setup_solvers': noop})
    return Obj('newton', cls=(NEWTON, 'NewtonSolver'),
               hooks={'_linearize': noop, '_gs_iter': noop, '_run_apply': noop, '_mpi_print': noop,
                      '_disallow_discrete_outputs': noop, ('super', '_setup_solvers'): noop},
               options=OptDict({'solve_subsystems': False, 'max_sub_solves': 10, 'debug_print': False,
                                'iprint': -1, 'maxiter': 10}),
               _iter_count=0, _depth=0, linear_solver=lin, linesearch=linesearch, _solver_info=info,
               _system=NativeFn(lambda it, n: w.system, '_system'), msginfo='', _restarted=False)


@rule('C10.newton', floor=4)
def newton(repo, out):
    """NewtonSolver applies exactly one update per iteration, through the line search when there is one (also while the
    system is finite-differenced; only complex step may bypass it), and sets it up."""
    fn = repo.func(NEWTON, 'NewtonSolver._single_iteration')
    _, _, lits, _ = declared_literals(repo)
    for cls in ('BoundsEnforceLS', 'ArmijoGoldsteinLS', None):
        col = Collector()
        rng = Rng(4242 + len(cls or ''))
        done = [0]
        try:
            pats = none_patterns(repo)
            for k in range(45):
                case = gen_case(rng)
                if cls is not None:
                    case = admit(case, pats)
                lit = lits[k % len(lits)]
                if cls is None:
                    case['lower'] = case['upper'] = None
                if cls != 'ArmijoGoldsteinLS':
                    case['alpha'] = Fr(1)

                def thunk():
                    w = World(repo, cls or 'BoundsEnforceLS', lit, case['u0'], case['du'], case['lower'],
                              case['upper'], case['alpha'], norms=[100, 100, 0])
                    w.du.data.setvals([Fr(0)] * w.n)
                    w.set_mode(fd=(k % 3 == 2))
                    pre = 'fd-' if w.fd else ''
                    nw = _newton_obj(w, w.ls if cls else None, case['du'])
                    try:
                        w.it.call_func(fn, [], {}, bound=nw)
                    except Fail:
                        return   # line-search internals: C10.kernel / C10.placement
                    if cls and w.enforced == 0 and w.applies == 0:
                        raise Fail(pre + 'linesearch-not-run', 'the line search is configured but was not run: the '
                                   'Newton update is applied unfiltered' + w.describe())
                    w.check_point(w.u.vals(), 'after NewtonSolver._single_iteration', pre + 'newton')
                    if cls is None:
                        want = [a + b for a, b in zip(w.u0, w.du0)]
                        if w.u.vals() != want:
                            raise Fail('newton-no-update', f'without a line search the update must be u + du = '
                                       f'{fmt(want)}, got {fmt(w.u.vals())}' + w.describe())
                    done[0] += 1
                col.run(thunk, fn)
        except Unknown as u:
            out.unsure(fn, u.node if isinstance(u.node, ast.AST) else fn.node, f'evaluator: {u.why}')
            continue
        out.count('configurations', col.n)
        if not col.fails and done[0] < col.n // 2:
            out.unsure(fn, fn.node, f'{cls}: only {done[0]} of {col.n} iterations ran to the end (line-search failures: '
                       'see C10.kernel / C10.placement)')
            continue
        if not col.fails:
            out.ok(fn, fn.node, f'{cls or "no line search"}: one update per Newton iteration, inside the bounds and on '
                   f'the step segment ({col.n} configurations)')
        else:
            for key, (why, f2, n2) in sorted(col.fails.items()):
                out.bad(f2 or fn, n2 if isinstance(n2, ast.AST) else fn.node, why, key=f'{cls}:{key}')
    # wiring of the line-search setup
    sfn = repo.func(NEWTON, 'NewtonSolver._setup_solvers')
    try:
        w = World(repo, 'BoundsEnforceLS', lits[0], [0], [0], None, None)
        seen = []
        w.ls.hooks['_setup_solvers'] = lambda it, n, o, *a, **k: seen.append(list(a) + list(k.values()))
        nw = _newton_obj(w, w.ls, [0])
        w.it.call_func(sfn, [w.system, 1], {}, bound=nw)
        if not seen or not any(v is w.system for v in seen[0]):
            out.bad(sfn, sfn.node, 'NewtonSolver._setup_solvers does not call linesearch._setup_solvers(system, ...) with '
                    'its own system: the scaled bound arrays are never built and every kernel runs without bounds',
                    key='linesearch-setup-not-wired')
        else:
            out.ok(sfn, sfn.node, 'linesearch._setup_solvers(system, ...) is called with the solver\'s system')
    except Unknown as u:
        out.unsure(sfn, u.node if isinstance(u.node, ast.AST) else sfn.node, f'evaluator: {u.why}')
    except PyExc as px:
        out.bad(sfn, px.node if isinstance(px.node, ast.AST) else sfn.node,
                f'raises {px.tname} ({px.msg}) at {where(px.node)}', key='setup-raises')


# ======================================================================================= _has_bounds flag
def _bound_atom(e):
    """`X is None` / `X is not None` with X naming lower/upper -> formula; other tests -> opaque atom."""
    if isinstance(e, ast.Compare) and len(e.ops) == 1 and isinstance(e.ops[0], (ast.Is, ast.IsNot)) and \
            isinstance(e.comparators[0], ast.Constant) and e.comparators[0].value is None:
        x = e.left
        nm = x.id if isinstance(x, ast.Name) else x.attr if isinstance(x, ast.Attribute) else \
            astx.const_str(x.slice) if isinstance(x, ast.Subscript) else None
        if nm in ('lower', 'upper'):
            f = boolx.A(nm)
            return f if isinstance(e.ops[0], ast.IsNot) else boolx.Not(f)
    if isinstance(e, ast.Constant):
        return boolx.TRUE if e.value else boolx.FALSE
    return boolx.A('«' + astx.src(e, 60) + '»') if True else None


def _guard_of(st, fnode):
    parts = []
    cur = st
    while cur is not fnode and cur is not None:
        par = getattr(cur, '_parent', None)
        if isinstance(par, (ast.If, ast.While)) and par is not cur:
            f = boolx.from_ast(par.test, _bound_atom)
            if cur in par.body:
                parts.append(f)
            elif cur in par.orelse:
                parts.append(boolx.Not(f))
        elif isinstance(par, ast.Try) and any(cur is h for h in par.handlers):
            parts.append(boolx.A('«exception»'))
        cur = par
    return boolx.And(*parts) if parts else boolx.TRUE


def _flag_stores(fn):
    """[(stmt, formula under which the statement sets _has_bounds to True)]."""
    res = []
    for st in astx.walk_stmts(fn.node.body):
        tgts = astx.assigned_targets(st) if isinstance(st, (ast.Assign, ast.AugAssign)) else []
        if not any(isinstance(t, ast.Attribute) and t.attr == '_has_bounds' for t in tgts):
            continue
        v = st.value
        if isinstance(st, ast.AugAssign) and not isinstance(st.op, ast.BitOr):
            continue
        if isinstance(v, ast.Constant) and not v.value:
            continue
        if isinstance(v, ast.BinOp) and isinstance(v.op, ast.BitOr):
            v = ast.BoolOp(op=ast.Or(), values=[v.left, v.right])
        res.append((st, boolx.And(_guard_of(st, fn.node), boolx.from_ast(v, _bound_atom))))
    return res


class _SliceFunc:
    """A method parsed alone from its module text (the two modules are large; parsing them costs 0.7 s)."""

    def __init__(self, rel, qualname, node):
        self.rel, self.qualname, self.node = rel, qualname, node


def func_slice(repo, rel, qualname):
    """Parse only the source lines of method `Class.name`; falls back to the engine's full parse."""
    import textwrap
    cls, name = qualname.split('.')
    try:
        lines = repo.source(rel).splitlines()
        c0 = next(i for i, ln in enumerate(lines) if ln.startswith(f'class {cls}(') or ln.startswith(f'class {cls}:'))
        d0 = next(i for i in range(c0 + 1, len(lines)) if lines[i].startswith(f'    def {name}('))
        if any(ln.startswith('class ') for ln in lines[c0 + 1:d0]):
            raise StopIteration
        d1 = next((i for i in range(d0 + 1, len(lines))
                   if lines[i].strip() and len(lines[i]) - len(lines[i].lstrip()) <= 4 and
                   not lines[i].lstrip().startswith(('#', ')'))), len(lines))
        tree = ast.parse(textwrap.dedent('\n'.join(lines[d0:d1]) + '\n'))
        node = tree.body[0]
        if not isinstance(node, ast.FunctionDef) or node.name != name:
            raise StopIteration
        ast.increment_lineno(tree, d0)
        for par in ast.walk(tree):
            for ch in ast.iter_child_nodes(par):
                ch._parent = par
        node._parent = None
        return _SliceFunc(rel, qualname, node)
    except (StopIteration, SyntaxError, ValueError):
        return repo.func(rel, qualname)


@rule('C10.flag', floor=3)
def flag(repo, out):
    """Every declared lower or upper bound raises _has_bounds (otherwise no bound array is ever built)."""
    for rel, qn in ((COMPONENT, 'Component.add_output'), (SYSTEM, 'System._apply_output_solver_options')):
        fn = func_slice(repo, rel, qn)
        where_fn = (fn.rel, fn.qualname)
        stores = _flag_stores(fn)
        if not stores:
            out.bad(where_fn, fn.node, '_has_bounds is never set to True here although bounds are declared/changed here',
                    key='has-bounds-never-set')
            continue
        total = boolx.Or(*[f for _, f in stores])
        atoms = sorted(total.atoms() | {'lower', 'upper'})
        opaque = [a for a in atoms if a not in ('lower', 'upper')]
        vals = list(boolx.valuations(atoms))
        out.count('truth_table_rows', len(vals))
        clean = True
        for nm in ('lower', 'upper'):
            cex = [v for v in vals if v[nm] and not total.ev(v)]
            if not cex:
                continue
            clean = False
            proj = {tuple(v[a] for a in opaque) for v in cex}
            if len(proj) == 2 ** len(opaque):
                cond, slug = '', ''
            else:
                best = min(proj, key=lambda t: (sum(t), t))
                true_atoms = [a for a, b in zip(opaque, best) if b]
                cond = ' when ' + ', '.join(f'{a}={"T" if b else "F"}' for a, b in zip(opaque, best))
                ident = lambda a: ''.join(ch for ch in a if ch.isalnum() or ch == '_')
                slug = '-when-' + ('+'.join(ident(a) for a in true_atoms) if true_atoms else
                                   'not-' + '+'.join(ident(a) for a in opaque))
            out.bad(where_fn, stores[0][0], f'a declared {nm} bound does not set _has_bounds{cond} (e.g. with the other '
                    f'bound {"given" if cex[0]["upper" if nm == "lower" else "lower"] else "absent"}): '
                    'LinesearchSolver._setup_solvers then builds no bound array and the bound is silently ignored by '
                    'every line search', key=f'has-bounds-not-set-{nm}{slug}')
        if clean:
            out.ok(where_fn, stores[0][0], f'_has_bounds is set whenever lower or upper is given ({len(stores)} store(s))')
    # aggregation into the group that owns the Newton solver
    fn = repo.func(GROUP, 'Group._setup')
    resets = [st for st in astx.walk_stmts(fn.node.body) if isinstance(st, ast.Assign) and
              any(isinstance(t, ast.Attribute) and t.attr == '_has_bounds' for t in st.targets) and
              isinstance(st.value, ast.Constant) and st.value.value is False]
    if not resets:
        out.ok(fn, fn.node, 'no reset of _has_bounds in Group._setup (nothing to re-aggregate)')
        return
    g = cfgm.build(fn)
    aggs, overwrites = [], []
    for st in astx.walk_stmts(fn.node.body):
        tg = [t for t in (astx.assigned_targets(st) if isinstance(st, (ast.Assign, ast.AugAssign)) else [])
              if isinstance(t, ast.Attribute) and t.attr == '_has_bounds']
        if not tg or st in resets:
            continue
        reads_other = any(isinstance(x, ast.Attribute) and x.attr == '_has_bounds' and not astx.same(x, tg[0])
                          for x in astx.walk(st.value))
        if not reads_other:
            continue
        if isinstance(st, ast.AugAssign) and isinstance(st.op, ast.BitOr):
            aggs.append(st)
        elif isinstance(st, ast.Assign) and any(astx.same(x, tg[0]) for x in astx.walk(st.value)) and \
                isinstance(st.value, (ast.BoolOp, ast.BinOp)) and \
                isinstance(getattr(st.value, 'op', None), (ast.Or, ast.BitOr)):
            aggs.append(st)
        else:
            overwrites.append(st)
    if overwrites:
        out.bad(fn, overwrites[0], 'the subsystem flag overwrites the group flag instead of being OR-ed into it: a group '
                'whose last subsystem has no bounds loses the bounds of the others', key='has-bounds-aggregation')
        return
    reset_nodes = [n for r in resets for n in g.nodes_of(r)]
    agg_nodes = [n for a in aggs for n in g.nodes_of(a)]
    after = set()
    for rn in reset_nodes:
        after |= g.reach(g.normal_succ(rn), labels=cfgm.noexc)
    if not any(n in after for n in agg_nodes):
        out.bad(fn, resets[0], 'Group._setup resets _has_bounds to False and never ORs the subsystems\' flags back in: '
                'a Newton solver on this group sees _has_bounds == False and enforces nothing',
                key='has-bounds-aggregation')
    else:
        out.ok(fn, aggs[0], '_has_bounds is re-aggregated from the subsystems after the reset')


# ======================================================================================= option ranges
def _num_const(e):
    if isinstance(e, ast.Constant) and isinstance(e.value, (int, float)) and not isinstance(e.value, bool):
        return e.value
    if isinstance(e, ast.UnaryOp) and isinstance(e.op, ast.USub):
        v = _num_const(e.operand)
        return None if v is None else -v
    return None


@rule('C10.options', floor=2)
def options(repo, out):
    """rho is declared within [0, 1] and alpha >= 0, so backtracking only shortens the enforced step."""
    fn = repo.func(BT, 'ArmijoGoldsteinLS._declare_options')
    want = {'rho': (0, 1), 'alpha': (0, None)}
    found = {}
    for c in astx.calls(fn.node):
        if astx.callee_attr(c) == 'declare' and c.args and astx.const_str(c.args[0]) in want:
            found[astx.const_str(c.args[0])] = c
    for nm, (lo, hi) in want.items():
        c = found.get(nm)
        if c is None:
            continue
        problems = []
        l, u = astx.kwarg(c, 'lower'), astx.kwarg(c, 'upper')
        for label, e, lim, cmp in (('lower', l, lo, lambda v, t: v >= t), ('upper', u, hi, lambda v, t: v <= t)):
            if lim is None:
                continue
            if e is None:
                problems.append(f'no {label}= limit')
                continue
            v = _num_const(e)
            if v is None:
                out.unsure(fn, c, f'{label}= of option {nm} is not a numeric literal')
                problems = None
                break
            if not cmp(v, lim):
                problems.append(f'{label}={v}')
        if problems is None:
            continue
        if problems:
            out.bad(fn, c, f"option '{nm}' admits values outside [{lo}, {hi if hi is not None else 'inf'}) "
                    f"({', '.join(problems)}): the step length can then grow or change sign while backtracking, "
                    'leaving the enforced segment', key=f'option-range-{nm}')
        else:
            out.ok(fn, c, f"option '{nm}' is restricted to [{lo}, {hi if hi is not None else 'inf'})")


# ======================================================================================= self-test
_G, _N, _C, _S = GROUP, NEWTON, COMPONENT, SYSTEM
_SCALAR_TAIL = ('    change = change_lower + change_upper\n    u_data += change\n    du += change / alpha')
selftest(
    'C10',
    # ---- scaled bound arrays (F3 and relatives)
    Mutant('mono-prefix-F3-unswapped', BT, 'self._lower_bounds[start:end] = scaled_lower',
           'self._lower_bounds[start:end] = bnd0', 'C10.mono',
           also=[(BT, 'self._upper_bounds[start:end] = scaled_upper', 'self._upper_bounds[start:end] = bnd1')]),
    Mutant('mono-min-max-swapped', BT, 'scaled_lower = np.minimum(bnd0, bnd1)', 'scaled_lower = np.maximum(bnd0, bnd1)',
           'C10.mono'),
    Mutant('mono-abs-span', BT, 'bnd1 = (var_upper - ref0) / (ref - ref0)', 'bnd1 = (var_upper - ref0) / abs(ref - ref0)',
           'C10.mono'),
    Mutant('mono-wrong-map', BT, 'bnd0 = (var_lower - ref0) / (ref - ref0)', 'bnd0 = (var_lower - ref0) / ref', 'C10.mono'),
    Mutant('mono-upper-default', BT, '                    var_upper = np.inf', '                    var_upper = -np.inf',
           'C10.mono'),
    Mutant('seed2-one-sided-bounds-skipped', BT, 'if var_lower is None and var_upper is None:',
           'if var_lower is None or var_upper is None:', ['C10.mono', 'C10.layout']),
    Mutant('layout-no-start-advance', BT,
           '                if var_lower is None and var_upper is None:\n                    start = end\n                    continue',
           '                if var_lower is None and var_upper is None:\n                    continue', 'C10.layout'),
    Mutant('layout-fill-zero', BT, 'np.full(len(system._outputs), -np.inf)', 'np.full(len(system._outputs), 0.0)',
           'C10.layout'),
    Mutant('layout-end-assign', BT, 'end += val.size', 'end = val.size', 'C10.layout', nth=1),
    Mutant('layout-all-finite', BT, '                self._lower_bounds[start:end] = scaled_lower\n',
           '                if np.all(np.isfinite(scaled_lower)):\n                    self._lower_bounds[start:end] = scaled_lower\n',
           'C10.layout'),
    Mutant('layout-drop-ravel', BT, '                elif not np.isscalar(var_lower):\n                    var_lower = var_lower.ravel()',
           '                elif False:\n                    var_lower = var_lower.ravel()', 'C10.layout'),
    Mutant('layout-wrong-array', BT, 'self._upper_bounds[start:end] = scaled_upper',
           'self._lower_bounds[start:end] = scaled_upper', ['C10.layout', 'C10.mono']),
    Mutant('fresh-prefix-no-reset', BT, '        self._lower_bounds = self._upper_bounds = None\n        if system._has_bounds:',
           '        if system._has_bounds:', 'C10.fresh'),
    Mutant('fresh-reset-upper-only', BT, '        self._lower_bounds = self._upper_bounds = None\n        if system._has_bounds:',
           '        self._upper_bounds = None\n        if system._has_bounds:', 'C10.fresh'),
    Mutant('layout-realloc-per-output', BT, 'if self._lower_bounds is None:', 'if True:', 'C10.layout'),
    Mutant('samemap-a1', _G, "a1 = meta['ref'] - ref0", "a1 = meta['ref']", 'C10.same_map'),
    Mutant('samemap-a0', _G, '                a0 = ref0\n', '                a0 = 0.0\n', 'C10.same_map'),
    Mutant('samemap-swapped', _G, "{'output': (a0, a1, None, None)}", "{'output': (a1, a0, None, None)}", 'C10.same_map'),
    # ---- kernels and dispatch
    Mutant('kernel-scalar-times-alpha', BT, _SCALAR_TAIL, _SCALAR_TAIL.replace('change / alpha', 'change * alpha'),
           'C10.kernel'),
    Mutant('kernel-scalar-no-alpha', BT, _SCALAR_TAIL, _SCALAR_TAIL.replace('change / alpha', 'change'), 'C10.kernel'),
    Mutant('kernel-scalar-min-for-max', BT, 'np.maximum(u_data, lower_bounds) - u_data',
           'np.minimum(u_data, lower_bounds) - u_data', 'C10.kernel'),
    Mutant('kernel-scalar-minus', BT, _SCALAR_TAIL, _SCALAR_TAIL.replace('change_lower + change_upper',
                                                                          'change_lower - change_upper'), 'C10.kernel'),
    Mutant('kernel-vector-mask-positive', BT, 'mask = du_arr != 0', 'mask = du_arr > 0', 'C10.kernel'),
    Mutant('kernel-vector-no-alpha', BT, 'du *= 1 - d_alpha / alpha', 'du *= 1 - d_alpha', 'C10.kernel'),
    Mutant('kernel-vector-sign', BT, 'u.add_scal_vec(-d_alpha, du)', 'u.add_scal_vec(d_alpha, du)', 'C10.kernel'),
    Mutant('kernel-vector-amin', BT, 'max_d_alpha = np.amax((u_mask - upper_bounds[mask]) / abs_du_mask)',
           'max_d_alpha = np.amin((u_mask - upper_bounds[mask]) / abs_du_mask)', 'C10.kernel'),
    Mutant('kernel-vector-upper-skipped', BT, '        # Check upper bound\n        if upper_bounds is not None:',
           '        # Check upper bound\n        if upper_bounds is not None and lower_bounds is None:', 'C10.kernel'),
    Mutant('kernel-vector-operands', BT, '(lower_bounds[mask] - u_mask) / abs_du_mask', '(u_mask - lower_bounds[mask]) / abs_du_mask',
           'C10.kernel'),
    Mutant('kernel-vector-threshold', BT, '    if d_alpha > 0:', '    if d_alpha > 1:', 'C10.kernel'),
    Mutant('kernel-wall-copy', BT, '    u_data = u.asarray()\n    du_data = du.asarray()',
           '    u_data = u.asarray(copy=True)\n    du_data = du.asarray()', 'C10.kernel'),
    Mutant('kernel-wall-min-for-max', BT, 'np.minimum(u_data, upper_bounds) - u_data', 'np.maximum(u_data, upper_bounds) - u_data',
           'C10.kernel', nth=1),
    Mutant('kernel-wall-zero-before-add', BT, '    u_data += change\n    du_data += change / alpha\n',
           '    u_data -= change\n    du_data += change / alpha\n', 'C10.kernel'),
    Mutant('dispatch-bounds-swapped', BT, '_enforce_bounds_scalar(system._outputs, step, alpha, lower, upper)',
           '_enforce_bounds_scalar(system._outputs, step, alpha, upper, lower)', 'C10.kernel'),
    Mutant('dispatch-literal-unhandled', BT, "        elif method == 'wall':", "        elif method == 'walls':", 'C10.kernel'),
    Mutant('dispatch-new-literal', BT, "values=['vector', 'scalar', 'wall']", "values=['vector', 'scalar', 'wall', 'clip']",
           'C10.kernel'),
    Mutant('dispatch-wrong-array', BT, '        lower = self._lower_bounds\n', '        lower = self._upper_bounds\n', 'C10.kernel'),
    Mutant('dispatch-doutputs', BT, '_enforce_bounds_vector(system._outputs, step, alpha, lower, upper)',
           '_enforce_bounds_vector(system._doutputs, step, alpha, lower, upper)', 'C10.kernel'),
    # ---- placement in the two line searches
    Mutant('placement-enforce-after-apply', BT, '            self._enforce_bounds(step=du, alpha=1.0)\n\n            self._run_apply()',
           '            self._run_apply()\n            self._enforce_bounds(step=du, alpha=1.0)\n', 'C10.placement'),
    Mutant('placement-be-double-step', BT, '        self._norm0 = norm0\n        u += du', '        self._norm0 = norm0\n        u += du\n        u += du',
           'C10.placement'),
    Mutant('placement-be-enforce-before-step', BT, '        self._norm0 = norm0\n        u += du',
           '        self._norm0 = norm0\n        self._enforce_bounds(step=du, alpha=1.0)\n        u += du', 'C10.placement'),
    Mutant('placement-be-guard-inverted', BT, '        if not system._has_bounds:\n            u += du\n            return',
           '        if system._has_bounds:\n            u += du\n            return', 'C10.placement'),
    Mutant('seed2-placement-ag-wrong-alpha', BT, 'self._enforce_bounds(step=du, alpha=alpha)', 'self._enforce_bounds(step=du, alpha=1.0)',
           'C10.placement'),
    Mutant('placement-ag-full-step', BT, '        u.add_scal_vec(alpha, du)', '        u.add_scal_vec(1.0, du)', 'C10.placement'),
    Mutant('placement-ag-no-enforce', BT, '        self._enforce_bounds(step=du, alpha=alpha)\n\n        try:', '        try:',
           'C10.placement'),
    Mutant('placement-ag-delta-swapped', BT, 'u.add_scal_vec(self.alpha - alpha_old, du)', 'u.add_scal_vec(alpha_old - self.alpha, du)',
           'C10.placement'),
    Mutant('placement-ag-absolute-move', BT, 'u.add_scal_vec(self.alpha - alpha_old, du)', 'u.add_scal_vec(self.alpha, du)',
           'C10.placement'),
    Mutant('placement-ag-div-rho', BT, 'self.alpha *= rho  # update alpha', 'self.alpha /= rho  # update alpha', 'C10.placement'),
    Mutant('placement-ag-enforce-copy', BT, 'self._enforce_bounds(step=du, alpha=alpha)',
           'self._enforce_bounds(step=system._residuals, alpha=alpha)', 'C10.placement'),
    # ---- Newton
    Mutant('newton-double-update', _N, '                self.linesearch.solve()\n            else:\n                system._outputs += system._doutputs',
           '                self.linesearch.solve()\n            system._outputs += system._doutputs', 'C10.newton'),
    Mutant('newton-linesearch-bypassed', _N, '                self.linesearch._do_subsolve = do_subsolve\n                self.linesearch.solve()',
           '                self.linesearch._do_subsolve = do_subsolve\n                system._outputs += system._doutputs', 'C10.newton'),
    Mutant('seed2-newton-bypass-under-approx', _N, 'if self.linesearch and not system.under_complex_step:',
           'if self.linesearch and not system.under_approx:', 'C10.newton'),
    Mutant('newton-bypass-under-fd', _N, 'if self.linesearch and not system.under_complex_step:',
           'if self.linesearch and not system.under_complex_step and not system.under_finite_difference:', 'C10.newton'),
    Mutant('newton-setup-not-wired', _N, '            self.linesearch._setup_solvers(system, self._depth + 1)\n\n    def _assembled',
           '            pass\n\n    def _assembled', 'C10.newton'),
    Mutant('newton-no-update', _N, '            else:\n                system._outputs += system._doutputs', '            else:\n                pass',
           'C10.newton'),
    Mutant('newton-minus', _N, '            else:\n                system._outputs += system._doutputs',
           '            else:\n                system._outputs -= system._doutputs', 'C10.newton'),
    # ---- flag / options
    Mutant('flag-upper-not-set', _C, '                upper = ensure_compatible(name, upper, shape, default_shape=default_shape)[0]\n                self._has_bounds = True',
           '                upper = ensure_compatible(name, upper, shape, default_shape=default_shape)[0]', 'C10.flag'),
    Mutant('flag-and-for-or', _S, "if metadata['lower'] is not None or metadata['upper'] is not None:",
           "if metadata['lower'] is not None and metadata['upper'] is not None:", 'C10.flag'),
    Mutant('flag-aggregation-dropped', _G, '                grp._has_bounds |= subsys._has_bounds\n', '', 'C10.flag'),
    Mutant('flag-aggregation-overwrites', _G, '                grp._has_bounds |= subsys._has_bounds\n',
           '                grp._has_bounds = subsys._has_bounds\n', 'C10.flag'),
    Mutant('options-rho-upper', BT, "opt.declare('rho', default=0.5, lower=0.0, upper=1.0", "opt.declare('rho', default=0.5, lower=0.0, upper=2.0",
           'C10.options'),
    Mutant('options-rho-no-upper', BT, "opt.declare('rho', default=0.5, lower=0.0, upper=1.0", "opt.declare('rho', default=0.5, lower=0.0",
           'C10.options'),
    Mutant('options-alpha-unbounded', BT, "opt.declare('alpha', default=1.0, lower=0.0,", "opt.declare('alpha', default=1.0,", 'C10.options'),
    # ---- behaviour-preserving twins
    Twin('twin-where-for-minmax', BT, '                scaled_lower = np.minimum(bnd0, bnd1)\n                scaled_upper = np.maximum(bnd0, bnd1)',
         '                flip = bnd0 > bnd1\n                scaled_lower = np.where(flip, bnd1, bnd0)\n                scaled_upper = np.where(flip, bnd0, bnd1)'),
    Twin('twin-span-temporary', BT, '                bnd0 = (var_lower - ref0) / (ref - ref0)\n                bnd1 = (var_upper - ref0) / (ref - ref0)',
         '                span = ref - ref0\n                bnd1 = (var_upper - ref0) / span\n                bnd0 = (var_lower - ref0) / span'),
    Twin('twin-offsets-rewritten', BT, '                end += val.size\n                meta = abs2meta_out[abs_name]',
         '                end = start + len(val)\n                meta = abs2meta_out[abs_name]'),
    Twin('twin-vector-max', BT, '            max_d_alpha = np.amax((lower_bounds[mask] - u_mask) / abs_du_mask)\n            if max_d_alpha > d_alpha:\n                d_alpha = max_d_alpha',
         '            viol = (lower_bounds[mask] - u_mask) / abs_du_mask\n            d_alpha = max(d_alpha, viol.max())'),
    Twin('twin-vector-mask', BT, 'mask = du_arr != 0', 'mask = ~(du_arr == 0)'),
    Twin('twin-scalar-clip', BT, _SCALAR_TAIL, '    change = change_upper + change_lower\n    u_data += change\n    du.iadd(change / alpha)'),
    Twin('twin-wall-where', BT, '    changed_either = change.astype(bool)\n    du_data[changed_either] = 0.',
         '    du_data[change != 0] = 0.'),
    Twin('twin-dispatch-reordered', BT, "        if method == 'vector':\n            _enforce_bounds_vector(system._outputs, step, alpha, lower, upper)\n        elif method == 'scalar':\n            _enforce_bounds_scalar(system._outputs, step, alpha, lower, upper)",
         "        u = system._outputs\n        if method == 'scalar':\n            _enforce_bounds_scalar(u, step, alpha, lower, upper)\n        elif method == 'vector':\n            _enforce_bounds_vector(u, step, alpha, upper_bounds=upper, lower_bounds=lower)"),
    Twin('twin-be-add-scal-vec', BT, '        self._norm0 = norm0\n        u += du', '        self._norm0 = norm0\n        u.add_scal_vec(1.0, du)'),
    Twin('twin-be-positional', BT, 'self._enforce_bounds(step=du, alpha=1.0)', 'self._enforce_bounds(du, 1.0)'),
    Twin('twin-ag-delta-temporary', BT, '                    u.add_scal_vec(self.alpha - alpha_old, du)',
         '                    delta = alpha_old - self.alpha\n                    u.add_scal_vec(-delta, du)'),
    Twin('twin-ag-alpha-inline', BT, "        self.alpha = alpha = self.options['alpha']", "        alpha = self.options['alpha']\n        self.alpha = alpha"),
    Twin('twin-newton-flipped', _N, '            if self.linesearch and not system.under_complex_step:\n                self.linesearch._do_subsolve = do_subsolve\n                self.linesearch.solve()\n            else:\n                system._outputs += system._doutputs',
         '            if system.under_complex_step or not self.linesearch:\n                system._outputs += system._doutputs\n            else:\n                self.linesearch._do_subsolve = do_subsolve\n                self.linesearch.solve()'),
    Twin('twin-newton-gate-rewritten', _N, 'if self.linesearch and not system.under_complex_step:',
         'if self.linesearch and not (system.under_approx and system.under_complex_step):'),
    Twin('twin-flag-nested', _S, "                if metadata['lower'] is not None or metadata['upper'] is not None:\n                    subsys._has_bounds = True",
         "                if metadata['lower'] is not None:\n                    subsys._has_bounds = True\n                elif metadata['upper'] is not None:\n                    subsys._has_bounds = True"),
    Twin('twin-flag-or-assign', _G, '                grp._has_bounds |= subsys._has_bounds\n',
         '                grp._has_bounds = grp._has_bounds or subsys._has_bounds\n'),
    Twin('twin-fresh-reset-split', BT, '        self._lower_bounds = self._upper_bounds = None\n        if system._has_bounds:',
         '        self._upper_bounds = None\n        self._lower_bounds = None\n        if system._has_bounds:'),
    Twin('twin-wall-repaired', BT, '    change = change_lower + change_upper\n\n    u_data += change\n    du_data += change / alpha',
         '    change = change_lower + change_upper\n    if np.isscalar(change):\n        return\n\n    u_data += change\n    du_data += change / alpha'),
    Twin('twin-flag-repaired', _C, '        if isscalar(ref):\n            self._has_output_scaling |= ref != 1.0',
         '        if lower is not None or upper is not None:\n            self._has_bounds = True\n\n        if isscalar(ref):\n            self._has_output_scaling |= ref != 1.0'),
    Twin('twin-flag-reset-before-setup', _C, '        self.setup()\n        self._setup_check()',
         '        self._has_bounds = bool(self._static_var_rel2meta) and self._has_bounds\n        self.setup()\n        self._setup_check()'),
    Twin('twin-samemap-inline', _G, "                a1 = meta['ref'] - ref0\n", "                a1 = -(ref0 - meta['ref'])\n"),
)
