"""C03 -- simultaneous-derivative colouring reconstructs every Jacobian entry.

Whole property (numerical equality of coloured and uncoloured derivatives for every sparsity pattern)
is not decidable from the source.  Decided here: structural necessary conditions of the mechanisms
named in the property's anchors -- greedy colouring bookkeeping, direction (fwd/rev) tables, the
bidirectional partition call sites, substitution subtractions (encoding, ordering, application, and
their position relative to the in-place scaling of the total jacobian), the coloured jac setters.
"""
import ast

from .. import astx, cfg as cfgm, boolx
from ..core import AnalysisError
from ..engine import rule, describe, selftest, Mutant, Twin

COL = 'openmdao/utils/coloring.py'
TJ = 'openmdao/core/total_jac.py'
APPROX = 'openmdao/approximation_schemes/approximation_scheme.py'
EXEC = 'openmdao/components/exec_comp.py'

describe('C03',
         'Decides structural necessary conditions of colouring reconstruction (every bad verdict was confirmed at run time '
         'to break reconstruction, the solve bound, or to raise, on some pattern): (order) in _TotalJacInfo.compute_totals '
         'the substitution subtractions run on self.J after the last linear solve, not twice in a row, before every '
         'in-place scaling of J, under a guard equivalent to "subtractions exist"; (order-approx) approximated totals are '
         'scaled only after _linearize; (one-colour) the greedy loop gives each column exactly one colour and one group '
         'whose index is that colour, testing the colours of the current column\'s neighbours; (order-id) _order_by_ID '
         'yields every non-empty column once with its own adjacency; (slots/setter-twins/coords) every fwd/rev dispatch '
         'reads the slot, nz array, shape axis and subscript position of its own direction and sparse matrices are built '
         'as (rows, cols); (modes) Coloring.modes() and _TotalJacInfo.modes cover every coloured direction; (pairing/seeds/'
         'gather) colour number, group members, seeds, iteration metadata and nonzero lists stay paired, scratch columns '
         'are clean; (compute) _compute_coloring builds the Coloring before the rev transposition, colours after it, files '
         '(groups, map) under the matching slot and never returns a bidirectional colouring that needs more solves than '
         'fwd or rev; (partition) MNCO_bidir removes from M exactly what it stores, retires the chosen row/column, colours '
         'Jr transposed, computes subtractions exactly for bidirectional substitution colourings; (adjacency) direct = '
         'either-in-partition, substitution = both / overlap, pairs over the full row, symmetric storage, single-entry rows '
         'registered; (subtract) one sign convention between colour map and reader, same-colour restriction, (row, col) '
         'positions, dependency order, J[pos] -= sum(J[k]).  Does not decide that the greedy colouring is minimal, nor '
         'numerical equality; scratch-mask restore and the exact overlap bookkeeping are reported as undecided when changed '
         '(run-time search showed them to be conservative).',
         ['scipy sparse / numpy / networkx calls behave as documented',
          'direction arguments take only the values fwd and rev unless a function raises otherwise',
          'MPI-only paths (_jac_setter_dist, par_deriv_jac_setter, locality mask of seeds) are checked for shape only'])


# =========================================================================== helpers
class Ctx:
    """CFG + reaching definitions of one function, with small resolution helpers."""

    def __init__(self, fn):
        self.fn = fn
        self.g = cfgm.build(fn)
        self.rd = cfgm.ReachingDefs(self.g)
        a = fn.node.args
        self.params = [x.arg for x in a.posonlyargs + a.args + a.kwonlyargs]

    def node(self, stmt):
        ns = self.g.nodes_of(stmt)
        if not ns:
            raise AnalysisError(f'{self.fn.ident}: statement not in CFG: {astx.src(stmt)}')
        return ns[0]

    def at(self, expr):
        """CFG node of the statement that evaluates expr."""
        st = astx.stmt_of(expr)
        return self.node(st)

    def is_param(self, name, at):
        return name in self.params and self.rd.defs(at, name) == {self.g.entry}

    def unique_def(self, at, name):
        ds = self.rd.defs(at, name)
        if len(ds) != 1:
            return None
        return next(iter(ds))

    def value(self, at, name):
        """(defining value expression, def node) when exactly one plain Assign reaches, else (None, None)."""
        d = self.unique_def(at, name)
        if d is None:
            # several definitions that all bind the same attribute path (an alias re-established in a finally block)
            ds = sorted(self.rd.defs(at, name), key=lambda n: n.id)
            if len(ds) > 1 and all(x.kind == 'stmt' and isinstance(x.ast, ast.Assign) and len(x.ast.targets) == 1 and
                                   isinstance(x.ast.targets[0], ast.Name) and x.ast.targets[0].id == name and
                                   isinstance(x.ast.value, ast.Attribute) for x in ds) and \
                    len({ast.dump(x.ast.value) for x in ds}) == 1:
                d = ds[0]
        if d is None or d.kind != 'stmt' or not isinstance(d.ast, ast.Assign) or len(d.ast.targets) != 1:
            return None, None
        t = d.ast.targets[0]
        if isinstance(t, ast.Name) and t.id == name:
            return d.ast.value, d
        return None, None

    def rpath(self, expr, at, depth=0):
        """Access path of expr with leading local aliases (x = self.J) resolved."""
        if isinstance(expr, ast.Name) and depth < 4:
            v, d = self.value(at, expr.id)
            if v is not None and not self.is_param(expr.id, at):
                p = self.rpath(v, d, depth + 1)
                if p is not None and isinstance(v, (ast.Name, ast.Attribute)):
                    return p
            return expr.id
        if isinstance(expr, ast.Attribute):
            p = self.rpath(expr.value, at, depth)
            return None if p is None else f'{p}.{expr.attr}'
        if isinstance(expr, ast.Subscript):
            p = self.rpath(expr.value, at, depth)
            if p is None:
                return None
            if isinstance(expr.slice, ast.Constant):
                return f'{p}[{expr.slice.value!r}]'
            return f'{p}[*]'
        return astx.path(expr)


_FLIPD = {'fwd': 'rev', 'rev': 'fwd'}


def dir_when_true(test, cx, at, depth=0):
    """'fwd' / 'rev' when `test` is true exactly for that direction (two-valued domain), else None."""
    if depth > 4:
        return None
    if isinstance(test, ast.UnaryOp) and isinstance(test.op, ast.Not):
        d = dir_when_true(test.operand, cx, at, depth + 1)
        return _FLIPD.get(d)
    if isinstance(test, ast.Compare) and len(test.ops) == 1 and isinstance(test.ops[0], (ast.Eq, ast.NotEq)):
        a, b = test.left, test.comparators[0]
        if astx.const_str(a) in _FLIPD:
            a, b = b, a
        lit = astx.const_str(b)
        if lit in _FLIPD and isinstance(a, ast.Name) and cx.is_param(a.id, at):
            return lit if isinstance(test.ops[0], ast.Eq) else _FLIPD[lit]
        return None
    if isinstance(test, ast.Name):
        v, d = cx.value(at, test.id)
        if v is not None:
            return dir_when_true(v, cx, d, depth + 1)
    return None


def dir_chain(ifst, cx):
    """[(dir, stmts)] for an if/elif/else dispatch on the direction, or None.  dir in fwd/rev/other."""
    out, seen, cur = [], [], ifst
    while True:
        d = dir_when_true(cur.test, cx, cx.node(cur))
        if d is None:
            return None
        out.append((d, cur.body))
        seen.append(d)
        if len(cur.orelse) == 1 and isinstance(cur.orelse[0], ast.If) and \
                dir_when_true(cur.orelse[0].test, cx, cx.node(cur.orelse[0])) is not None:
            cur = cur.orelse[0]
            continue
        if set(seen) == {'fwd', 'rev'}:
            out.append(('other', cur.orelse))
        elif len(seen) == 1:
            out.append((_FLIPD[seen[0]], cur.orelse))
        else:
            return None
        return out


def dir_dispatches(cx, body=None):
    """All outermost direction dispatches (If statements) in a function body."""
    res = []

    def rec(stmts):
        for st in stmts:
            if isinstance(st, ast.If):
                ch = dir_chain(st, cx)
                if ch is not None:
                    res.append((st, ch))
                    continue
            for fld in ('body', 'orelse', 'finalbody'):
                sub = getattr(st, fld, None)
                if isinstance(sub, list) and sub and isinstance(sub[0], ast.stmt):
                    rec(sub)
            if isinstance(st, ast.Try):
                for h in st.handlers:
                    rec(h.body)
    rec(astx.strip_doc(cx.fn.node.body) if body is None else body)
    return res


def sdump(node):
    """Structural key without astx.canon (which deep-copies the whole module through the _parent links)."""
    return 'None' if node is None else ast.dump(node, annotate_fields=False, include_attributes=False)


def ssame(a, b):
    return sdump(a) == sdump(b)


def walk_body(stmts):
    for st in stmts:
        yield from astx.walk(st)


def idx_elts(sub):
    """Index expressions of a subscript as a list (1 element for 1-D)."""
    s = sub.slice
    if isinstance(s, ast.Tuple):
        return list(s.elts)
    return [s]


def is_full_slice(e):
    return isinstance(e, ast.Slice) and e.lower is None and e.upper is None and e.step is None


def raises_always(stmts):
    """True if the statement list ends in an unconditional raise."""
    return bool(stmts) and isinstance(stmts[-1], ast.Raise)


# =========================================================================== C03.order
_J_OTHER = ('self.J_final', 'self.J_dict')


def _guard_formula(call_stmt, cx):
    """Conjunction of the if-tests (with polarity) lexically enclosing call_stmt inside the function."""
    parts = []
    child = call_stmt
    outer_if = None
    for anc in astx.ancestors(call_stmt):
        if anc is cx.fn.node:
            break
        if isinstance(anc, ast.If):
            pos = child in anc.body
            parts.append((anc.test, pos, anc))
            outer_if = anc
        child = anc
    return parts, outer_if


def _sub_atom(cx, recv_path):
    def atom_of(e):
        at = cx.at(e)
        if isinstance(e, ast.Compare) and len(e.ops) == 1 and isinstance(e.ops[0], (ast.Is, ast.IsNot)) and \
                isinstance(e.comparators[0], ast.Constant) and e.comparators[0].value is None:
            if cx.rpath(e.left, at) == recv_path:
                return 'has_coloring' if isinstance(e.ops[0], ast.IsNot) else ('not', 'has_coloring')
        p = cx.rpath(e, at)
        if p == recv_path + '._subtractions':
            return 'subtractions'
        if isinstance(e, ast.Name):
            v, d = cx.value(at, e.id)
            if v is not None and not isinstance(v, ast.Name):
                return boolx.from_ast(v, atom_of)
        return 'free:' + sdump(e)
    return atom_of


@rule('C03.order', floor=3)
def order(repo, out):
    """Substitution subtractions run once on self.J after all solves and before any in-place scaling of J."""
    fn = repo.func(TJ, '_TotalJacInfo.compute_totals')
    cx = Ctx(fn)
    g = cx.g
    subs = g.calling('_apply_subtractions')
    scal = g.calling('_apply_unit_scaling', 'apply_jac_scaling')
    solves = g.calling('_solve_linear')
    if not solves:
        raise AnalysisError(f'{fn.ident}: no _solve_linear call found')
    if not subs:
        # post-processing extracted into a helper method of the same class: decide the position of the helper call in
        # compute_totals, then the order inside the helper
        helpers = []
        for n in g.nodes:
            for c in n.calls():
                if astx.path(astx.receiver(c)) == 'self':
                    h = repo.lookup(fn.rel, fn.cls.name, astx.callee_attr(c))
                    if h is not None and h is not fn and any(astx.callee_attr(c2) == '_apply_subtractions'
                                                             for c2 in astx.calls(h.node)):
                        helpers.append((n, h))
        if helpers and len({h.qualname for _, h in helpers}) == 1:
            hfn = helpers[0][1]
            hnodes = [n for n, _ in helpers]
            okpos = True
            for hn in hnodes:
                after = g.reach(g.normal_succ(hn), labels=cfgm.noexc)
                if any(sv in after for sv in solves):
                    w = g.path([m for sv in solves for m in g.normal_succ(sv)], [g.exit], avoid=hnodes, labels=cfgm.noexc)
                    if w is not None:
                        out.bad(fn, hn.ast, f'linear solves still run after {hfn.name}() (which applies the subtractions) and '
                                'no call follows the last solve', key='subtraction-before-solves')
                    else:
                        out.unsure(fn, hn.ast, f'{hfn.name}() sits inside the solve loop: repeated application not analysed')
                    okpos = False
                elif any(h2 in after for h2 in hnodes):
                    out.bad(fn, hn.ast, f'{hfn.name}() (subtractions + scaling) can run twice on one path',
                            key='subtraction-twice')
                    okpos = False
            for sc in scal:
                if g.dominated_by(sc, hnodes, labels=cfgm.noexc) is not None or \
                        any(hn in g.reach(g.normal_succ(sc), labels=cfgm.noexc) for hn in hnodes):
                    out.bad(fn, sc.ast, f'J is rescaled in place before {hfn.name}() applies the subtractions',
                            key='scaling-before-subtraction:' + hfn.name)
                    okpos = False
            if not okpos:
                return
            n_scal_outer = len(scal)
            fn, cx = hfn, Ctx(hfn)
            g = cx.g
            subs = g.calling('_apply_subtractions')
            scal = g.calling('_apply_unit_scaling', 'apply_jac_scaling')
            solves = g.calling('_solve_linear')
            if len(scal) + n_scal_outer < 2:
                raise AnalysisError(f'{fn.ident}: expected the unit-scaling and the driver-scaling call')
            if len(scal) < 2:
                scal = scal + scal[:1] * (2 - len(scal)) if scal else scal
    if len(scal) < 2 and fn.name == 'compute_totals':
        raise AnalysisError(f'{fn.ident}: expected the unit-scaling and the driver-scaling call, found {len(scal)}')
    if not subs:
        elsewhere = [f for f in repo.module(TJ).funcs.values()
                     if f is not fn and any(astx.callee_attr(c) == '_apply_subtractions'
                                            for c in astx.calls(f.node))]
        producer = repo.func(COL, 'MNCO_bidir')
        produced = any(isinstance(t, ast.Attribute) and t.attr == '_subtractions'
                       for st in astx.walk_stmts(producer.node.body) for t in astx.assigned_targets(st))
        if elsewhere:
            out.unsure(fn, fn.node, '_apply_subtractions is called from ' + elsewhere[0].qualname +
                       ', not from compute_totals: ordering not analysed')
        elif produced:
            out.bad(fn, fn.node, 'compute_totals never calls _apply_subtractions although MNCO_bidir still '
                    'produces substitution colourings: entries shared by a fwd and a rev colour keep the '
                    'sum of several jacobian entries', key='subtraction-missing')
        else:
            raise AnalysisError('substitution method vanished (no _subtractions producer, no consumer)')
        return

    # --- the subtraction itself
    for s in subs:
        call = [c for c in s.calls() if astx.callee_attr(c) == '_apply_subtractions'][0]
        recv = cx.rpath(astx.receiver(call), s)
        a0 = astx.arg(call, 0, 'J')
        ap = cx.rpath(a0, s) if a0 is not None else None
        if recv != 'self.simul_coloring':
            out.unsure(fn, s.ast, f'receiver {recv} of _apply_subtractions is not self.simul_coloring')
            continue
        if ap in _J_OTHER:
            out.bad(fn, s.ast, f'_apply_subtractions is applied to {ap}; the jac setters write into self.J '
                    '(J_final/J_dict is a dict of views for dict return formats and cannot be indexed by '
                    '(row, col))', key='subtraction-operand')
            continue
        if ap != 'self.J':
            out.unsure(fn, s.ast, f'argument {astx.src(a0)} of _apply_subtractions not recognised as self.J')
            continue
        after = g.reach(g.normal_succ(s), labels=cfgm.noexc)
        late = [n for n in solves if n in after]
        if late:
            # is there still an application after the last solve?  (paths from a solve to the exit that avoid every
            # subtraction call and do not leave through the false edge of its guard)
            gtests = set()
            for s2 in subs:
                ps, _ = _guard_formula(s2.ast, cx)
                for _, pos, ifst in ps:
                    gtests.update((n, 'false' if pos else 'true') for n in g.nodes_of(ifst))
            seen = set(m for sv in solves for m in g.normal_succ(sv))
            todo = list(seen)
            escapes = False
            while todo:
                n = todo.pop()
                if n is g.exit:
                    escapes = True
                    break
                if n in subs:
                    continue
                for m, lab in g.succ[n]:
                    if lab == 'exc' or (n, lab) in gtests or m in seen:
                        continue
                    seen.add(m)
                    todo.append(m)
            if escapes:
                out.bad(fn, s.ast, 'linear solves (line ' + str(late[0].lineno) + ') still run after _apply_subtractions and '
                        'no application follows the last solve: the subtraction works on entries that are not computed yet',
                        key='subtraction-before-solves')
            else:
                out.unsure(fn, s.ast, '_apply_subtractions sits inside the solve loop: it is repeated per mode/colour; only '
                           'the last application is meaningful and earlier ones are harmless only while the other '
                           "direction's entries are still zero -- not analysed")
            continue
        again = [n for n in subs if n in after]
        if again:
            out.bad(fn, s.ast, 'subtractions can be applied twice on one path without a solve in between: every corrected '
                    'entry is reduced twice', key='subtraction-twice')
            continue
        # guard
        parts, outer_if = _guard_formula(s.ast, cx)
        atom_of = _sub_atom(cx, 'self.simul_coloring')
        fs = []
        for test, pos, _ in parts:
            f = boolx.from_ast(test, atom_of)
            fs.append(f if pos else boolx.Not(f))
        G = boolx.And(*fs) if fs else boolx.TRUE
        okg, n, cex = boolx.equivalent(
            G, boolx.A('subtractions'),
            constraint=lambda v: (not v.get('subtractions', False)) or v.get('has_coloring', True),
            extra_atoms=['subtractions', 'has_coloring'])
        out.count('guard_rows', n)
        if not okg:
            if cex.get('subtractions') and not G.ev(cex):
                why = 'subtractions exist but are not applied when ' + boolx.fmt_val(cex)
            else:
                why = 'guard lets the call run without subtractions when ' + boolx.fmt_val(cex)
            out.bad(fn, outer_if or s.ast, 'guard of _apply_subtractions is not equivalent to "the colouring '
                    'has subtractions": ' + why, key='subtraction-guard')
            continue
        out.ok(fn, s.ast, 'after all solves, once, on self.J, guard == subtractions exist')

    # --- every scaling call comes after the completed reconstruction
    doms = set(subs)
    for s in subs:
        _, outer_if = _guard_formula(s.ast, cx)
        if outer_if is not None:
            doms.update(g.nodes_of(outer_if))
    for sc in scal:
        call = [c for c in sc.calls() if astx.callee_attr(c) in ('_apply_unit_scaling', 'apply_jac_scaling')][0]
        nm = astx.callee_attr(call)
        later = g.reach(g.normal_succ(sc), labels=cfgm.noexc)
        hit = [s for s in subs if s in later]
        if hit:
            out.bad(fn, sc.ast, f'{nm} rescales J in place before _apply_subtractions (line {hit[0].lineno}) '
                    'runs: the subtraction then combines entries of different rows/columns that carry '
                    'different scale factors', key='scaling-before-subtraction:' + nm)
            continue
        w = g.dominated_by(sc, doms, labels=cfgm.noexc)
        if w is not None:
            out.bad(fn, sc.ast, f'{nm} can be reached without passing the subtraction step: ' + g.fmt_path(w),
                    key='scaling-bypasses-subtraction:' + nm)
            continue
        out.ok(fn, sc.ast, f'{nm} is dominated by the completed subtraction step')


@rule('C03.order-approx', floor=2)
def order_approx(repo, out):
    """Approximated totals: J is rescaled in place only after the (coloured) approximation has filled it."""
    fn = repo.func(TJ, '_TotalJacInfo._compute_totals_approx')
    cx = Ctx(fn)
    g = cx.g
    lin = g.calling('_linearize')
    scal = g.calling('_apply_unit_scaling', 'apply_jac_scaling')
    if not lin or len(scal) < 2:
        raise AnalysisError(f'{fn.ident}: _linearize / scaling calls not found')
    for sc in scal:
        nm = [astx.callee_attr(c) for c in sc.calls() if astx.callee_attr(c) in ('_apply_unit_scaling', 'apply_jac_scaling')][0]
        later = g.reach(g.normal_succ(sc), labels=cfgm.noexc)
        if any(l in later for l in lin):
            out.bad(fn, sc.ast, f'{nm} runs before model._linearize fills the approximated jacobian: the scaling is applied to '
                    'stale values and then overwritten', key='approx-scaling-order:' + nm)
        elif g.dominated_by(sc, lin, labels=cfgm.noexc) is not None:
            out.bad(fn, sc.ast, f'{nm} can be reached without model._linearize', key='approx-scaling-order:' + nm)
        else:
            out.ok(fn, sc.ast, f'{nm} follows model._linearize on every path')
    if any(astx.callee_attr(c) == '_apply_subtractions' for c in astx.calls(fn.node)):
        out.unsure(fn, fn.node, 'approximated totals apply subtractions: ordering against scaling not analysed here')


# =========================================================================== C03.one-colour
def _greedy_parts(cx):
    """Locate the outer loop, colours array, group list and inner loop of the greedy colouring."""
    fn = cx.fn
    outer = [st for st in fn.node.body if isinstance(st, ast.For)]
    outer = [st for st in outer if isinstance(st.target, ast.Tuple) and len(st.target.elts) == 2 and
             all(isinstance(e, ast.Name) for e in st.target.elts)]
    if len(outer) != 1:
        raise AnalysisError(f'{fn.ident}: expected one `for icol, nbrs in ...` loop, found {len(outer)}')
    outer = outer[0]
    icol, nbrs = (e.id for e in outer.target.elts)
    inner = [st for st in astx.walk_stmts(outer.body) if isinstance(st, ast.For)]
    inner = [st for st in inner if isinstance(st.iter, ast.Call) and astx.call_name(st.iter) == 'enumerate'
             and len(st.iter.args) in (1, 2) and isinstance(st.iter.args[0], ast.Name)
             and isinstance(st.target, ast.Tuple) and len(st.target.elts) == 2
             and all(isinstance(e, ast.Name) for e in st.target.elts)]
    if len(inner) != 1:
        raise AnalysisError(f'{fn.ident}: expected one `for color, grp in enumerate(groups)` loop, found {len(inner)}')
    inner = inner[0]
    groups = inner.iter.args[0].id
    color, grp = (e.id for e in inner.target.elts)
    return outer, inner, icol, nbrs, groups, color, grp


def _one_colour_sentinel(fn, cx, out):
    """Second accepted idiom of the greedy loop: search the lowest free colour into a local (`chosen`, preset to
    len(groups)), then commit once: `groups.append([icol])` if chosen == len(groups) else `groups[chosen].append(icol)`,
    and `colors[icol] = chosen`.  Returns False when this idiom is not present."""
    g = cx.g
    outer = [st for st in fn.node.body if isinstance(st, ast.For) and isinstance(st.target, ast.Tuple)
             and len(st.target.elts) == 2 and all(isinstance(e, ast.Name) for e in st.target.elts)]
    if len(outer) != 1:
        return False
    outer = outer[0]
    icol, nbrs = (e.id for e in outer.target.elts)
    inner = [st for st in astx.walk_stmts(outer.body) if isinstance(st, ast.For) and isinstance(st.target, ast.Name)
             and isinstance(st.iter, ast.Call) and astx.call_name(st.iter) == 'range' and len(st.iter.args) == 1]
    if len(inner) != 1:
        return False
    inner = inner[0]
    cvar = inner.target.id
    hdr, ihdr = cx.node(outer), cx.node(inner)
    body = set(g.body_nodes(outer))
    body_entry = [m for m, lab in g.succ[hdr] if lab == 'true']

    def is_store(n):
        return n.kind == 'stmt' and isinstance(n.ast, ast.Assign) and len(n.ast.targets) == 1 and \
            isinstance(n.ast.targets[0], ast.Subscript) and isinstance(n.ast.targets[0].value, ast.Name) and \
            isinstance(n.ast.targets[0].slice, ast.Name) and n.ast.targets[0].slice.id == icol
    stores = [n for n in g.where(is_store) if n in body]
    carr = {n.ast.targets[0].value.id for n in stores}
    if len(carr) != 1:
        return False
    carr = carr.pop()

    def akind(n):
        if n.kind != 'stmt' or not isinstance(n.ast, ast.Expr) or not isinstance(n.ast.value, ast.Call):
            return None
        c = n.ast.value
        if astx.callee_attr(c) not in ('append', 'extend', 'insert', 'add') or not astx.mentions(c, icol):
            return None
        r = astx.receiver(c)
        if astx.callee_attr(c) == 'append' and len(c.args) == 1:
            a = c.args[0]
            if isinstance(r, ast.Name) and isinstance(a, ast.List) and len(a.elts) == 1 and \
                    isinstance(a.elts[0], ast.Name) and a.elts[0].id == icol:
                return 'new'
            if isinstance(r, ast.Subscript) and isinstance(r.value, ast.Name) and isinstance(r.slice, ast.Name) and \
                    isinstance(a, ast.Name) and a.id == icol:
                return 'indexed'
        return 'other'
    appends = [n for n in g.nodes if n in body and akind(n)]
    news = [n for n in appends if akind(n) == 'new']
    idxd = [n for n in appends if akind(n) == 'indexed']
    if any(akind(n) == 'other' for n in appends) or len(news) != 1 or len(idxd) != 1:
        return False
    groups = astx.receiver(news[0].ast.value).id
    if astx.receiver(idxd[0].ast.value).value.id != groups:
        return False
    chosen = astx.receiver(idxd[0].ast.value).slice.id

    # ---- ONCE
    for what, X, key in (('colour store', stores, 'once-colour'), ('group append', appends, 'once-group')):
        w = g.path(body_entry, [hdr], avoid=X, labels=cfgm.noexc)
        if not X or w is not None:
            out.bad(fn, outer, f'an iteration can finish without a {what} of column {icol}: ' + g.fmt_path(w), key=key)
            continue
        if any(set(X) & g.reach(g.normal_succ(x), avoid=[hdr], labels=cfgm.noexc) for x in X):
            out.bad(fn, X[0].ast, f'more than one {what} of column {icol} possible in one iteration (the column would '
                    'belong to several colours)', key=key)
            continue
        out.ok(fn, X[0].ast, f'exactly one {what} per column on every path ({len(X)} site(s))')

    # ---- definitions of the chosen colour: preset = len(groups), selection = loop variable under the free test
    def is_len(e, at):
        if isinstance(e, ast.Call) and astx.call_name(e) == 'len' and len(e.args) == 1 and \
                isinstance(e.args[0], ast.Name) and e.args[0].id == groups:
            return at
        if isinstance(e, ast.Name):
            v, d = cx.value(at, e.id)
            if v is not None and d in body:
                return is_len(v, d)
        return None

    def len_fresh(at, use):
        """len(groups) evaluated at `at` is still the length at `use` (no append in between, same iteration)."""
        between = g.reach(g.normal_succ(at), avoid=[hdr], labels=cfgm.noexc)
        return use in between and not any(a in between and use in g.reach(g.normal_succ(a), avoid=[hdr], labels=cfgm.noexc)
                                          for a in appends)
    cdefs = [n for n in body if n.kind == 'stmt' and isinstance(n.ast, ast.Assign) and
             any(isinstance(t, ast.Name) and t.id == chosen for t in n.ast.targets)]
    presets = [n for n in cdefs if is_len(n.ast.value, n) is not None]
    selects = [n for n in cdefs if isinstance(n.ast.value, ast.Name) and n.ast.value.id == cvar and
               astx.in_body(n.ast, inner, 'body')]
    if len(presets) != 1 or len(selects) != 1 or len(cdefs) != 2 or \
            g.dominated_by(ihdr, presets, labels=cfgm.noexc) is not None:
        out.unsure(fn, outer, f'definitions of the chosen colour {chosen} (preset to len({groups}), selection of a free '
                   'colour) not recognised')
        return True
    rng_at = is_len(inner.iter.args[0], ihdr)
    if rng_at is None or not len_fresh(rng_at, ihdr) and rng_at is not ihdr:
        out.unsure(fn, inner, f'candidate colours are not range(len({groups}))')
        return True

    # ---- index agreement, existing group: groups[chosen].append(icol) with colors[icol] = chosen
    a = idxd[0]
    sv = [s for s in stores if isinstance(s.ast.value, ast.Name)]
    if len(sv) != len(stores):
        out.bad(fn, stores[0].ast, f'colour of the column is stored as `{astx.src(stores[0].ast.value)}`, not as the '
                f'index {chosen} of the group it joins', key='colour-index-existing')
    elif all(s.ast.value.id == chosen and cx.rd.defs(s, chosen) <= set(cdefs) and
             cx.rd.defs(a, chosen) <= set(cdefs) and
             (cx.rd.defs(a, chosen) <= cx.rd.defs(s, chosen) or cx.rd.defs(s, chosen) <= cx.rd.defs(a, chosen))
             for s in stores):
        out.ok(fn, a.ast, f'{groups}[{chosen}].append({icol}) pairs with {carr}[{icol}] = {chosen}')
    else:
        out.bad(fn, stores[0].ast, f'column joins group {chosen} but its colour is stored as '
                f'`{astx.src(stores[0].ast.value)}`: later neighbour tests read a wrong colour', key='colour-index-existing')

    # ---- index agreement, new group: appended exactly when chosen == len(groups) (still fresh)
    n_ = news[0]
    tests = [anc for anc in astx.ancestors(n_.ast) if isinstance(anc, ast.If) and astx.in_body(anc, outer, 'body')]
    tests_i = [anc for anc in astx.ancestors(a.ast) if isinstance(anc, ast.If) and astx.in_body(anc, outer, 'body')]
    if len(tests) != 1 or tests != tests_i:
        out.unsure(fn, n_.ast, 'new-group / existing-group commit is not one if/else')
    else:
        t = tests[0]
        tn = cx.node(t)
        cmp_ = t.test
        neg = False
        while isinstance(cmp_, ast.UnaryOp) and isinstance(cmp_.op, ast.Not):
            neg, cmp_ = not neg, cmp_.operand
        okc = isinstance(cmp_, ast.Compare) and len(cmp_.ops) == 1 and isinstance(cmp_.ops[0], (ast.Eq, ast.NotEq, ast.GtE, ast.Lt))
        if okc:
            l, r = cmp_.left, cmp_.comparators[0]
            if isinstance(r, ast.Name) and r.id == chosen:
                l, r = r, l
                okc = isinstance(cmp_.ops[0], (ast.Eq, ast.NotEq))
            la = is_len(r, tn)
            okc = okc and isinstance(l, ast.Name) and l.id == chosen and la is not None and (la is tn or len_fresh(la, tn))
        if not okc:
            out.unsure(fn, t, f'commit test is not `{chosen} == len({groups})`')
        else:
            is_new_when_true = isinstance(cmp_.ops[0], (ast.Eq, ast.GtE)) != neg
            new_in_true = astx.in_body(n_.ast, t, 'body')
            idx_in_true = astx.in_body(a.ast, t, 'body')
            if new_in_true == idx_in_true:
                out.unsure(fn, t, 'both commits in the same branch')
            elif is_new_when_true == new_in_true:
                out.ok(fn, t, f'a new group is opened exactly when {chosen} == len({groups}) (no colour was free), so the '
                       f'stored colour is the index of the new group')
            else:
                out.bad(fn, t, f'a new group is opened when a free colour WAS found and {groups}[{chosen}] is indexed with '
                        f'len({groups}) otherwise: the stored colour is not the index of the group', key='colour-index-new')

    # ---- membership test guarding the selection
    s_ = selects[0]
    tests = [anc for anc in astx.ancestors(s_.ast) if isinstance(anc, ast.If) and astx.in_body(anc, inner, 'body')]
    if len(tests) != 1:
        out.unsure(fn, s_.ast, 'selection of a colour is not under exactly one test inside the search loop')
        return True
    tst = tests[0]
    t = tst.test
    neg = False
    while isinstance(t, ast.UnaryOp) and isinstance(t.op, ast.Not):
        neg, t = not neg, t.operand
    if not (isinstance(t, ast.Compare) and len(t.ops) == 1 and isinstance(t.ops[0], (ast.In, ast.NotIn))):
        out.unsure(fn, tst, 'free-colour test not recognised')
        return True
    free = isinstance(t.ops[0], ast.NotIn) != neg
    tn = cx.node(tst)
    if not (isinstance(t.left, ast.Name) and t.left.id == cvar):
        out.bad(fn, tst, f'the tested colour `{astx.src(t.left)}` is not the candidate {cvar} that gets selected',
                key='neighbour-test')
        return True
    if free != astx.in_body(s_.ast, tst, 'body'):
        out.bad(fn, tst, 'a colour is selected when one of the neighbours already HAS it (test polarity inverted): '
                'structurally dependent columns share a colour', key='neighbour-test')
        return True
    coll, cat = t.comparators[0], tn
    if isinstance(coll, ast.Name):
        v, d = cx.value(tn, coll.id)
        if v is None:
            out.unsure(fn, tst, f'definition of {coll.id} not unique')
            return True
        if d not in body:
            out.bad(fn, d.ast, f"{coll.id} is computed outside the per-column loop: colours of the current column's "
                    'neighbours are not what is tested', key='neighbour-test')
            return True
        coll, cat = v, d
    if not (isinstance(coll, ast.Subscript) and isinstance(coll.value, ast.Name)):
        out.unsure(fn, tst, 'neighbour colour collection not recognised')
    elif coll.value.id != carr:
        out.bad(fn, cat.ast, f'neighbour test reads `{coll.value.id}`, not the colours array {carr}', key='neighbour-test')
    elif isinstance(coll.slice, ast.Name) and coll.slice.id == nbrs and cx.rd.defs(cat, nbrs) == {hdr}:
        out.ok(fn, tst, f'{cvar} is selected only if not in {carr}[{nbrs}] of the current column')
    elif isinstance(coll.slice, ast.Name):
        out.bad(fn, cat.ast, f'neighbour colours are taken at `{coll.slice.id}` instead of the adjacency list {nbrs} of the '
                'current column', key='neighbour-test')
    else:
        out.unsure(fn, cat.ast, 'neighbour index not recognised')
    return True


@rule('C03.one-colour', floor=5)
def one_colour(repo, out):
    """Greedy colouring: per column exactly one colour store and one group append, with matching index,
    decided on the colours of the current column's neighbours."""
    fn = repo.func(COL, '_get_full_disjoint_col_matrix_cols')
    cx = Ctx(fn)
    g = cx.g
    try:
        outer, inner, icol, nbrs, groups, color, grp = _greedy_parts(cx)
    except AnalysisError:
        if _one_colour_sentinel(fn, cx, out):
            return
        raise
    hdr = cx.node(outer)
    ihdr = cx.node(inner)
    body = set(g.body_nodes(outer))
    body_entry = [m for m, lab in g.succ[hdr] if lab == 'true']
    start = astx.arg(inner.iter, 1, 'start')
    if start is not None and not (isinstance(start, ast.Constant) and start.value == 0):
        out.bad(fn, inner, f'groups are enumerated from {astx.src(start)}: the colour number {color} stored for a column is '
                f'not the index of its group in {groups}, while new groups are numbered by len({groups})',
                key='colour-index-existing')
        return

    def is_store(n):
        if n.kind != 'stmt' or not isinstance(n.ast, (ast.Assign, ast.AugAssign)):
            return False
        for t in astx.assigned_targets(n.ast):
            if isinstance(t, ast.Subscript) and isinstance(t.value, ast.Name) and \
                    isinstance(t.slice, ast.Name) and t.slice.id == icol:
                return True
        return False
    stores = [n for n in g.where(is_store) if n in body]
    carr = {t.value.id for n in stores for t in astx.assigned_targets(n.ast) if isinstance(t, ast.Subscript)}
    if len(carr) != 1:
        raise AnalysisError(f'{fn.ident}: colours array not identified ({sorted(carr)})')
    carr = carr.pop()

    def append_kind(n):
        if n.kind != 'stmt' or not isinstance(n.ast, ast.Expr) or not isinstance(n.ast.value, ast.Call):
            return None
        c = n.ast.value
        if astx.callee_attr(c) not in ('append', 'extend', 'insert', 'add') or not astx.mentions(c, icol):
            return None
        r = astx.receiver(c)
        if isinstance(r, ast.Name) and r.id == grp and astx.callee_attr(c) == 'append' and \
                len(c.args) == 1 and isinstance(c.args[0], ast.Name):
            return 'existing'
        if isinstance(r, ast.Name) and r.id == groups and astx.callee_attr(c) == 'append' and \
                len(c.args) == 1 and isinstance(c.args[0], ast.List) and len(c.args[0].elts) == 1 and \
                isinstance(c.args[0].elts[0], ast.Name) and c.args[0].elts[0].id == icol:
            return 'new'
        return 'other'
    appends = [n for n in g.nodes if n in body and append_kind(n)]
    if any(append_kind(n) == 'other' for n in appends):
        x = [n for n in appends if append_kind(n) == 'other'][0]
        out.unsure(fn, x.ast, 'unrecognised way of adding the column to a group')
        return

    # ONCE: colour store
    for what, X, key in (('colour store', stores, 'once-colour'), ('group append', appends, 'once-group')):
        if not X:
            out.bad(fn, outer, f'no {what} for the current column in the loop body', key=key)
            continue
        w = g.path(body_entry, [hdr], avoid=X, labels=cfgm.noexc)
        if w is not None:
            out.bad(fn, outer, f'an iteration can finish without a {what} of column {icol}: ' + g.fmt_path(w),
                    key=key)
            continue
        twice = None
        for x in X:
            r = g.reach(g.normal_succ(x), avoid=[hdr], labels=cfgm.noexc)
            if r & set(X):
                twice = x
        if twice is not None:
            out.bad(fn, twice.ast, f'more than one {what} of column {icol} possible in one iteration (the column '
                    'would belong to several colours)', key=key)
            continue
        out.ok(fn, X[0].ast, f'exactly one {what} per column on every path ({len(X)} site(s))')

    def partners(a):
        fwdr = g.reach(g.normal_succ(a), avoid=[hdr], labels=cfgm.noexc)
        res = []
        for s in stores:
            if s in fwdr:
                res.append((s, 'after'))
            elif a in g.reach(g.normal_succ(s), avoid=[hdr], labels=cfgm.noexc):
                res.append((s, 'before'))
        return res

    # index agreement
    for a in appends:
        kind = append_kind(a)
        ps = partners(a)
        if len(ps) != 1:
            continue  # reported by the ONCE part
        s, rel = ps[0]
        if not isinstance(s.ast, ast.Assign):
            out.bad(fn, s.ast, 'colour of the column is not a plain store', key='colour-index-' + kind)
            continue
        v = s.ast.value
        if kind == 'existing':
            arg = a.ast.value.args[0].id
            if arg != icol:
                out.bad(fn, a.ast, f'{arg} (not the current column {icol}) is appended to the group',
                        key='colour-index-existing')
            elif isinstance(v, ast.Name) and v.id == color and \
                    cx.rd.defs(s, color) == {ihdr} and cx.rd.defs(a, grp) == {ihdr}:
                out.ok(fn, s.ast, f'{carr}[{icol}] = {color} pairs with {grp}.append({icol}) of the same '
                       f'enumerate({groups}) step')
            elif isinstance(v, ast.Name) or isinstance(v, ast.Constant) or isinstance(v, ast.BinOp):
                out.bad(fn, s.ast, f'column is appended to group #{color} but its colour is stored as '
                        f'`{astx.src(v)}`: later neighbour tests read a wrong colour', key='colour-index-existing')
            else:
                out.unsure(fn, s.ast, 'colour value not recognised')
        else:
            def is_len(e):
                return isinstance(e, ast.Call) and astx.call_name(e) == 'len' and len(e.args) == 1 and \
                    isinstance(e.args[0], ast.Name) and e.args[0].id == groups
            if is_len(v):
                want = 'before'
            elif isinstance(v, ast.BinOp) and isinstance(v.op, ast.Sub) and is_len(v.left) and \
                    isinstance(v.right, ast.Constant) and v.right.value == 1:
                want = 'after'
            elif isinstance(v, (ast.Name, ast.Constant, ast.BinOp, ast.Call)) and \
                    (astx.mentions(v, groups, color) or isinstance(v, ast.Constant)):
                out.bad(fn, s.ast, f'colour of a column that opens a new group is stored as `{astx.src(v)}`, '
                        f'not as the index of the new group', key='colour-index-new')
                continue
            else:
                out.unsure(fn, s.ast, 'colour value of the new group not recognised')
                continue
            if rel == want:
                out.ok(fn, s.ast, f'{carr}[{icol}] = {astx.src(v)} evaluated {want} {groups}.append([{icol}]) '
                       '= index of the new group')
            else:
                out.bad(fn, s.ast, f'`{astx.src(v)}` is evaluated {rel} the new group is appended: the stored '
                        'colour is off by one, so neighbours are tested against the wrong colour',
                        key='colour-index-new')

    # membership test
    ex = [a for a in appends if append_kind(a) == 'existing']
    for a in ex:
        tests = [anc for anc in astx.ancestors(a.ast) if isinstance(anc, ast.If) and astx.in_body(anc, inner, 'body')]
        if len(tests) != 1:
            out.unsure(fn, a.ast, 'append into an existing group is not under exactly one test inside the group loop')
            continue
        tst = tests[0]
        in_true = astx.in_body(a.ast, tst, 'body')
        t = tst.test
        neg = False
        while isinstance(t, ast.UnaryOp) and isinstance(t.op, ast.Not):
            neg = not neg
            t = t.operand
        if not (isinstance(t, ast.Compare) and len(t.ops) == 1 and isinstance(t.ops[0], (ast.In, ast.NotIn))):
            out.unsure(fn, tst, 'group membership test not recognised')
            continue
        free = isinstance(t.ops[0], ast.NotIn) != neg     # test true <=> colour is free
        tn = cx.node(tst)
        if not (isinstance(t.left, ast.Name) and t.left.id == color and cx.rd.defs(tn, color) == {ihdr}):
            out.bad(fn, tst, f'the tested colour `{astx.src(t.left)}` is not the index {color} of the group the '
                    'column is appended to', key='neighbour-test')
            continue
        if free != in_true:
            out.bad(fn, tst, 'column joins the group when one of its neighbours already HAS that colour '
                    '(test polarity inverted): structurally dependent columns share a colour', key='neighbour-test')
            continue
        coll = t.comparators[0]
        cat = tn
        if isinstance(coll, ast.Name):
            v, d = cx.value(tn, coll.id)
            if v is None:
                ds = cx.rd.defs(tn, coll.id)
                if ds and all(x.kind == 'stmt' and isinstance(x.ast, ast.Assign) for x in ds) and \
                        any(x not in body for x in ds):
                    out.bad(fn, tst, f'{coll.id} tested here may come from outside the current iteration '
                            '(stale neighbour colours)', key='neighbour-test')
                else:
                    out.unsure(fn, tst, f'definition of {coll.id} not unique')
                continue
            if d not in body:
                out.bad(fn, d.ast, f'{coll.id} is computed outside the per-column loop: colours of the '
                        "current column's neighbours are not what is tested", key='neighbour-test')
                continue
            coll, cat = v, d
        if not (isinstance(coll, ast.Subscript) and isinstance(coll.value, ast.Name)):
            out.unsure(fn, tst, 'neighbour colour collection not recognised')
            continue
        if coll.value.id != carr:
            out.bad(fn, cat.ast, f'neighbour test reads `{coll.value.id}`, not the colours array {carr}',
                    key='neighbour-test')
            continue
        if isinstance(coll.slice, ast.Name) and coll.slice.id == nbrs and cx.rd.defs(cat, nbrs) == {hdr}:
            # no colour store between snapshot and test other than for icol itself is possible: stores are to [icol]
            out.ok(fn, tst, f'{color} joins only if not in {carr}[{nbrs}] of the current column')
        elif isinstance(coll.slice, ast.Name):
            out.bad(fn, cat.ast, f'neighbour colours are taken at `{coll.slice.id}` instead of the adjacency '
                    f'list {nbrs} of the current column', key='neighbour-test')
        else:
            out.unsure(fn, cat.ast, 'neighbour index not recognised')
    if not ex:
        out.bad(fn, inner, 'columns are never added to an existing group', key='neighbour-test')


# =========================================================================== C03.order-id
@rule('C03.order-id', floor=3)
def order_id(repo, out):
    """_order_by_ID yields every column once, paired with its own adjacency column, and retires it."""
    fn = repo.func(COL, '_order_by_ID')
    cx = Ctx(fn)
    g = cx.g
    loops = [st for st in fn.node.body if isinstance(st, ast.For)]
    loops = [lp for lp in loops if any(isinstance(n, ast.Yield) for st in lp.body for n in astx.walk(st))]
    if len(loops) != 1:
        raise AnalysisError(f'{fn.ident}: expected one yielding for-loop, found {len(loops)}')
    loop = loops[0]
    hdr = cx.node(loop)
    body = set(g.body_nodes(loop))
    body_entry = [m for m, lab in g.succ[hdr] if lab == 'true']
    ynodes = [n for n in body if n.kind == 'stmt' and isinstance(n.ast, ast.Expr) and isinstance(n.ast.value, ast.Yield)]
    if len(ynodes) != 1:
        raise AnalysisError(f'{fn.ident}: expected one yield in the loop, found {len(ynodes)}')
    y = ynodes[0]
    yv = y.ast.value.value
    if not (isinstance(yv, ast.Tuple) and len(yv.elts) == 2 and all(isinstance(e, ast.Name) for e in yv.elts)):
        out.unsure(fn, y.ast, 'yield is not a (column, neighbours) pair of names')
        return
    cname, nname = yv.elts[0].id, yv.elts[1].id
    cval, cdef = cx.value(y, cname)
    nval, ndef = cx.value(y, nname)
    mat = cx.params[0] if cx.params else None
    # column = <degrees>.argmax()
    if cval is not None and cdef in body and isinstance(cval, ast.Call) and astx.callee_attr(cval) == 'argmin' and \
            isinstance(astx.receiver(cval), ast.Name):
        out.bad(fn, cdef.ast, 'the next column is the one with the SMALLEST degree: retired columns carry the smallest value, '
                'so a coloured column is chosen again instead of an uncoloured one', key='id-retire')
        return
    if not (cval is not None and cdef in body and isinstance(cval, ast.Call) and
            astx.callee_attr(cval) in ('argmax',) and isinstance(astx.receiver(cval), ast.Name)):
        out.unsure(fn, y.ast, f'definition of the yielded column {cname} not recognised')
        return
    deg = astx.receiver(cval).id
    # neighbours = mat.getcol(column).indices
    ok_pair = False
    if nval is not None and ndef in body and isinstance(nval, ast.Attribute) and nval.attr == 'indices' and \
            isinstance(nval.value, ast.Call) and astx.callee_attr(nval.value) in ('getcol', 'getrow') and \
            len(nval.value.args) == 1:
        recv = astx.receiver(nval.value)
        a = nval.value.args[0]
        if not (isinstance(recv, ast.Name) and recv.id == mat and cx.is_param(mat, ndef)):
            out.unsure(fn, ndef.ast, 'adjacency is not read from the matrix parameter')
            return
        if isinstance(a, ast.Name) and a.id == cname and cx.rd.defs(ndef, cname) == {cdef}:
            ok_pair = True
            out.ok(fn, y.ast, f'yield ({cname}, {mat}.{astx.callee_attr(nval.value)}({cname}).indices): a column with its own neighbours')
        elif isinstance(a, (ast.Name, ast.Constant, ast.BinOp)):
            out.bad(fn, ndef.ast, f'neighbours are read at `{astx.src(a)}`, not at the yielded column {cname}: the '
                    'greedy colouring tests the colours of the wrong columns', key='id-pairing')
            return
    if not ok_pair:
        out.unsure(fn, y.ast, f'definition of the yielded neighbours {nname} not recognised')
        return

    # retire: deg[col] = -<big>
    def is_retire(n):
        if n.kind != 'stmt' or not isinstance(n.ast, ast.Assign) or len(n.ast.targets) != 1:
            return False
        t = n.ast.targets[0]
        return isinstance(t, ast.Subscript) and isinstance(t.value, ast.Name) and t.value.id == deg and \
            isinstance(t.slice, ast.Name) and t.slice.id == cname
    ret = [n for n in g.where(is_retire) if n in body]
    if not ret:
        out.bad(fn, loop, f'the chosen column is never retired ({deg}[{cname}] is not reset): argmax returns the same '
                'column on every iteration, all other columns stay uncoloured', key='id-retire')
        return
    w = g.path(body_entry, [hdr], avoid=ret, labels=cfgm.noexc)
    if w is not None:
        out.bad(fn, ret[0].ast, 'an iteration can finish without retiring the chosen column: ' + g.fmt_path(w),
                key='id-retire')
        return
    for r in ret:
        v = r.ast.value
        if isinstance(v, ast.Name):
            hv, hd = cx.value(r, v.id)
            if hv is not None and hd not in body:
                v, r = hv, hd       # sentinel hoisted into a local before the loop
        neg = isinstance(v, ast.UnaryOp) and isinstance(v.op, ast.USub) and isinstance(v.operand, ast.Name)
        if neg:
            sz, _ = cx.value(r, v.operand.id)
            neg = sz is not None and astx.mentions(sz, mat) and astx.mentions(sz, 'shape')
            if not neg:
                # tuple unpack  `_, ncols = mat.shape` / ncols = mat.shape[1]
                d = cx.unique_def(r, v.operand.id)
                neg = d is not None and d.kind == 'stmt' and isinstance(d.ast, ast.Assign) and \
                    astx.mentions(d.ast.value, 'shape') and astx.mentions(d.ast.value, mat)
        if not neg:
            # a later increment of neighbours (at most ncols of them, +1 each) must never lift it back to the top
            try:
                lit = ast.literal_eval(v)
            except (ValueError, TypeError, SyntaxError):
                lit = None
            if isinstance(lit, (int, float)) and not isinstance(lit, bool):
                out.bad(fn, r.ast, f'retired column gets the fixed degree {lit!r}; each coloured neighbour adds 1, so a '
                        'column with enough neighbours rises above uncoloured columns again and is yielded (and '
                        'coloured) twice', key='id-retire')
            else:
                out.unsure(fn, r.ast, 'retire value not recognised as -(number of columns)')
            return
    out.ok(fn, ret[0].ast, f'{deg}[{cname}] = -(ncols) on every iteration: a column is never chosen twice')
    # number of iterations = number of columns that have entries, which are marked in the degree array beforehand
    it = loop.iter
    cnt = it.args[0] if isinstance(it, ast.Call) and astx.call_name(it) == 'range' and len(it.args) == 1 else None
    count_at = hdr
    if isinstance(cnt, ast.Name):
        hv, hd = cx.value(hdr, cnt.id)
        if hv is not None:
            cnt, count_at = hv, hd      # loop bound hoisted into a local
    counts_deg = False
    if cnt is not None:
        if isinstance(cnt, ast.Call) and astx.call_name(cnt) in ('np.count_nonzero', 'numpy.count_nonzero') and \
                cnt.args and astx.path(cnt.args[0]) == deg:
            counts_deg = True
        elif isinstance(cnt, ast.Attribute) and cnt.attr == 'size' and isinstance(cnt.value, ast.Subscript) and \
                isinstance(cnt.value.value, ast.Call) and astx.call_name(cnt.value.value) in ('np.nonzero', 'numpy.nonzero') \
                and cnt.value.value.args and astx.path(cnt.value.value.args[0]) == deg:
            counts_deg = True
    if not counts_deg:
        out.unsure(fn, loop, 'iteration count is not the number of nonzero entries of the degree array')
        return

    def is_mark(n):
        if n.kind != 'stmt' or not isinstance(n.ast, ast.Assign) or len(n.ast.targets) != 1:
            return False
        t = n.ast.targets[0]
        return isinstance(t, ast.Subscript) and astx.path(t.value) == deg and astx.path(t.slice) == f'{mat}.indices' \
            and isinstance(n.ast.value, ast.Constant) and isinstance(n.ast.value.value, (int, float)) \
            and n.ast.value.value > 0
    marks = [n for n in g.where(is_mark) if n not in body]
    unmarked_later = [n for n in g.reach(g.normal_succ(count_at), labels=cfgm.noexc) if n in marks] if count_at is not hdr else []
    if marks and g.dominated_by(count_at, marks, labels=cfgm.noexc) is None and not unmarked_later:
        out.ok(fn, marks[0].ast, f'columns with entries are marked in {deg} before they are counted')
    else:
        out.bad(fn, loop, f'the loop runs once per nonzero of {deg}, but {deg}[{mat}.indices] is not marked (> 0) on every '
                'path before the loop: no (or too few) columns are yielded, the rest is never coloured', key='id-count')


# =========================================================================== C03.slots
_VOCAB_ATTRS = ('_fwd', '_rev', '_nzrows', '_nzcols', '_shape')


def slot_tokens(nodes):
    """Direction-sensitive tokens ('_fwd[0]', '_nzcols', '_shape[1]', 'solves:fwd') read in the AST nodes."""
    toks = set()
    for root in nodes:
        for n in astx.walk(root):
            if isinstance(n, ast.Attribute) and n.attr in _VOCAB_ATTRS:
                par = getattr(n, '_parent', None)
                if isinstance(par, ast.Subscript) and par.value is n and isinstance(par.slice, ast.Constant) \
                        and isinstance(par.slice.value, int):
                    toks.add(f'{n.attr}[{par.slice.value}]')
                else:
                    toks.add(n.attr)
            elif isinstance(n, ast.Call) and astx.callee_attr(n) == 'total_solves':
                f, r = astx.kwarg(n, 'fwd'), astx.kwarg(n, 'rev')
                fo = not (isinstance(f, ast.Constant) and f.value is False)
                ro = not (isinstance(r, ast.Constant) and r.value is False)
                toks.add('solves:' + ('both' if fo and ro else 'fwd' if fo else 'rev' if ro else 'none'))
    return toks


_ALL_TOKS = {'_fwd', '_fwd[0]', '_fwd[1]', '_rev', '_rev[0]', '_rev[1]', '_nzrows', '_nzcols', '_shape[0]',
             '_shape[1]', 'solves:fwd', 'solves:rev', 'solves:both'}

# (file, function) -> {direction: exact set of direction-sensitive tokens read in that branch}
SLOT_TABLE = {
    (COL, 'Coloring.color_iter'): {'fwd': {'_fwd[0]'}, 'rev': {'_rev[0]'}},
    (COL, 'Coloring.get_row_col_map'): {'fwd': {'_fwd[1]'}, 'rev': {'_rev[1]'}},
    (COL, 'Coloring._get_color_array'): {'fwd': {'_shape[1]', '_fwd[0]', '_nzcols'},
                                         'rev': {'_shape[0]', '_rev[0]', '_nzrows'}},
    (COL, 'Coloring._expand_jac'): {'fwd': {'_nzrows'}, 'rev': {'_nzcols'}},
    (COL, 'Coloring.tangent_iter'): {'fwd': {'_shape[1]'}, 'rev': {'_shape[0]'}},
    (COL, 'Coloring.tangent_matrix'): {'fwd': {'_shape[1]', 'solves:fwd'}, 'rev': {'_shape[0]', 'solves:rev'}},
    (TJ, '_TotalJacInfo._create_in_idx_map'): {'fwd': {'_fwd'}, 'rev': {'_rev'}},
}
# functions that serve one direction only: exact token set of the whole body
FIXED_TABLE = {
    (COL, 'Coloring._getV'): {'_fwd', '_fwd[0]', '_shape[1]'},
    (COL, 'Coloring._getW'): {'_rev', '_rev[0]', '_shape[0]'},
}


def _collect_dir_tokens(cx):
    """{'fwd': tokens, 'rev': tokens, 'other': [stmts]} over every direction dispatch (If / IfExp) of a function."""
    res = {'fwd': set(), 'rev': set()}
    others = []
    sites = 0
    for ifst, chain in dir_dispatches(cx):
        sites += 1
        for d, stmts in chain:
            if d == 'other':
                others.append((ifst, stmts))
            else:
                res[d] |= slot_tokens(stmts)
    for n in astx.walk(cx.fn.node):
        if isinstance(n, ast.IfExp):
            d = dir_when_true(n.test, cx, cx.at(n))
            if d is not None:
                sites += 1
                res[d] |= slot_tokens([n.body])
                res[_FLIPD[d]] |= slot_tokens([n.orelse])
    return res, others, sites


@rule('C03.slots', floor=17)
def slots(repo, out):
    """Every fwd/rev dispatch reads the slot (_fwd/_rev, index 0 groups / 1 nonzero map), nz array and shape
    axis of its own direction; Coloring.__init__ files rows/cols of the sparsity under _nzrows/_nzcols."""
    for (rel, qn), exp in SLOT_TABLE.items():
        fn = repo.func(rel, qn)
        cx = Ctx(fn)
        res, others, sites = _collect_dir_tokens(cx)
        if not sites:
            out.unsure(fn, fn.node, 'no dispatch on the direction parameter recognised')
            continue
        for d in ('fwd', 'rev'):
            got, want = res[d], exp[d]
            wrong = sorted((got & _ALL_TOKS) - want - {t.split('[')[0] for t in want})
            missing = sorted(want - got)
            if wrong:
                out.bad(fn, fn.node, f"the '{d}' branch reads {', '.join(wrong)}"
                        f" (expected only {', '.join(sorted(want))}): data of the other direction / wrong slot is "
                        'used to place or size derivatives', key=f'slot-{d}')
            elif missing:
                out.unsure(fn, fn.node, f"the '{d}' branch no longer reads {', '.join(missing)}")
            else:
                out.ok(fn, fn.node, f"'{d}' branch reads exactly {', '.join(sorted(want))}")
        for ifst, stmts in others:
            if stmts and not raises_always(stmts):
                out.unsure(fn, ifst, 'branch for an invalid direction does not raise')
    for (rel, qn), want in FIXED_TABLE.items():
        fn = repo.func(rel, qn)
        got = slot_tokens(astx.strip_doc(fn.node.body))
        wrong = sorted((got & _ALL_TOKS) - want)
        if wrong:
            out.bad(fn, fn.node, f'reads {", ".join(wrong)}; this helper serves one direction and must use only '
                    f'{", ".join(sorted(want))}', key='slot-fixed')
        elif want - got - {'_fwd', '_rev'}:
            out.unsure(fn, fn.node, f'no longer reads {sorted(want - got)}')
        else:
            out.ok(fn, fn.node, f'reads only {", ".join(sorted(want))}')
    # __init__: rows -> _nzrows, cols -> _nzcols
    fn = repo.func(COL, 'Coloring.__init__')
    n_ok = 0
    for st in astx.walk_stmts(fn.node.body):
        if not isinstance(st, ast.Assign) or len(st.targets) != 1:
            continue
        t, v = st.targets[0], st.value
        pairs = []
        if isinstance(t, ast.Tuple) and isinstance(v, ast.Tuple) and len(t.elts) == len(v.elts):
            pairs = list(zip(t.elts, v.elts))
        elif isinstance(t, ast.Tuple) and isinstance(v, ast.Call) and astx.callee_attr(v) == 'nonzero' and len(t.elts) == 2:
            pairs = [(t.elts[0], 'row'), (t.elts[1], 'col')]
        elif isinstance(t, ast.Attribute):
            pairs = [(t, v)]
        for tt, vv in pairs:
            if not (isinstance(tt, ast.Attribute) and tt.attr in ('_nzrows', '_nzcols')):
                continue
            role = vv if isinstance(vv, str) else (vv.attr if isinstance(vv, ast.Attribute) and vv.attr in ('row', 'col') else None)
            want = 'row' if tt.attr == '_nzrows' else 'col'
            if role is None:
                out.unsure(fn, st, f'source of {tt.attr} not recognised')
            elif role != want:
                out.bad(fn, st, f'{tt.attr} receives the {role} indices of the sparsity pattern', key='slot-init')
            else:
                n_ok += 1
    if n_ok >= 4:
        out.ok(fn, fn.node, 'dense and sparse constructor paths file (rows, cols) under (_nzrows, _nzcols)')
    elif n_ok:
        out.unsure(fn, fn.node, f'only {n_ok} of 4 _nzrows/_nzcols stores recognised')


# =========================================================================== C03.modes
@rule('C03.modes', floor=2)
def modes(repo, out):
    """Coloring.modes() lists exactly the directions that have colours, and compute_totals iterates all of them."""
    fn = repo.func(COL, 'Coloring.modes')

    def atom_of(e):
        p = astx.path(e)
        if p in ('self._fwd', 'self._rev'):
            return p
        if isinstance(e, ast.Compare) and len(e.ops) == 1 and isinstance(e.ops[0], (ast.Is, ast.IsNot)) and \
                isinstance(e.comparators[0], ast.Constant) and e.comparators[0].value is None and \
                astx.path(e.left) in ('self._fwd', 'self._rev'):
            # `is not None` differs from truthiness only for an empty tuple, which is never stored
            return astx.path(e.left) if isinstance(e.ops[0], ast.IsNot) else ('not', astx.path(e.left))
        return None

    def run(stmts, val):
        for st in stmts:
            if isinstance(st, ast.If):
                f = boolx.from_ast(st.test, atom_of)
                r = run(st.body if f.ev(val) else st.orelse, val)
                if r is not None:
                    return r
            elif isinstance(st, ast.Return):
                return st.value
            elif astx.is_docstring(st):
                continue
            else:
                raise AnalysisError(f'{fn.ident}: unexpected statement {astx.src(st)}')
        return None
    bad = None
    for F in (False, True):
        for R in (False, True):
            rv = run(fn.node.body, {'self._fwd': F, 'self._rev': R})
            if not isinstance(rv, (ast.Tuple, ast.List)) or not all(astx.const_str(e) for e in rv.elts):
                out.unsure(fn, fn.node, f'return value for (_fwd={F}, _rev={R}) is not a literal tuple of directions')
                return
            got = {astx.const_str(e) for e in rv.elts}
            want = ({'fwd'} if F else set()) | ({'rev'} if R else set())
            if got != want and bad is None:
                bad = (F, R, got, want)
    out.count('rows', 4)
    if bad:
        F, R, got, want = bad
        out.bad(fn, fn.node, f'modes() returns {sorted(got)} when _fwd is {"set" if F else "unset"} and _rev is '
                f'{"set" if R else "unset"} (expected {sorted(want)}): a direction that carries colours is not solved, '
                'its jacobian entries stay zero', key='modes-table')
    else:
        out.ok(fn, fn.node, "returns 'fwd' iff _fwd and 'rev' iff _rev (4 rows)")

    fn = repo.func(TJ, '_TotalJacInfo.__init__')
    cx = Ctx(fn)
    stores = [n for n in cx.g.nodes if n.kind == 'stmt' and isinstance(n.ast, ast.Assign) and
              any(astx.path(t) == 'self.modes' for t in n.ast.targets)]
    if len(stores) != 1 or not isinstance(stores[0].ast.value, ast.Name):
        out.unsure(fn, fn.node, '`self.modes = <name>` not found exactly once')
        return
    st = stores[0]
    var = st.ast.value.id
    ds = cx.rd.defs(st, var)
    from_coloring = [d for d in ds if d.kind == 'stmt' and isinstance(d.ast, ast.Assign) and
                     isinstance(d.ast.value, ast.Call) and astx.call_name(d.ast.value) == 'self.simul_coloring.modes']
    if not from_coloring:
        out.bad(fn, st.ast, 'self.modes never comes from self.simul_coloring.modes(): a bidirectional colouring is '
                'solved in one direction only, the other partition of J stays zero', key='modes-source')
        return
    # the coloured definition must be the one that reaches whenever simul_coloring is not None
    d = from_coloring[0]
    parts, _ = _guard_formula(d.ast, cx)
    okg = False
    for test, pos, _ in parts:
        if isinstance(test, ast.Compare) and len(test.ops) == 1 and astx.path(test.left) == 'self.simul_coloring' and \
                isinstance(test.comparators[0], ast.Constant) and test.comparators[0].value is None:
            is_none_branch = isinstance(test.ops[0], ast.Is) == pos
            okg = not is_none_branch
            break
    if okg:
        out.ok(fn, d.ast, 'self.modes = simul_coloring.modes() whenever a colouring is used')
    else:
        out.unsure(fn, d.ast, 'guard of `modes = self.simul_coloring.modes()` not recognised')


# =========================================================================== C03.setter-twins
def _seed_position(sub, seeds):
    """Position (0/1) of the per-solve index in a subscript of a 2-D array, or None.  `J[i]` selects row i."""
    el = idx_elts(sub)
    hits = [k for k, e in enumerate(el) if isinstance(e, ast.Name) and e.id in seeds]
    if len(el) > 2 or len(hits) != 1:
        return None
    return hits[0]


# (file, function) -> (resolved base paths of the 2-D array, how the per-solve index is bound)
#   'param:i'      the parameter i (possibly re-bound to a local index)
#   'loop:inds'    target of `for <x> in inds`
#   'enum'         first target of `for <x>, (...) in enumerate(...)`
#   'unpack:0'     first target of a tuple-target for loop
#   'call:f'       name assigned from a call of method f (per-nonzero colour numbers)
TWIN_TABLE = {
    (TJ, '_TotalJacInfo.simple_single_jac_scatter'): (('self.J',), ('param:i',)),
    (TJ, '_TotalJacInfo.simul_coloring_jac_setter'): (('self.J',), ('loop:inds',)),
    (TJ, '_TotalJacInfo.directional_jac_setter'): (('self.J',), ('loop:inds',)),
    (TJ, '_TotalJacInfo.par_deriv_jac_setter'): (('self.J',), ('loop:inds', 'unpack:0')),
    (TJ, '_TotalJacInfo._jac_setter_dist'): (('self.J',), ('param:i',)),
    (COL, 'Coloring.colored_jac_iter'): (('compressed_j',), ('enum',)),
    (COL, 'Coloring._expand_jac'): (('compressed_j',), ('call:_get_color_array',)),
}


def _seed_names(cx, how):
    names = set()
    for h in how:
        kind, _, arg = h.partition(':')
        if kind == 'param' and arg in cx.params:
            names.add(arg)
        for st in astx.walk_stmts(cx.fn.node.body):
            if kind == 'call' and isinstance(st, ast.Assign) and len(st.targets) == 1 and \
                    isinstance(st.targets[0], ast.Name) and isinstance(st.value, ast.Call) and \
                    astx.callee_attr(st.value) == arg:
                names.add(st.targets[0].id)
            if not isinstance(st, ast.For):
                continue
            if kind == 'loop' and isinstance(st.target, ast.Name) and isinstance(st.iter, ast.Name) and \
                    st.iter.id == arg and arg in cx.params:
                names.add(st.target.id)
            if kind == 'enum' and isinstance(st.iter, ast.Call) and astx.call_name(st.iter) == 'enumerate' and \
                    isinstance(st.target, ast.Tuple) and isinstance(st.target.elts[0], ast.Name):
                names.add(st.target.elts[0].id)
            if kind == 'unpack' and isinstance(st.target, ast.Tuple) and \
                    not (isinstance(st.iter, ast.Call) and astx.call_name(st.iter) in ('enumerate', 'zip')) and \
                    isinstance(st.target.elts[int(arg)], ast.Name):
                names.add(st.target.elts[int(arg)].id)
    return names


@rule('C03.setter-twins', floor=22)
def setter_twins(repo, out):
    """fwd writes/reads column i of J (index in position 1), rev row i (position 0); the coloured setter
    gathers and scatters with the same nonzero list of that very column/row."""
    for (rel, qn), (bases, how) in TWIN_TABLE.items():
        fn = repo.func(rel, qn)
        cx = Ctx(fn)
        seeds = _seed_names(cx, how)
        if not seeds:
            out.unsure(fn, fn.node, f'per-solve index ({how}) not found')
            continue
        disp = dir_dispatches(cx)
        n_here = 0
        # role variable chosen once by the direction:  key = (nz, i) if fwd else (i, nz) ;  J[key] = ...
        for n in astx.walk(fn.node):
            if not (isinstance(n, ast.Subscript) and isinstance(n.slice, ast.Name)):
                continue
            at = cx.at(n)
            if cx.rpath(n.value, at) not in bases:
                continue
            kv, kd = cx.value(at, n.slice.id)
            if not (isinstance(kv, ast.IfExp) and isinstance(kv.body, ast.Tuple) and isinstance(kv.orelse, ast.Tuple)):
                continue
            d0 = dir_when_true(kv.test, cx, kd)
            if d0 is None:
                continue
            st = astx.stmt_of(n)
            for d, tup in ((d0, kv.body), (_FLIPD[d0], kv.orelse)):
                hits = [k for k, e in enumerate(tup.elts) if isinstance(e, ast.Name) and e.id in seeds]
                if len(tup.elts) != 2 or len(hits) != 1:
                    out.unsure(fn, st, f'index tuple `{astx.src(tup)}` does not use the per-solve index')
                    continue
                n_here += 1
                want = 1 if d == 'fwd' else 0
                if hits[0] != want:
                    out.bad(fn, kd.ast, f"for '{d}' the index `{astx.src(tup)}` addresses a "
                            f"{'row' if hits[0] == 0 else 'column'} of the jacobian; a {d} solve produces a "
                            f"{'column' if d == 'fwd' else 'row'}", key=f'twin-{d}-axis')
                else:
                    out.ok(fn, st, f"'{d}': `{astx.src(n.value)}[{astx.src(tup)}]` addresses "
                           f"{'column' if d == 'fwd' else 'row'} {astx.src(tup.elts[hits[0]])}")
        if not disp and not n_here:
            out.unsure(fn, fn.node, 'no dispatch on the direction recognised')
            continue
        for ifst, chain in disp:
            for d, stmts in chain:
                if d == 'other':
                    continue
                for n in walk_body(stmts):
                    if not isinstance(n, ast.Subscript):
                        continue
                    if isinstance(getattr(n, '_parent', None), ast.Subscript) and n._parent.value is n:
                        continue   # J[i][mask]: the outer subscript refines the inner, judged on the inner one
                    if cx.rpath(n.value, cx.at(n)) not in bases:
                        continue
                    pos = _seed_position(n, seeds)
                    st = astx.stmt_of(n)
                    if pos is None:
                        if is_full_slice(n.slice) or (isinstance(n.slice, ast.Tuple) and
                                                      all(is_full_slice(e) for e in n.slice.elts)):
                            continue
                        out.unsure(fn, st, f'subscript `{astx.src(n)}` does not use the per-solve index')
                        continue
                    want = 1 if d == 'fwd' else 0
                    n_here += 1
                    if pos != want:
                        out.bad(fn, st, f"in the '{d}' branch `{astx.src(n)}` addresses a "
                                f"{'row' if pos == 0 else 'column'} of the jacobian; a {d} solve produces a "
                                f"{'column' if d == 'fwd' else 'row'}", key=f'twin-{d}-axis')
                    else:
                        out.ok(fn, st, f"'{d}': `{astx.src(n)}` addresses {'column' if d == 'fwd' else 'row'} "
                               f"{astx.src(idx_elts(n)[pos])}")
        if not n_here:
            out.unsure(fn, fn.node, 'no subscript of the jacobian found in the direction branches')

    # gather == scatter in the coloured setter
    fn = repo.func(TJ, '_TotalJacInfo.simul_coloring_jac_setter')
    cx = Ctx(fn)
    seeds = _seed_names(cx, ('loop:inds',))
    n_ok = 0
    for st in astx.walk_stmts(fn.node.body):
        if not (isinstance(st, ast.Assign) and len(st.targets) == 1 and isinstance(st.targets[0], ast.Subscript)):
            continue
        t = st.targets[0]
        at = cx.node(st)
        if cx.rpath(t.value, at) != 'self.J':
            continue
        pos = _seed_position(t, seeds)
        both_dirs = False
        if pos is None and isinstance(t.slice, ast.Name):
            kv, kd = cx.value(at, t.slice.id)
            if isinstance(kv, ast.IfExp) and isinstance(kv.body, ast.Tuple) and isinstance(kv.orelse, ast.Tuple) and \
                    len(kv.body.elts) == 2 and len(kv.orelse.elts) == 2 and dir_when_true(kv.test, cx, kd) is not None:
                pa = [k for k, e in enumerate(kv.body.elts) if isinstance(e, ast.Name) and e.id in seeds]
                pb = [k for k, e in enumerate(kv.orelse.elts) if isinstance(e, ast.Name) and e.id in seeds]
                if len(pa) == 1 and len(pb) == 1 and ssame(kv.body.elts[1 - pa[0]], kv.orelse.elts[1 - pb[0]]) and \
                        kv.body.elts[pa[0]].id == kv.orelse.elts[pb[0]].id:
                    t = ast.Subscript(value=t.value, slice=kv.body, ctx=ast.Store())
                    pos = pa[0]
                    both_dirs = True
        if pos is None:
            continue
        seed = idx_elts(t)[pos].id
        other = idx_elts(t)[1 - pos]
        v = st.value
        if not (isinstance(v, ast.Subscript) and isinstance(other, ast.Name)):
            out.unsure(fn, st, 'coloured store is not `J[nz, i] = reduced[nz]`')
            continue
        if not ssame(v.slice, other):
            if isinstance(v.slice, ast.Name):
                out.bad(fn, st, f'values are gathered at `{astx.src(v.slice)}` but scattered to `{other.id}`: entries '
                        'of the compressed solution land in the wrong rows/columns', key='twin-gather')
            else:
                out.unsure(fn, st, 'gather index not recognised')
            continue
        mv, md = cx.value(at, other.id)
        if not (mv is not None and isinstance(mv, ast.Subscript) and isinstance(mv.value, ast.Name)):
            out.unsure(fn, st, f'definition of {other.id} not recognised')
            continue
        if not (isinstance(mv.slice, ast.Name) and mv.slice.id == seed):
            out.bad(fn, md.ast, f'nonzero list `{astx.src(mv)}` is not the one of the current index {seed}',
                    key='twin-gather')
            continue
        mapv, mapd = cx.value(md, mv.value.id)
        if not (mapv is not None and isinstance(mapv, ast.Call) and astx.callee_attr(mapv) == 'get_row_col_map'):
            out.unsure(fn, md.ast, f'{mv.value.id} is not the result of get_row_col_map')
            continue
        a0 = astx.arg(mapv, 0, 'direction')
        if not (isinstance(a0, ast.Name) and a0.id == 'mode' and cx.is_param('mode', mapd)):
            out.bad(fn, mapd.ast, f'row/col map is requested for `{astx.src(a0)}`, not for the mode being solved',
                    key='twin-gather')
            continue
        n_ok += 2 if both_dirs else 1
        out.ok(fn, st, f'J[.., {seed}] and the solution are both indexed by get_row_col_map(mode)[{seed}]')
        if both_dirs:
            out.ok(fn, st, f'(shared fwd/rev store) J[.., {seed}] and the solution are both indexed by the same nonzero list')
    if n_ok < 2 and not any(i['status'] != 'ok' and i['func'] == fn.qualname for i in out.items):
        out.unsure(fn, fn.node, f'only {n_ok} coloured stores recognised (expected fwd and rev)')

    # colored_jac_iter: the yielded index list is the one used in the subscript
    fn = repo.func(COL, 'Coloring.colored_jac_iter')
    for n in astx.walk(fn.node):
        if isinstance(n, ast.Yield) and isinstance(n.value, ast.Tuple) and len(n.value.elts) == 3 and \
                isinstance(n.value.elts[0], ast.Subscript):
            sub, nz = n.value.elts[0], n.value.elts[1]
            others = [e for e in idx_elts(sub) if not (isinstance(e, ast.Name) and e.id in _seed_names(Ctx(fn), ('enum',)))]
            if len(others) == 1 and ssame(others[0], nz):
                out.ok(fn, astx.stmt_of(n), f'yields compressed values and their target indices `{astx.src(nz)}` together')
            elif len(others) == 1 and isinstance(nz, ast.Name) and isinstance(others[0], ast.Name):
                out.bad(fn, astx.stmt_of(n), f'values are taken at `{astx.src(others[0])}` but reported for `{astx.src(nz)}`',
                        key='twin-gather')
            else:
                out.unsure(fn, astx.stmt_of(n), 'yield shape not recognised')


# =========================================================================== C03.gather
def _helper_cleans(repo, fn, loop, arr):
    """If the per-column loop hands `arr` to a call: (True, stmt) when the callee (a method of the same class,
    followed through the MRO) zero-fills `arr` or a view of it, (False, stmt) when the callee cannot be followed,
    None when `arr` is not passed to any call."""
    for st in astx.walk_stmts(loop.body):
        for c in astx.calls(st):
            pos = [i for i, a in enumerate(c.args) if isinstance(a, ast.Name) and a.id == arr]
            kws = [k.arg for k in c.keywords if isinstance(k.value, ast.Name) and k.value.id == arr]
            if not pos and not kws:
                continue
            if not (astx.path(astx.receiver(c)) == 'self' and fn.cls is not None):
                return False, st
            callee = repo.lookup(fn.rel, fn.cls.name, astx.callee_attr(c))
            if callee is None:
                return False, st
            params = [a.arg for a in callee.node.args.args][1:]
            pname = kws[0] if kws else (params[pos[0]] if pos[0] < len(params) else None)
            if pname is None:
                return False, st
            views = {pname}
            for s2 in astx.walk_stmts(callee.node.body):
                if isinstance(s2, ast.Assign) and isinstance(s2.value, ast.Subscript) and \
                        isinstance(s2.value.value, ast.Name) and s2.value.value.id == pname:
                    views |= {t.id for t in s2.targets if isinstance(t, ast.Name)}
            for s2 in astx.walk_stmts(callee.node.body):
                if isinstance(s2, ast.Assign) and len(s2.targets) == 1 and isinstance(s2.targets[0], ast.Subscript) and \
                        isinstance(s2.targets[0].value, ast.Name) and s2.targets[0].value.id in views and \
                        is_full_slice(s2.targets[0].slice) and isinstance(s2.value, ast.Constant) and s2.value.value == 0:
                    return True, st
            return None
    return None


@rule('C03.gather', floor=4)
def gather(repo, out):
    """Coloured approximations copy, per column of a colour, exactly that column's nonzero rows of the result."""
    for rel, qn in ((APPROX, 'ApproximationScheme._colored_column_iter'), (EXEC, 'ExecComp._compute_colored_partials')):
        fn = repo.func(rel, qn)
        found = 0
        for st in astx.walk_stmts(fn.node.body):
            if not (isinstance(st, ast.Assign) and len(st.targets) == 1 and isinstance(st.targets[0], ast.Subscript)
                    and isinstance(st.value, ast.Subscript) and isinstance(st.targets[0].value, ast.Name)
                    and st.targets[0].value.id == 'scratch'):
                continue
            t, v = st.targets[0], st.value
            found += 1
            loop = astx.enclosing(st, (ast.For,))
            if ssame(t.slice, v.slice):
                # the index must depend on the per-column loop variable (directly or through temporaries
                # assigned inside that loop)
                lv = set(astx.names(loop.target)) if loop is not None else set()
                grew = loop is not None
                while grew:
                    grew = False
                    for s2 in astx.walk_stmts(loop.body):
                        if isinstance(s2, ast.Assign) and lv & astx.names(s2.value):
                            for t2 in astx.assigned_targets(s2):
                                if isinstance(t2, ast.Name) and t2.id not in lv:
                                    lv.add(t2.id)
                                    grew = True
                if lv & astx.names(t.slice):
                    out.ok(fn, st, f'scratch and result are both indexed by `{astx.src(t.slice)}` of the current column')
                else:
                    out.unsure(fn, st, 'index does not depend on the per-column loop variable')
            elif astx.names(t.slice) and astx.names(v.slice):
                out.bad(fn, st, f'rows `{astx.src(v.slice)}` of the result are stored at rows `{astx.src(t.slice)}`: '
                        'the decompressed column is misplaced', key='gather-index')
            else:
                out.unsure(fn, st, 'index shapes not recognised')
            # the scratch column must be clean when the rows of a column are copied into it
            if loop is None:
                continue
            cx = Ctx(fn)
            g = cx.g
            S = cx.node(st)
            outer_loop = [a for a in astx.ancestors(st) if isinstance(a, ast.For)][-1]

            def is_zero_fill(n, names):
                if n.kind != 'stmt' or not isinstance(n.ast, ast.Assign) or len(n.ast.targets) != 1:
                    return False
                tt = n.ast.targets[0]
                return isinstance(tt, ast.Subscript) and isinstance(tt.value, ast.Name) and tt.value.id in names and \
                    is_full_slice(tt.slice) and isinstance(n.ast.value, ast.Constant) and n.ast.value.value == 0
            obody = set(g.body_nodes(outer_loop))
            ibody = set(g.body_nodes(loop))
            Z = [n for n in g.where(lambda n: is_zero_fill(n, {'scratch'})) if n in obody]
            views = {t2.id for s2 in astx.walk_stmts(loop.body) if isinstance(s2, ast.Assign) for t2 in s2.targets
                     if isinstance(t2, ast.Name) and isinstance(s2.value, ast.Subscript) and
                     isinstance(s2.value.value, ast.Name) and s2.value.value.id == 'scratch'}
            ZV = [n for n in g.where(lambda n: is_zero_fill(n, views)) if n in ibody]
            if not Z or g.dominated_by(S, Z, labels=cfgm.noexc) is not None:
                out.bad(fn, st, 'scratch is not zeroed inside the colour loop before rows are copied into it: values of the '
                        'previous colour (or uninitialised memory) end up in the decompressed columns', key='gather-clean')
            elif any(z in ibody for z in Z) or ZV:
                out.ok(fn, (Z + ZV)[-1].ast, 'scratch is clean for every column of a colour')
            elif _helper_cleans(repo, fn, loop, 'scratch') is not None:
                verdict, hst = _helper_cleans(repo, fn, loop, 'scratch')
                if verdict:
                    out.ok(fn, hst, 'scratch is passed to a helper that clears the slices it consumed: clean for every column')
                else:
                    out.unsure(fn, hst, 'scratch is handed to a call that could not be followed: per-column cleanliness not decided')
            else:
                out.bad(fn, st, 'scratch is cleared once per colour only: rows copied for one column of the colour are still '
                        'set when the next column of the same colour is produced', key='gather-clean')
        if not found:
            out.unsure(fn, fn.node, 'no `scratch[rows] = result[rows]` statement found')


# =========================================================================== C03.seeds
def _len_pred(test, name):
    """Python predicate n -> bool for tests `len(name) <op> const`, else None."""
    ops = {ast.Gt: lambda a, b: a > b, ast.GtE: lambda a, b: a >= b, ast.Lt: lambda a, b: a < b,
           ast.LtE: lambda a, b: a <= b, ast.Eq: lambda a, b: a == b, ast.NotEq: lambda a, b: a != b}
    if isinstance(test, ast.UnaryOp) and isinstance(test.op, ast.Not):
        p = _len_pred(test.operand, name)
        return None if p is None else (lambda n: not p(n))
    if not (isinstance(test, ast.Compare) and len(test.ops) == 1 and type(test.ops[0]) in ops):
        return None
    a, b, op = test.left, test.comparators[0], ops[type(test.ops[0])]

    def is_len(e):
        return isinstance(e, ast.Call) and astx.call_name(e) == 'len' and len(e.args) == 1 and \
            isinstance(e.args[0], ast.Name) and e.args[0].id == name
    if is_len(a) and isinstance(b, ast.Constant) and isinstance(b.value, int):
        return lambda n: op(n, b.value)
    if is_len(b) and isinstance(a, ast.Constant) and isinstance(a.value, int):
        return lambda n: op(a.value, n)
    return None


@rule('C03.seeds', floor=5)
def seeds(repo, out):
    """Seed data of a colour is prepared for every group size at which the coloured input setter reads it,
    under the same keys, and seeds/local indices are filtered with one mask."""
    bfn = repo.func(TJ, '_TotalJacInfo._create_in_idx_map')
    sfn = repo.func(TJ, '_TotalJacInfo.simul_coloring_input_setter')
    # builder
    loops = [st for st in astx.walk_stmts(bfn.node.body) if isinstance(st, ast.For) and isinstance(st.iter, ast.Call)
             and astx.callee_attr(st.iter) == 'color_iter' and isinstance(st.target, ast.Name)]
    if len(loops) != 1:
        raise AnalysisError(f'{bfn.ident}: loop over color_iter not found')
    loop = loops[0]
    lv = loop.target.id
    stored = {}   # key -> (stmt, enclosing len-test or None)
    for st in astx.walk_stmts(loop.body):
        if isinstance(st, ast.Assign) and len(st.targets) == 1 and isinstance(st.targets[0], ast.Subscript):
            k = astx.const_str(st.targets[0].slice)
            if k:
                guards = [a for a in astx.ancestors(st) if isinstance(a, ast.If) and astx.in_body(a, loop, 'body')]
                stored[k] = (st, guards)
    # setter
    sparam = sfn.node.args.args[1].arg if len(sfn.node.args.args) > 1 else None
    mparam = sfn.node.args.args[2].arg if len(sfn.node.args.args) > 2 else None
    deleg = None
    for st in sfn.node.body:
        if isinstance(st, ast.If) and _len_pred(st.test, sparam) and st.body and isinstance(st.body[-1], ast.Return):
            deleg = st
    if deleg is None:
        dpred = lambda n: False   # noqa: E731
    else:
        dpred = _len_pred(deleg.test, sparam)
    wrong_deleg = [n for n in range(2, 8) if dpred(n)]
    if deleg is not None:
        if wrong_deleg:
            out.bad(sfn, deleg, f'a colour of {wrong_deleg[0]} columns is seeded through the single-index setter: only its '
                    'first column receives a seed, the other columns of the colour stay zero', key='seeds-delegate')
        else:
            out.ok(sfn, deleg, 'only one-column colours are delegated to the single-index setter')
    reads = {}
    for n in astx.walk(sfn.node):
        if isinstance(n, ast.Subscript) and isinstance(n.value, ast.Name) and n.value.id == mparam and \
                isinstance(n.ctx, ast.Load):
            k = astx.const_str(n.slice)
            if k and (deleg is None or not astx.in_body(n, deleg, 'body')):
                reads[k] = n
    need = {k for k in reads if k in ('seeds', 'local_in_idxs')} | {k for k in reads if k not in stored}
    need |= {k for k in reads if k in stored and stored[k][1]}
    for k in sorted(reads):
        if k not in stored:
            out.bad(sfn, astx.stmt_of(reads[k]), f"the setter reads itermeta['{k}'] which _create_in_idx_map never stores "
                    '(defaultdict(bool) silently yields False)', key='seeds-key')
            continue
        st, guards = stored[k]
        if not guards:
            out.ok(bfn, st, f"itermeta['{k}'] is stored for every colour")
            continue
        preds = [_len_pred(gd.test, lv) if astx.in_body(st, gd, 'body') else None for gd in guards]
        if any(p is None for p in preds):
            out.unsure(bfn, st, f"guard of itermeta['{k}'] is not a test on len({lv})")
            continue
        miss = [n for n in range(1, 8) if not dpred(n) and not all(p(n) for p in preds)]
        out.count('sizes', 7)
        if miss:
            out.bad(bfn, guards[0], f"for a colour of {miss[0]} column(s) the setter reads itermeta['{k}'] but the "
                    f"builder only stores it when `{astx.src(guards[0].test)}`: the seed vector is set from False",
                    key='seeds-threshold')
        else:
            out.ok(bfn, st, f"itermeta['{k}'] is stored for every group size at which the setter reads it")
    if not reads:
        out.unsure(sfn, sfn.node, 'no itermeta reads found in the coloured input setter')
    # one mask
    if 'seeds' in stored and 'local_in_idxs' in stored:
        a, b = stored['seeds'][0].value, stored['local_in_idxs'][0].value
        if isinstance(a, ast.Subscript) and isinstance(b, ast.Subscript):
            if ssame(a.slice, b.slice):
                out.ok(bfn, stored['seeds'][0], f'seeds and local indices are filtered by the same mask `{astx.src(a.slice)}`')
            else:
                out.bad(bfn, stored['seeds'][0], f'seeds are filtered by `{astx.src(a.slice)}` but local indices by '
                        f'`{astx.src(b.slice)}`: seeds and positions no longer correspond', key='seeds-mask')
        elif isinstance(a, ast.Subscript) != isinstance(b, ast.Subscript) and \
                all(isinstance(x, (ast.Subscript, ast.Name)) for x in (a, b)):
            out.bad(bfn, stored['seeds'][0], f'only one of seeds (`{astx.src(a)}`) and local indices (`{astx.src(b)}`) is '
                    'filtered by the locality mask: their lengths and positions no longer correspond', key='seeds-mask')
        else:
            out.unsure(bfn, stored['seeds'][0], 'seed/local index filter not recognised')


# =========================================================================== role inference (row / col)
def infer_roles(stmts, seed=None):
    """Flow-insensitive 'row'/'col' roles of local names inside stmts (a name with two roles -> 'conflict')."""
    roles = dict(seed or {})

    def put(name, r):
        if r is None or name == '_':
            return False
        old = roles.get(name)
        if old is None:
            roles[name] = r
            return True
        if old != r and old != 'conflict':
            roles[name] = 'conflict'
            return True
        return False

    def role(e):
        if isinstance(e, ast.Attribute) and e.attr in ('row', 'col'):
            return e.attr
        if isinstance(e, ast.Name):
            return roles.get(e.id)
        if isinstance(e, ast.Subscript) and isinstance(e.value, ast.Call) and astx.callee_attr(e.value) == 'nonzero' and \
                isinstance(e.slice, ast.Constant) and e.slice.value in (0, 1):
            return ('row', 'col')[e.slice.value]
        if isinstance(e, ast.Subscript):
            return role(e.value)
        if isinstance(e, ast.Call) and astx.call_name(e) in ('sorted', 'np.unique', 'list', 'set', 'np.asarray') and e.args:
            return role(e.args[0])
        return None

    def pairs(t, v):
        if isinstance(t, ast.Tuple):
            if isinstance(v, ast.Tuple) and len(v.elts) == len(t.elts):
                for a, b in zip(t.elts, v.elts):
                    yield from pairs(a, b)
            elif isinstance(v, ast.Call) and astx.callee_attr(v) == 'nonzero' and len(t.elts) == 2:
                yield t.elts[0], 'row'
                yield t.elts[1], 'col'
        elif isinstance(t, ast.Name):
            yield t, v

    changed = True
    rounds = 0
    while changed and rounds < 10:
        changed = False
        rounds += 1
        for st in astx.walk_stmts(stmts):
            items = []
            if isinstance(st, ast.Assign) and len(st.targets) == 1:
                items = list(pairs(st.targets[0], st.value))
            elif isinstance(st, ast.For):
                it = st.iter
                if isinstance(it, ast.Call) and astx.call_name(it) == 'sorted' and it.args:
                    it = it.args[0]
                if isinstance(it, ast.Call) and astx.call_name(it) == 'zip' and isinstance(st.target, ast.Tuple) \
                        and len(it.args) == len(st.target.elts):
                    items = list(zip(st.target.elts, it.args))
                elif isinstance(st.target, ast.Name):
                    items = [(st.target, it)]
            for t, v in items:
                if isinstance(t, ast.Name):
                    r = v if isinstance(v, str) else role(v)
                    if put(t.id, r):
                        changed = True
            # comprehension variables take the role of what they range over
            heads = [st] if not isinstance(st, (ast.For, ast.While, ast.If, ast.With, ast.Try)) else \
                [getattr(st, 'iter', None) or getattr(st, 'test', None)]
            for h in heads:
                if h is None:
                    continue
                for n in astx.walk(h):
                    if isinstance(n, (ast.ListComp, ast.SetComp, ast.GeneratorExp)):
                        for gen in n.generators:
                            if isinstance(gen.target, ast.Name) and put(gen.target.id, role(gen.iter)):
                                changed = True
    return roles, role


# =========================================================================== C03.compute
_GREEDY = ('_get_full_disjoint_cols', '_get_full_disjoint_col_matrix_cols')


@rule('C03.compute', floor=11)
def compute(repo, out):
    """_compute_coloring: Coloring built before the rev transposition, colouring done after it, result filed
    under the matching slot as (groups, nonzero map keyed by column), bidirectional result never worse than
    either unidirectional one."""
    fn = repo.func(COL, '_compute_coloring')
    cx = Ctx(fn)
    g = cx.g
    jname = cx.params[0]

    def is_T(n):
        if n.kind != 'stmt' or not isinstance(n.ast, ast.Assign) or len(n.ast.targets) != 1:
            return False
        t, v = n.ast.targets[0], n.ast.value
        if not (isinstance(t, ast.Name) and t.id == jname):
            return False
        if isinstance(v, ast.Attribute) and v.attr == 'T' and isinstance(v.value, ast.Name) and v.value.id == jname:
            return True
        return isinstance(v, ast.Call) and astx.call_name(v) == f'{jname}.transpose' and not v.args
    Ts = g.where(is_T)
    if len(Ts) != 1:
        if not Ts:
            out.bad(fn, fn.node, f'the sparsity matrix is never transposed: a rev colouring groups columns, not rows',
                    key='compute-transpose')
        else:
            out.unsure(fn, fn.node, 'several transpositions found')
        return
    T = Ts[0]
    # (1) guard of the transposition
    parts, _ = _guard_formula(T.ast, cx)
    dirs = []
    for test, pos, ifst in parts:
        d = dir_when_true(test, cx, cx.node(ifst))
        if d is not None:
            dirs.append(d if pos else _FLIPD[d])
    if dirs == ['rev']:
        out.ok(fn, T.ast, 'transposed exactly when mode is rev')
    elif 'fwd' in dirs or not dirs:
        out.bad(fn, T.ast, 'the sparsity matrix is transposed ' + ('in fwd mode' if dirs else 'unconditionally') +
                ': fwd colourings group rows of J', key='compute-transpose')
    else:
        out.unsure(fn, T.ast, 'guard of the transposition not recognised')
    after_T = g.reach(g.normal_succ(T), labels=cfgm.noexc)
    # (2) Coloring(...) built from the untransposed matrix
    ctors = [n for n in g.calling('Coloring') if n.kind == 'stmt' and isinstance(n.ast, ast.Assign) and n is not T]
    ctors = [n for n in ctors if not any(astx.callee_attr(c) == 'MNCO_bidir' for c in n.calls())]
    if len(ctors) != 1:
        out.unsure(fn, fn.node, f'{len(ctors)} Coloring(...) constructions found')
    else:
        c = ctors[0]
        if T in cx.rd.defs(c, jname):
            out.bad(fn, c.ast, 'Coloring(sparsity=J) is built after `J = J.T`: for rev its _shape, _nzrows and _nzcols '
                    'describe the transposed jacobian', key='compute-ctor-order')
        else:
            out.ok(fn, c.ast, 'Coloring is built from the untransposed sparsity')
    # (3) colouring and nonzero extraction happen on the (possibly) transposed matrix
    users = [n for n in g.calling(*_GREEDY)]
    rc = [n for n in g.nodes if n.kind == 'stmt' and isinstance(n.ast, ast.Assign) and
          isinstance(n.ast.value, ast.Tuple) and
          [astx.path(e) for e in n.ast.value.elts] == [f'{jname}.row', f'{jname}.col']]
    rc += [n for n in g.nodes if n.kind == 'stmt' and isinstance(n.ast, ast.Assign) and
           astx.path(n.ast.value) == f'{jname}.shape' and
           any(isinstance(t, ast.Tuple) for t in n.ast.targets)]
    if not users:
        out.unsure(fn, fn.node, '_get_full_disjoint_cols call not found')
    for u in users + rc:
        if u in after_T:
            out.ok(fn, u.ast, 'runs after the rev transposition')
        else:
            out.bad(fn, u.ast, 'runs before `J = J.T`: the rev colouring / nonzero map is computed on the untransposed '
                    'matrix', key='compute-use-order')
    # (4) slot + tuple layout
    slot_sites = 0
    for ifst, chain in dir_dispatches(cx):
        for d, stmts in chain:
            for st in astx.walk_stmts(stmts):
                if not isinstance(st, ast.Assign):
                    continue
                for t in st.targets:
                    if isinstance(t, ast.Attribute) and t.attr in ('_fwd', '_rev'):
                        slot_sites += 1
                        if t.attr != '_' + d:
                            out.bad(fn, st, f"the {d} colouring is stored under {t.attr}", key='compute-slot')
                            continue
                        v = st.value
                        if not (isinstance(v, (ast.Tuple, ast.List)) and len(v.elts) == 2 and
                                all(isinstance(e, ast.Name) for e in v.elts)):
                            out.unsure(fn, st, 'stored colouring is not a (groups, nonzero map) pair of names')
                            continue
                        at = cx.node(st)
                        gv, _ = cx.value(at, v.elts[0].id)
                        mv, _ = cx.value(at, v.elts[1].id)
                        g_ok = isinstance(gv, ast.Call) and astx.call_name(gv) in _GREEDY
                        m_is_groups = isinstance(mv, ast.Call) and astx.call_name(mv) in _GREEDY
                        if g_ok:
                            out.ok(fn, st, f'{t.attr} = (colour groups, nonzero map)')
                        elif m_is_groups:
                            out.bad(fn, st, f'{t.attr} holds (nonzero map, colour groups): consumers read groups from '
                                    '[0] and the map from [1]', key='compute-slot')
                        else:
                            out.unsure(fn, st, 'origin of the stored groups not recognised')
    if slot_sites < 2:
        out.unsure(fn, fn.node, f'only {slot_sites} slot store(s) under a direction test found')
    # (5) nonzero map keyed by column holds rows
    loops = [st for st in fn.node.body if isinstance(st, ast.For)]
    roles, role = infer_roles(fn.node.body)
    n_map = 0
    for lp in loops:
        for st in astx.walk_stmts(lp.body):
            key = val = None
            if isinstance(st, ast.Assign) and len(st.targets) == 1 and isinstance(st.targets[0], ast.Subscript) and \
                    isinstance(st.value, ast.List) and len(st.value.elts) == 1:
                key, val = st.targets[0].slice, st.value.elts[0]
            elif isinstance(st, ast.Expr) and isinstance(st.value, ast.Call) and astx.callee_attr(st.value) == 'append' \
                    and isinstance(astx.receiver(st.value), ast.Subscript) and len(st.value.args) == 1:
                key, val = astx.receiver(st.value).slice, st.value.args[0]
            if key is None:
                continue
            rk, rv = role(key), role(val)
            n_map += 1
            if (rk, rv) == ('col', 'row'):
                out.ok(fn, st, 'nonzero map: keyed by column, holds rows')
            elif rk in ('row', 'col') and rv in ('row', 'col'):
                out.bad(fn, st, f'nonzero map is keyed by the {rk} index and holds {rv} indices; the jac setter reads '
                        'map[column] as the nonzero rows of that column', key='compute-map-roles')
            else:
                out.unsure(fn, st, 'row/col roles of the nonzero-map update not resolved')
    if not n_map:
        out.unsure(fn, fn.node, 'nonzero-map construction not found')
    # (6) fallbacks in the bidirectional branch
    seen_dirs = {}
    for st in astx.walk_stmts(fn.node.body):
        if not (isinstance(st, ast.If) and isinstance(st.test, ast.Compare) and len(st.test.ops) == 1):
            continue
        l, r = st.test.left, st.test.comparators[0]
        if not all(isinstance(e, ast.Call) and astx.callee_attr(e) == 'total_solves' and
                   isinstance(astx.receiver(e), ast.Name) for e in (l, r)):
            continue
        at = cx.node(st)
        ln, rn = astx.receiver(l).id, astx.receiver(r).id
        # which side is the fallback?
        sides = {}
        for nm in (ln, rn):
            v, _ = cx.value(at, nm)
            if isinstance(v, ast.Call) and astx.call_name(v) == fn.name and len(v.args) >= 2 and \
                    astx.const_str(v.args[1]) in _FLIPD:
                sides[nm] = astx.const_str(v.args[1])
        if len(sides) != 1:
            out.unsure(fn, st, 'fallback comparison not recognised')
            continue
        fb = next(iter(sides))
        cur = rn if fb == ln else ln
        op = type(st.test.ops[0])
        # normalise to  cur <op> fb
        if fb == ln:
            op = {ast.Lt: ast.Gt, ast.LtE: ast.GtE, ast.Gt: ast.Lt, ast.GtE: ast.LtE}.get(op, op)
        takes = any(isinstance(s2, ast.Assign) and any(isinstance(t, ast.Name) and t.id == cur for t in s2.targets)
                    and isinstance(s2.value, ast.Name) and s2.value.id == fb for s2 in st.body)
        keeps = any(isinstance(s2, ast.Assign) and any(isinstance(t, ast.Name) and t.id == cur for t in s2.targets)
                    and isinstance(s2.value, ast.Name) and s2.value.id == fb for s2 in st.orelse)
        if keeps and not takes:
            op = {ast.Lt: ast.GtE, ast.LtE: ast.Gt, ast.Gt: ast.LtE, ast.GtE: ast.Lt}.get(op, op)
            takes = True
        seen_dirs[sides[fb]] = st
        if not takes:
            out.unsure(fn, st, 'fallback is compared but never taken')
        elif op in (ast.Gt, ast.GtE):
            out.ok(fn, st, f"falls back to the '{sides[fb]}' colouring when the bidirectional one needs more solves")
        elif op in (ast.Lt, ast.LtE):
            out.bad(fn, st, f"the '{sides[fb]}' colouring replaces the current one when it needs MORE solves: the "
                    'result can need more solves than the unidirectional colouring', key='compute-fallback')
        else:
            out.unsure(fn, st, 'comparison operator not recognised')
    for d in ('fwd', 'rev'):
        if d not in seen_dirs:
            out.bad(fn, fn.node, f"bidirectional colouring is not compared against the '{d}' colouring: it may need more "
                    f"solves than plain {d} mode", key='compute-fallback-' + d)


# =========================================================================== C03.partition
def _mask_cmp(e, opcls):
    """(array name, index name) for `A == k` / `k == A` (opcls Eq) or `!=`, else None."""
    if isinstance(e, ast.Compare) and len(e.ops) == 1 and isinstance(e.ops[0], opcls) and \
            isinstance(e.left, ast.Name) and isinstance(e.comparators[0], ast.Name):
        return e.left.id, e.comparators[0].id
    return None


@rule('C03.partition', floor=10)
def partition(repo, out):
    """MNCO_bidir: each step removes from M exactly the row/column it stores in Jf/Jr and retires it; both
    index arrays of M are filtered together; Jf is coloured as is and filed under _fwd, Jr transposed and
    filed under _rev; subtractions are computed from (Jf, Jr) exactly for bidirectional substitution colourings."""
    fn = repo.func(COL, 'MNCO_bidir')
    cx = Ctx(fn)
    body = fn.node.body
    jname = cx.params[0]
    loops = [st for st in body if isinstance(st, ast.While)]
    if len(loops) != 1:
        raise AnalysisError(f'{fn.ident}: partition loop not found')
    loop = loops[0]
    split = [st for st in loop.body if isinstance(st, ast.If) and st.orelse]
    if len(split) != 1:
        raise AnalysisError(f'{fn.ident}: row/column decision not found in the partition loop')
    split = split[0]
    roles, role = infer_roles(body)
    # sizes of the per-row / per-column stores:  X = [None] * nrows
    dims = {}
    for st in body:
        if isinstance(st, ast.Assign) and len(st.targets) == 1 and isinstance(st.targets[0], ast.Tuple) and \
                astx.path(st.value) == f'{jname}.shape' and len(st.targets[0].elts) == 2:
            a, b = st.targets[0].elts
            if isinstance(a, ast.Name) and isinstance(b, ast.Name):
                dims[a.id], dims[b.id] = 'row', 'col'
    store_role = {}
    for st in body:
        if isinstance(st, ast.Assign) and len(st.targets) == 1 and isinstance(st.targets[0], ast.Name) and \
                isinstance(st.value, ast.BinOp) and isinstance(st.value.op, ast.Mult) and \
                isinstance(st.value.left, ast.List) and isinstance(st.value.right, ast.Name) and \
                st.value.right.id in dims:
            store_role[st.targets[0].id] = dims[st.value.right.id]
    info = {}
    for label, stmts in (('A', split.body), ('B', split.orelse)):
        store = keep = None
        retire = []
        for st in stmts:
            if not isinstance(st, ast.Assign) or len(st.targets) != 1:
                continue
            t, v = st.targets[0], st.value
            if isinstance(t, ast.Subscript) and isinstance(t.value, ast.Name) and t.value.id in store_role and \
                    isinstance(v, ast.Subscript) and isinstance(v.value, ast.Name) and _mask_cmp(v.slice, ast.Eq):
                store = (st, t.value.id, astx.src(t.slice), v.value.id) + _mask_cmp(v.slice, ast.Eq)
            elif isinstance(t, ast.Name) and _mask_cmp(v, ast.NotEq):
                keep = (st, t.id) + _mask_cmp(v, ast.NotEq)
            elif isinstance(t, ast.Subscript) and isinstance(t.value, ast.Name) and isinstance(t.slice, ast.Name):
                retire.append((st, t.value.id, t.slice.id))
        if store is None or keep is None:
            out.unsure(fn, split, f'partition step ({"row" if label == "A" else "column"} branch): store/keep idiom not recognised')
            return
        info[label] = (store, keep, retire)
    keep_names = {info['A'][1][1], info['B'][1][1]}
    for label in ('A', 'B'):
        (st, P, pk, payload, marr, mk), (kst, kn, karr, kk), retire = info[label]
        # normalise `k == A` written either way round
        if marr not in roles and mk in roles:
            marr, mk = mk, marr
        if karr not in roles and kk in roles:
            karr, kk = kk, karr
        sr = store_role[P]
        problems = []
        if pk != mk:
            problems.append(f'{P}[{pk}] receives the entries selected by `{marr} == {mk}`')
        if (karr, kk) != (marr, mk):
            problems.append(f'`{astx.src(st.value)}` is stored but `{astx.src(kst.value)}` is what stays in M: entries are '
                            'lost or kept twice')
        if role(ast.Name(id=marr)) != sr:
            problems.append(f'{P} is indexed by {sr} but the entries are selected by the {role(ast.Name(id=marr))} '
                            f'index array {marr}')
        if role(ast.Name(id=payload)) == sr or payload == marr:
            problems.append(f'{P} stores {payload} (the {sr} indices themselves) instead of the other coordinate')
        if problems:
            out.bad(fn, st, '; '.join(problems), key=f'partition-step-{sr}')
        elif role(ast.Name(id=payload)) not in ('row', 'col'):
            out.unsure(fn, st, f'role of {payload} not resolved')
        else:
            out.ok(fn, st, f'{sr} step: stores {payload}[{marr} == {mk}] and keeps {karr} != {kk}')
        # retirement of the chosen row/column: cnt[k] = skip where k = cnt.argmin()
        at = cx.node(st)
        kv, _ = cx.value(at, mk)
        cnt = astx.receiver(kv).id if isinstance(kv, ast.Call) and astx.callee_attr(kv) == 'argmin' and \
            isinstance(astx.receiver(kv), ast.Name) else None
        if cnt is None:
            out.unsure(fn, st, f'{mk} is not chosen by argmin of a count array')
        elif any(a == cnt and k == mk for _, a, k in retire):
            out.ok(fn, [r for r in retire if r[1] == cnt][0][0], f'chosen {sr} is retired from {cnt}')
        else:
            out.bad(fn, st, f'the chosen {sr} {mk} is never retired from {cnt}: it can be chosen again and its stored '
                    'entries are overwritten by an empty selection', key=f'partition-retire-{sr}')
    # both index arrays filtered by keep after the decision
    marrs = {info['A'][0][4] if info['A'][0][4] in roles else info['A'][0][5],
             info['B'][0][4] if info['B'][0][4] in roles else info['B'][0][5]}
    filtered = set()
    idx = loop.body.index(split)
    for st in loop.body[idx + 1:]:
        if isinstance(st, ast.Assign) and len(st.targets) == 1 and isinstance(st.targets[0], ast.Name) and \
                isinstance(st.value, ast.Subscript) and isinstance(st.value.value, ast.Name) and \
                st.value.value.id == st.targets[0].id and isinstance(st.value.slice, ast.Name) and \
                st.value.slice.id in keep_names:
            filtered.add(st.targets[0].id)
    if len(marrs) == 2 and len(keep_names) == 1:
        if marrs <= filtered:
            out.ok(fn, split, f'{", ".join(sorted(marrs))} are both reduced by {next(iter(keep_names))} after every step')
        else:
            out.bad(fn, split, f'{", ".join(sorted(marrs - filtered))} is not reduced by the keep mask: row and column '
                    'index arrays of M go out of step', key='partition-filter')
    else:
        out.unsure(fn, split, 'index arrays / keep mask not identified uniquely')

    # ---- colouring calls
    def list_origin(name):
        """('full'|'payload', store) for index lists built in `for i, x in enumerate(store)` loops."""
        kinds = set()
        src = set()
        for st in astx.walk_stmts(body):
            if isinstance(st, ast.Expr) and isinstance(st.value, ast.Call) and astx.callee_attr(st.value) == 'append' \
                    and isinstance(astx.receiver(st.value), ast.Name) and astx.receiver(st.value).id == name:
                lp = astx.enclosing(st, (ast.For,))
                if lp is None or not (isinstance(lp.iter, ast.Call) and astx.call_name(lp.iter) == 'enumerate' and
                                      isinstance(lp.iter.args[0], ast.Name) and isinstance(lp.target, ast.Tuple)):
                    return None
                src.add(lp.iter.args[0].id)
                a = st.value.args[0]
                iv, xv = (e.id for e in lp.target.elts)
                if isinstance(a, ast.Name) and a.id == xv:
                    kinds.add('payload')
                elif isinstance(a, ast.Call) and astx.call_name(a) in ('np.full', 'numpy.full') and \
                        len(a.args) >= 2 and isinstance(a.args[1], ast.Name) and a.args[1].id == iv:
                    kinds.add('full')
                else:
                    return None
        if len(kinds) == 1 and len(src) == 1:
            return kinds.pop(), src.pop()
        return None

    calls = {}
    for st in astx.walk_stmts(body):
        if isinstance(st, ast.Assign) and len(st.targets) == 1 and isinstance(st.targets[0], ast.Attribute) and \
                st.targets[0].attr in ('_fwd', '_rev') and isinstance(st.value, ast.Call) and \
                astx.call_name(st.value) == '_color_partition':
            calls[st.targets[0].attr] = st
    for slot, want_role in (('_fwd', 'row'), ('_rev', 'col')):
        st = calls.get(slot)
        if st is None:
            out.bad(fn, fn.node, f'coloring.{slot} is never set from _color_partition', key='partition-call' + slot)
            continue
        c = st.value
        if len(c.args) < 3 or not all(isinstance(a, ast.Name) for a in c.args[1:3]):
            out.unsure(fn, st, 'arguments of _color_partition not recognised')
            continue
        m = c.args[0]
        transposed = (isinstance(m, ast.Attribute) and m.attr == 'T' and astx.path(m.value) == jname) or \
            (isinstance(m, ast.Call) and astx.call_name(m) == f'{jname}.transpose')
        plain = isinstance(m, ast.Name) and m.id == jname
        o1, o2 = list_origin(c.args[1].id), list_origin(c.args[2].id)
        if not (transposed or plain) or o1 is None or o2 is None:
            out.unsure(fn, st, 'matrix or index-list arguments of _color_partition not recognised')
            continue
        probs = []
        if transposed != (slot == '_rev'):
            probs.append('the matrix is ' + ('' if transposed else 'not ') + 'transposed')
        if (o1[0], o2[0]) != ('full', 'payload'):
            probs.append(f'index lists are passed as ({o1[0]}, {o2[0]}): row indices of the coloured matrix must be the '
                         'enumerated position, column indices the stored entries')
        for o in (o1, o2):
            if store_role.get(o[1]) != want_role:
                probs.append(f'index list comes from {o[1]} (per-{store_role.get(o[1])} store)')
        if probs:
            out.bad(fn, st, f'coloring.{slot}: ' + '; '.join(dict.fromkeys(probs)), key='partition-call' + slot)
        else:
            out.ok(fn, st, f'coloring.{slot} colours the per-{want_role} partition, '
                   + ('transposed' if transposed else 'untransposed'))
    # ---- sibling guards: "this partition is non-empty" is decided alike where it is built and where it is coloured
    counters = {}
    for label in ('A', 'B'):
        P = info[label][0][1]
        stmts = split.body if label == 'A' else split.orelse
        incs = [x.target.id for x in stmts if isinstance(x, ast.AugAssign) and isinstance(x.op, ast.Add) and
                isinstance(x.target, ast.Name) and isinstance(x.value, ast.Constant) and x.value.value == 1]
        if len(incs) == 1:
            counters[store_role[P]] = incs[0]

    class _Unk(Exception):
        pass

    def ev_guard(e, env):
        if isinstance(e, ast.BoolOp):
            vals = [ev_guard(v, env) for v in e.values]
            return all(vals) if isinstance(e.op, ast.And) else any(vals)
        if isinstance(e, ast.UnaryOp) and isinstance(e.op, ast.Not):
            return not ev_guard(e.operand, env)
        if isinstance(e, ast.Name) and e.id in env:
            return bool(env[e.id])
        if isinstance(e, ast.Compare) and len(e.ops) == 1:
            def num(x):
                if isinstance(x, ast.Name) and x.id in env:
                    return env[x.id]
                if isinstance(x, ast.Constant) and isinstance(x.value, int) and not isinstance(x.value, bool):
                    return x.value
                raise _Unk(x)
            a, b = num(e.left), num(e.comparators[0])
            ops = {ast.Gt: a > b, ast.GtE: a >= b, ast.Lt: a < b, ast.LtE: a <= b, ast.Eq: a == b, ast.NotEq: a != b}
            if type(e.ops[0]) in ops:
                return ops[type(e.ops[0])]
        raise _Unk(e)

    def guard_table(stmt):
        parts, _ = _guard_formula(stmt, cx)
        tab = {}
        for rv in (0, 1, 2):
            for cv in (0, 1, 2):
                env = {counters.get('row', '?row'): rv, counters.get('col', '?col'): cv}
                tab[(rv, cv)] = all(ev_guard(t, env) == pos for t, pos, _ in parts)
        return tab, parts

    for slot, want_role in (('_fwd', 'row'), ('_rev', 'col')):
        cst = calls.get(slot)
        if cst is None or want_role not in counters:
            if cst is not None:
                out.unsure(fn, cst, f'counter of the per-{want_role} partition not identified')
            continue
        cnt = counters[want_role]
        argn = [a.id for a in cst.value.args[1:3] if isinstance(a, ast.Name)]
        builds = [st for st in astx.walk_stmts(body) if isinstance(st, ast.Assign) and len(st.targets) == 1 and
                  isinstance(st.targets[0], ast.Name) and st.targets[0].id in argn and isinstance(st.value, ast.Call)
                  and astx.callee_attr(st.value) == 'hstack']
        if len(builds) != 2:
            out.unsure(fn, cst, f'build site of the index arrays {argn} not recognised')
            continue
        try:
            ctab, cparts = guard_table(cst)
            btabs = [guard_table(b)[0] for b in builds]
        except _Unk as u:
            out.unsure(fn, cst, f'guard atom `{astx.src(u.args[0])}` of the {slot} partition is not a test on its counter')
            continue
        out.count('sibling_guard_rows', 9 * 3)
        idx = 0 if want_role == 'row' else 1
        msg = None
        for key in sorted(ctab):
            v = key[idx]
            b = [t[key] for t in btabs]
            if b[0] != b[1]:
                msg = f'the two index arrays of the partition are built under different guards ({cnt}={v})'
            elif b[0] and not ctab[key]:
                msg = (f'with {cnt}={v} the per-{want_role} partition is built (non-empty) but not coloured: coloring.{slot} '
                       f'stays None and the entries of that partition are never solved (they come back as 0)')
            elif ctab[key] and not b[0]:
                msg = (f'with {cnt}={v} coloring.{slot} is computed from index lists that were not assembled '
                       '(build guard false)')
            elif v >= 1 and not b[0]:
                msg = (f'with {cnt}={v} the stored {want_role}s are neither assembled nor coloured: their entries are lost')
            elif v == 0 and b[0]:
                msg = f'with {cnt}=0 an empty partition is assembled and coloured'
            if msg:
                break
        if msg:
            out.bad(fn, cparts[-1][2] if cparts else cst, msg, key='partition-sibling-guard' + slot)
        else:
            out.ok(fn, cst, f'build and colour sites of the per-{want_role} partition are both guarded by {cnt} >= 1 '
                   '(9 counter valuations)')

    # ---- subtractions
    subs = [st for st in astx.walk_stmts(body) if isinstance(st, ast.Assign) and isinstance(st.value, ast.Call)
            and astx.callee_attr(st.value) == '_get_subtractions']
    if not subs:
        out.bad(fn, fn.node, 'subtractions are never computed: substitution colourings return sums of entries',
                key='partition-subtractions')
        return
    st = subs[0]
    at = cx.node(st)
    okargs = None
    if len(st.value.args) == 2 and all(isinstance(a, ast.Name) for a in st.value.args):
        kinds = []
        for a in st.value.args:
            v, _ = cx.value(at, a.id)
            k = None
            if isinstance(v, ast.Call) and astx.callee_attr(v) in ('coo_matrix', 'csr_matrix', 'csc_matrix') and v.args and \
                    isinstance(v.args[0], ast.Tuple) and len(v.args[0].elts) == 2 and \
                    isinstance(v.args[0].elts[1], ast.Tuple) and len(v.args[0].elts[1].elts) == 2 and \
                    all(isinstance(e, ast.Name) for e in v.args[0].elts[1].elts):
                oo = [list_origin(e.id) for e in v.args[0].elts[1].elts]
                if None not in oo:
                    k = (oo[0][0], oo[1][0], store_role.get(oo[0][1]), store_role.get(oo[1][1]))
            kinds.append(k)
        if None not in kinds:
            # the two matrices only pre-select candidate rows/columns (either partition is a valid pre-filter, so
            # their order is immaterial), but each must be in (row, col) coordinates of J
            valid = {('full', 'payload', 'row', 'row'), ('payload', 'full', 'col', 'col')}
            okargs = all(k in valid for k in kinds)
            if not okargs:
                out.bad(fn, st, f'_get_subtractions receives a partition matrix built from index lists {kinds}: a per-row '
                        'partition must be (row number, stored columns), a per-column partition (stored rows, column '
                        'number); otherwise the pattern is transposed', key='partition-subtractions')
    if okargs is None:
        out.unsure(fn, st, 'arguments of _get_subtractions not recognised')
    # guard
    parts, outer = _guard_formula(st, cx)

    def atom_of(e):
        if isinstance(e, ast.Name) and e.id == 'direct' and 'direct' in cx.params:
            return 'direct'
        if isinstance(e, ast.Compare) and len(e.ops) == 1 and isinstance(e.ops[0], ast.Gt) and \
                isinstance(e.comparators[0], ast.Constant) and e.comparators[0].value == 0:
            return 'pos:' + sdump(e.left)
        return 'free:' + sdump(e)
    fs = []
    for test, pos, _ in parts:
        f = boolx.from_ast(test, atom_of)
        fs.append(f if pos else boolx.Not(f))
    G = boolx.And(*fs) if fs else boolx.TRUE
    imp, n1, cex = boolx.implies(G, boolx.Not(boolx.A('direct')), extra_atoms=['direct'])
    allpos = [a for a in G.atoms() if a.startswith('pos:')]
    need = boolx.And(boolx.Not(boolx.A('direct')), *[boolx.A(a) for a in allpos])
    free = [a for a in G.atoms() if a.startswith('free:')]
    suff, n2, cex2 = boolx.implies(need, G, extra_atoms=['direct'])
    out.count('guard_rows', n1 + n2)
    if not imp:
        out.bad(fn, outer or st, 'subtractions are computed for direct colourings (' + boolx.fmt_val(cex) + '): '
                'directly determined entries get other entries subtracted', key='partition-subtractions-guard')
    elif free:
        out.unsure(fn, outer or st, 'guard of the subtraction computation contains conditions that are not analysed: '
                   + ', '.join(a[5:] for a in free)[:120])
    elif not suff:
        out.bad(fn, outer or st, 'a bidirectional substitution colouring skips the computation of its subtractions '
                '(' + boolx.fmt_val(cex2 or {}) + ')', key='partition-subtractions-guard')
    elif okargs:
        out.ok(fn, st, 'subtractions computed from (Jf, Jr) exactly when not direct and both partitions are non-empty')


# =========================================================================== C03.adjacency
def _mask_atom(e, mask, c1, c2):
    if isinstance(e, ast.Subscript) and isinstance(e.value, ast.Name) and e.value.id == mask and \
            isinstance(e.slice, ast.Name) and e.slice.id in (c1, c2):
        return 'in1' if e.slice.id == c1 else 'in2'
    return None


def _pair_actions(stmts, val, mask, c1, c2, acts):
    """Interpret an if-tree over membership atoms; collect ('adj', a, b) / ('overlap',) actions."""
    def atom_of(e):
        return _mask_atom(e, mask, c1, c2)
    pend = {}
    for st in stmts:
        if isinstance(st, ast.If):
            f = boolx.from_ast(st.test, atom_of)
            _pair_actions(st.body if f.ev(val) else st.orelse, val, mask, c1, c2, acts)
        elif isinstance(st, ast.Expr) and isinstance(st.value, ast.Call) and \
                astx.callee_attr(st.value) in ('append', 'add') and isinstance(astx.receiver(st.value), ast.Name):
            r = astx.receiver(st.value).id
            a = st.value.args[0] if st.value.args else None
            if astx.callee_attr(st.value) == 'add':
                acts.append(('overlap', r, astx.src(a)))
            elif isinstance(a, ast.Name) and a.id in (c1, c2):
                pend[r] = a.id
            else:
                raise AnalysisError('unrecognised append in pair loop: ' + astx.src(st))
        elif isinstance(st, (ast.Pass, ast.Continue)):
            continue
        else:
            raise AnalysisError('unrecognised statement in pair loop: ' + astx.src(st))
    if pend:
        acts.append(('adj', tuple(sorted(pend.values()))))


def _adjacency_common(fn, cx, out, substitution):
    """Shared checks of the two partition adjacency builders.  Returns number of ok instances."""
    jname = cx.params[0]
    outer = [st for st in fn.node.body if isinstance(st, ast.For)]
    if len(outer) != 1 or not isinstance(outer[0].target, ast.Name):
        raise AnalysisError(f'{fn.ident}: per-row loop not found')
    outer = outer[0]
    rowv = outer.target.id
    pair = [st for st in astx.walk_stmts(outer.body) if isinstance(st, ast.For) and isinstance(st.iter, ast.Call)
            and astx.call_name(st.iter) == 'combinations']
    if len(pair) != 1 or not (isinstance(pair[0].target, ast.Tuple) and len(pair[0].target.elts) == 2):
        raise AnalysisError(f'{fn.ident}: pair loop over combinations(...) not found')
    pair = pair[0]
    c1, c2 = (e.id for e in pair.target.elts)
    # mask name = the array subscripted by c1/c2 in the pair loop
    masks = {n.value.id for n in walk_body(pair.body) if isinstance(n, ast.Subscript) and isinstance(n.value, ast.Name)
             and isinstance(n.slice, ast.Name) and n.slice.id in (c1, c2) and isinstance(n.ctx, ast.Load)}
    if len(masks) != 1:
        out.unsure(fn, pair, 'membership mask not identified')
        return
    mask = masks.pop()
    # (a) the pairs range over the row of the FULL matrix
    it = pair.iter.args[0]
    at = cx.node(pair)
    if isinstance(it, ast.Name):
        v, _ = cx.value(at, it.id)
        it = v if v is not None else it
    full_ok = isinstance(it, ast.Attribute) and it.attr == 'indices' and isinstance(it.value, ast.Call) and \
        astx.callee_attr(it.value) == 'getrow' and isinstance(astx.receiver(it.value), ast.Name)
    if not full_ok:
        out.unsure(fn, pair, 'row over which column pairs are formed not recognised')
    else:
        recv = astx.receiver(it.value).id
        a0 = it.value.args[0] if it.value.args else None
        if recv == jname and cx.is_param(jname, at) and isinstance(a0, ast.Name) and a0.id == rowv:
            out.ok(fn, pair, f'column pairs are formed over row {rowv} of the full matrix {jname}')
        elif recv != jname:
            out.bad(fn, pair, f'column pairs are formed over `{astx.src(it)}` (the partition), not over the row of the full '
                    f'matrix {jname}: dependence on entries that belong to the other partition is ignored',
                    key='adjacency-full-row')
        else:
            out.unsure(fn, pair, 'row argument not recognised')
    # (b) mask set before / reset after the pair loop with the same index
    g = cx.g
    hdr = cx.node(outer)

    def mask_store(n, val):
        if n.kind != 'stmt' or not isinstance(n.ast, ast.Assign) or len(n.ast.targets) != 1:
            return False
        t = n.ast.targets[0]
        return isinstance(t, ast.Subscript) and isinstance(t.value, ast.Name) and t.value.id == mask and \
            isinstance(n.ast.value, ast.Constant) and n.ast.value.value is val
    body = set(g.body_nodes(outer))
    sets = [n for n in g.where(lambda n: mask_store(n, True)) if n in body]
    resets = [n for n in g.where(lambda n: mask_store(n, False)) if n in body]
    pn = cx.node(pair)
    if not sets:
        out.unsure(fn, pair, f'{mask} is never set inside the row loop')
    else:
        s = sets[0]
        if g.dominated_by(pn, sets, labels=cfgm.noexc) is not None:
            out.bad(fn, s.ast, f'{mask} is not set on every path to the pair loop', key='adjacency-mask')
        else:
            w = g.path(g.normal_succ(s), [hdr], avoid=resets, labels=cfgm.noexc)
            same_idx = bool(resets) and all(ssame(r.ast.targets[0].slice, s.ast.targets[0].slice) for r in resets)
            early = [r for r in resets if pn in g.reach(g.normal_succ(r), avoid=[hdr], labels=cfgm.noexc)]
            if w is not None:
                # a stale mark only turns an overlap pair into a direct dependency (confirmed at run time: exhaustive
                # up to 4x4 and 6000 random patterns reconstruct exactly); more colours, never a wrong entry
                out.unsure(fn, s.ast, f'{mask} stays set after the row is processed: conservative (extra dependencies, more '
                           'colours) but not the analysed adjacency')
            elif not same_idx:
                out.unsure(fn, resets[0].ast, f'{mask} is reset at a different index than it was set (conservative, not the '
                           'analysed adjacency)')
            elif early:
                out.bad(fn, early[0].ast, f'{mask} is reset before the pair loop runs', key='adjacency-mask')
            else:
                idx = s.ast.targets[0].slice
                iv = None
                if isinstance(idx, ast.Name):
                    iv, _ = cx.value(s, idx.id)
                part_ok = isinstance(iv, ast.Attribute) and iv.attr == 'indices' and isinstance(iv.value, ast.Call) and \
                    astx.callee_attr(iv.value) == 'getrow' and isinstance(astx.receiver(iv.value), ast.Name) and \
                    astx.receiver(iv.value).id != jname
                if part_ok:
                    out.ok(fn, s.ast, f'{mask} marks the partition entries of the row and is cleared before the next row')
                elif isinstance(iv, ast.Attribute) and isinstance(iv.value, ast.Call) and \
                        isinstance(astx.receiver(iv.value), ast.Name) and astx.receiver(iv.value).id == jname:
                    out.unsure(fn, s.ast, f'{mask} marks the entries of the full row, not those of the partition: every pair '
                               'counts as dependent (conservative, but not the analysed adjacency)')
                else:
                    out.unsure(fn, s.ast, 'index used to mark partition membership not recognised')
    # (c) decision table over (c1 in partition, c2 in partition)
    want = {}
    for v1 in (False, True):
        for v2 in (False, True):
            acts = []
            try:
                _pair_actions(pair.body, {'in1': v1, 'in2': v2}, mask, c1, c2, acts)
            except AnalysisError as e:
                out.unsure(fn, pair, str(e))
                return
            want[(v1, v2)] = acts
    out.count('pair_rows', 4)
    adj = {k: any(a[0] == 'adj' for a in v) for k, v in want.items()}
    ovl = {k: any(a[0] == 'overlap' for a in v) for k, v in want.items()}
    wrong_pair = [k for k, v in want.items() for a in v if a[0] == 'adj' and a[1] != tuple(sorted((c1, c2)))]
    if wrong_pair:
        out.bad(fn, pair, f'adjacency entry does not join {c1} with {c2}', key='adjacency-table')
    elif not substitution:
        exp = {(False, False): False, (False, True): True, (True, False): True, (True, True): True}
        if adj == exp:
            out.ok(fn, pair, 'direct method: two columns of a row are dependent when either entry is in the partition')
        else:
            k = [k for k in exp if adj[k] != exp[k]][0]
            out.bad(fn, pair, f'direct method: pair with ({c1} in partition={k[0]}, {c2} in partition={k[1]}) is '
                    f'{"" if adj[k] else "not "}recorded as dependent; direct determination needs every column sharing a row '
                    'with a partition entry to be in a different group', key='adjacency-table')
    else:
        exp_adj = {(False, False): False, (False, True): False, (True, False): False, (True, True): True}
        exp_ovl = {(False, False): False, (False, True): True, (True, False): True, (True, True): False}
        if adj != exp_adj:
            ks = [k for k in exp_adj if adj[k] != exp_adj[k]]
            k = ([k for k in ks if exp_adj[k]] or ks)[0]
            if exp_adj[k]:
                out.bad(fn, pair, 'substitution method: two partition entries in one row are not recorded as dependent',
                        key='adjacency-table')
            else:
                out.unsure(fn, pair, f'substitution method: extra dependency for {k} (safe but unexpected)')
        elif any(exp_ovl[k] and not ovl[k] for k in exp_ovl):
            k = [k for k in exp_ovl if exp_ovl[k] and not ovl[k]][0]
            out.bad(fn, pair, f'substitution method: a row that mixes a partition entry with a foreign one ({c1} in '
                    f'partition={k[0]}, {c2} in partition={k[1]}) is not recorded as overlap; with an empty overlap set no '
                    'subtractions are generated', key='adjacency-table')
        else:
            out.ok(fn, pair, 'substitution method: both-in-partition -> dependent, exactly-one -> overlap')
    # (d) symmetric duplication of the collected pairs
    sym = {}
    for st in astx.walk_stmts(fn.node.body):
        if isinstance(st, ast.Assign) and len(st.targets) == 1 and isinstance(st.targets[0], ast.Name) and \
                isinstance(st.value, ast.Call) and astx.callee_attr(st.value) == 'hstack' and st.value.args and \
                isinstance(st.value.args[0], ast.BinOp) and isinstance(st.value.args[0].op, ast.Add) and \
                isinstance(st.value.args[0].left, ast.Name) and isinstance(st.value.args[0].right, ast.Name):
            sym[st.targets[0].id] = (st, st.value.args[0].left.id, st.value.args[0].right.id)
    if len(sym) == 2:
        (s1, a1, b1), (s2, a2, b2) = sym.values()
        if (a1, b1) == (b2, a2) and a1 != b1:
            out.ok(fn, s1, f'adjacency is stored symmetrically ({a1}+{b1} / {b1}+{a1})')
        else:
            out.bad(fn, s2, f'row and column index lists are built as {a1}+{b1} and {a2}+{b2}: the adjacency matrix is not '
                    'symmetric, so a column does not see all of its neighbours', key='adjacency-symmetric')
    else:
        out.unsure(fn, fn.node, 'symmetric duplication (np.hstack(a + b) / np.hstack(b + a)) not recognised')
    # (e) a row with a single partition entry still registers its column
    main_if = [a for a in astx.ancestors(pair) if isinstance(a, ast.If) and a in outer.body]
    single = []
    diag_recv = set()
    if main_if:
        for st2 in astx.walk_stmts(main_if[0].orelse):
            if isinstance(st2, ast.Expr) and isinstance(st2.value, ast.Call) and astx.callee_attr(st2.value) == 'append' \
                    and st2.value.args and isinstance(st2.value.args[0], ast.Subscript) and \
                    isinstance(astx.receiver(st2.value), ast.Name):
                diag_recv.add(astx.receiver(st2.value).id)
                single.append(st2)
    diag = len(diag_recv)
    if diag >= 2:
        out.ok(fn, single[0], 'a row with a single entry registers its column on the diagonal (the column gets coloured)')
    else:
        out.bad(fn, outer, 'rows with a single (partition) entry no longer register their column: a column that only '
                'occurs in such rows is never yielded by _order_by_ID and therefore never solved', key='adjacency-single')


@rule('C03.adjacency', floor=11)
def adjacency(repo, out):
    """Partition column-adjacency builders: pair table (direct: either, substitution: both / overlap), pairs
    over the full row, scratch mask restored, symmetric storage, single-entry rows registered; full
    (unidirectional) adjacency joins every two columns of a row."""
    for qn, subst in (('_Jc2col_matrix_direct', False), ('_Jc2col_matrix_substitution', True)):
        fn = repo.func(COL, qn)
        _adjacency_common(fn, Ctx(fn), out, subst)
    fn = repo.func(COL, '_2col_adj_rows_cols')
    inner = [st for st in astx.walk_stmts(fn.node.body) if isinstance(st, ast.For) and isinstance(st.target, ast.Name)
             and isinstance(st.iter, ast.Name) and astx.enclosing(st, (ast.For,)) is not None]
    if len(inner) != 1:
        out.unsure(fn, fn.node, 'per-row clique loop not found')
        return
    lp = inner[0]
    row_list, c = lp.iter.id, lp.target.id
    whole = full = None
    for st in lp.body:
        if isinstance(st, ast.Expr) and isinstance(st.value, ast.Call) and astx.callee_attr(st.value) == 'append':
            a = st.value.args[0]
            if isinstance(a, ast.Name) and a.id == row_list:
                whole = st
            elif isinstance(a, ast.Call) and astx.call_name(a) in ('np.full', 'numpy.full') and len(a.args) >= 2:
                full = (st, a)
    if whole is None or full is None:
        out.unsure(fn, lp, 'clique construction (append(row) / append(np.full(size, c))) not recognised')
        return
    st, a = full
    size_ok = astx.path(a.args[0]) == f'{row_list}.size' or \
        (isinstance(a.args[0], ast.Call) and astx.call_name(a.args[0]) == 'len' and astx.path(a.args[0].args[0]) == row_list)
    if isinstance(a.args[1], ast.Name) and a.args[1].id == c and size_ok:
        out.ok(fn, lp, f'every column {c} of a row is joined with all columns of that row')
    elif isinstance(a.args[1], ast.Name) and a.args[1].id != c:
        out.bad(fn, st, f'columns of the row are joined with `{a.args[1].id}` instead of the column {c} being visited',
                key='adjacency-full')
    else:
        out.unsure(fn, st, 'np.full arguments not recognised')


# =========================================================================== C03.subtract
def _signed(e, var):
    """('+'|'-', k) for `var + k` / `-(var + k)` / `var` (k = 0), else None."""
    if isinstance(e, ast.UnaryOp) and isinstance(e.op, ast.USub):
        r = _signed(e.operand, var)
        return None if r is None else ('-' if r[0] == '+' else '+', r[1])
    if isinstance(e, ast.Name) and e.id == var:
        return ('+', 0)
    if isinstance(e, ast.BinOp) and isinstance(e.op, ast.Add):
        a, b = e.left, e.right
        if isinstance(a, ast.Constant):
            a, b = b, a
        if isinstance(a, ast.Name) and a.id == var and isinstance(b, ast.Constant) and isinstance(b.value, int):
            return ('+', b.value)
    return None


def _dir_of_block(stmts):
    t = slot_tokens(stmts)
    f = any(x.startswith('_fwd') for x in t)
    r = any(x.startswith('_rev') for x in t)
    return 'fwd' if f and not r else 'rev' if r and not f else None


@rule('C03.subtract', floor=13)
def subtract(repo, out):
    """Substitution subtractions: one sign convention between the colour map and its reader, (row, col) keyed
    positions, dependencies subtracted before dependants, applied as J[pos] -= sum(J[k])."""
    # ---- (1) application
    fn = repo.func(COL, 'Coloring._apply_subtractions')
    cx = Ctx(fn)
    jp = cx.params[1] if len(cx.params) > 1 else None
    loops = [st for st in fn.node.body if isinstance(st, ast.For)]
    def _entry_names(lp):
        """(position name, subtrahend name or '<entry>[1]' marker) for `for pos, subs in` / `for e in: pos = e[0] ...`"""
        if isinstance(lp.target, ast.Tuple) and len(lp.target.elts) == 2 and all(isinstance(e, ast.Name) for e in lp.target.elts):
            return lp.target.elts[0].id, lp.target.elts[1].id
        if isinstance(lp.target, ast.Name):
            en = lp.target.id
            got = {}
            for x in lp.body:
                if isinstance(x, ast.Assign) and len(x.targets) == 1 and isinstance(x.targets[0], ast.Name) and \
                        isinstance(x.value, ast.Subscript) and isinstance(x.value.value, ast.Name) and \
                        x.value.value.id == en and isinstance(x.value.slice, ast.Constant) and x.value.slice.value in (0, 1):
                    got[x.value.slice.value] = x.targets[0].id
            if 0 in got:
                return got[0], got.get(1, f'{en}[1]')
        return None
    names_ = _entry_names(loops[0]) if len(loops) == 1 else None
    if names_ is None:
        out.unsure(fn, fn.node, 'loop over (position, subtrahends) not recognised')
    else:
        lp = loops[0]
        pv, sv = names_
        it = lp.iter
        if astx.path(it) == 'self._subtractions':
            out.ok(fn, lp, 'subtractions are applied in their stored (dependency) order')
        elif (isinstance(it, ast.Call) and astx.call_name(it) == 'reversed') or \
                (isinstance(it, ast.Subscript) and isinstance(it.slice, ast.Slice)):
            out.bad(fn, lp, 'subtractions are applied in reverse of their stored order: a position is corrected with '
                    'subtrahends that are themselves not yet corrected', key='subtract-apply-order')
        else:
            out.unsure(fn, lp, 'iteration order over self._subtractions not recognised')
        upd = [st for st in astx.walk_stmts(lp.body) if isinstance(st, (ast.AugAssign, ast.Assign)) and
               any(isinstance(t, ast.Subscript) and isinstance(t.value, ast.Name) and t.value.id == jp
                   for t in astx.assigned_targets(st))]
        if len(upd) != 1:
            out.unsure(fn, lp, f'{len(upd)} updates of the jacobian in the loop')
        else:
            st = upd[0]
            t = astx.assigned_targets(st)[0]
            at = cx.node(st)
            val = st.value
            if isinstance(val, ast.Name):
                v, _ = cx.value(at, val.id)
                val = v if v is not None else val
            inner_loop = astx.enclosing(st, (ast.For,))
            summed = None
            if isinstance(val, ast.Call) and astx.call_name(val) in ('sum', 'np.sum') and val.args and \
                    isinstance(val.args[0], (ast.GeneratorExp, ast.ListComp)) and len(val.args[0].generators) == 1:
                ge = val.args[0]
                gen = ge.generators[0]
                summed = (ge.elt, gen.target, gen.iter)
            elif inner_loop is not lp and inner_loop is not None:
                summed = (val, inner_loop.target, inner_loop.iter)
            elif isinstance(val, ast.Name):
                # acc = 0 ; for k in subs: acc = acc + J[k]  (or acc += J[k]) ; J[pos] -= acc
                acc = val.id
                inits = [x for x in lp.body if isinstance(x, ast.Assign) and len(x.targets) == 1 and
                         isinstance(x.targets[0], ast.Name) and x.targets[0].id == acc]
                accl = [x for x in lp.body if isinstance(x, ast.For) and len(x.body) == 1 and not x.orelse]
                if len(inits) == 1 and isinstance(inits[0].value, ast.Constant) and inits[0].value.value == 0 and \
                        len(accl) == 1 and lp.body.index(inits[0]) < lp.body.index(accl[0]) < lp.body.index(st):
                    a = accl[0].body[0]
                    term = None
                    if isinstance(a, ast.AugAssign) and isinstance(a.op, ast.Add) and \
                            isinstance(a.target, ast.Name) and a.target.id == acc:
                        term = a.value
                    elif isinstance(a, ast.Assign) and len(a.targets) == 1 and isinstance(a.targets[0], ast.Name) and \
                            a.targets[0].id == acc and isinstance(a.value, ast.BinOp) and isinstance(a.value.op, ast.Add):
                        l, r = a.value.left, a.value.right
                        if isinstance(l, ast.Name) and l.id == acc:
                            term = r
                        elif isinstance(r, ast.Name) and r.id == acc:
                            term = l
                    others = [x for x in lp.body if x not in (inits[0], accl[0], st)]
                    if term is not None and not any(acc in {getattr(t2, 'id', None) for t2 in astx.assigned_targets(x)}
                                                    for x in astx.walk_stmts(others)):
                        summed = (term, accl[0].target, accl[0].iter)
            if not (isinstance(t.slice, ast.Name) and t.slice.id == pv):
                out.bad(fn, st, f'the update writes `{astx.src(t)}`, not the position {pv} of the current subtraction',
                        key='subtract-apply')
            elif not isinstance(st, ast.AugAssign) or not isinstance(st.op, ast.Sub):
                opn = type(st.op).__name__ if isinstance(st, ast.AugAssign) else 'plain assignment'
                out.bad(fn, st, f'subtrahends are combined with {opn} instead of being subtracted from J[{pv}]',
                        key='subtract-apply')
            elif summed is None:
                out.unsure(fn, st, 'subtrahend expression not recognised')
            else:
                elt, tgt, iter_ = summed
                iter_is_sv = (isinstance(iter_, ast.Name) and iter_.id == sv) or \
                    (isinstance(iter_, ast.Subscript) and astx.src(iter_) == sv)
                good = isinstance(elt, ast.Subscript) and isinstance(elt.value, ast.Name) and elt.value.id == jp and \
                    isinstance(tgt, ast.Name) and isinstance(elt.slice, ast.Name) and elt.slice.id == tgt.id and \
                    iter_is_sv
                if good:
                    out.ok(fn, st, f'{jp}[{pv}] -= sum({jp}[k] for k in {sv})')
                elif isinstance(iter_, ast.Name) and iter_.id != sv:
                    out.bad(fn, st, f'subtrahends are taken from `{iter_.id}`, not from the list {sv} of this position',
                            key='subtract-apply')
                else:
                    out.unsure(fn, st, 'subtrahend expression not recognised')

    # ---- (2) ordering
    fn = repo.func(COL, '_sort_subtractions')
    dparam = fn.node.args.args[0].arg
    edge = [c for c in astx.calls(fn.node) if astx.callee_attr(c) == 'add_edge']
    topo = [c for c in astx.calls(fn.node) if astx.callee_attr(c) == 'topological_sort']
    if len(edge) != 1 or len(topo) != 1 or len(edge[0].args) != 2:
        out.unsure(fn, fn.node, 'dependency graph construction (add_edge / topological_sort) not recognised')
    else:
        e = edge[0]
        lp_in = astx.enclosing(e, (ast.For,))
        lp_out = astx.enclosing(lp_in, (ast.For,)) if lp_in is not None else None
        orient = None
        if lp_out is not None and isinstance(lp_out.target, ast.Tuple) and len(lp_out.target.elts) == 2 and \
                isinstance(lp_out.iter, ast.Call) and astx.call_name(lp_out.iter) == f'{dparam}.items' and \
                isinstance(lp_in.target, ast.Name) and isinstance(lp_in.iter, ast.Name) and \
                lp_in.iter.id == lp_out.target.elts[1].id:
            P, x = lp_out.target.elts[0].id, lp_in.target.id
            a, b = (astx.path(z) for z in e.args)
            if (a, b) == (P, x):
                orient = 'pos->sub'
            elif (a, b) == (x, P):
                orient = 'sub->pos'
        rev = 0
        for n in astx.walk(fn.node):
            if isinstance(n, ast.Subscript) and isinstance(n.slice, ast.Slice) and n.slice.lower is None and \
                    n.slice.upper is None and isinstance(n.slice.step, ast.UnaryOp) and \
                    isinstance(n.slice.step.op, ast.USub) and isinstance(n.slice.step.operand, ast.Constant) and \
                    n.slice.step.operand.value == 1:
                rev += 1
            elif isinstance(n, ast.Subscript) and isinstance(n.slice, ast.Slice) and \
                    isinstance(n.slice.step, ast.Constant) and n.slice.step.value == -1:
                rev += 1
            elif isinstance(n, ast.Call) and astx.call_name(n) == 'reversed':
                rev += 1
            elif isinstance(n, ast.Call) and astx.callee_attr(n) == 'reverse' and not n.args:
                rev += 1
            elif isinstance(n, ast.Call) and astx.callee_attr(n) == 'insert' and n.args and \
                    isinstance(n.args[0], ast.Constant) and n.args[0].value == 0:
                rev += 1
        if orient is None:
            out.unsure(fn, e, 'edge orientation not recognised')
        else:
            # topological order lists edge sources first; subtrahends must come first in the result
            subs_first = (orient == 'sub->pos') != (rev % 2 == 1)
            if subs_first:
                out.ok(fn, e, f'edges {orient}, {rev} reversal(s): every subtrahend position is corrected before the '
                       'position that subtracts it')
            else:
                out.bad(fn, e, f'edges {orient} with {rev} reversal(s) of the topological order: a position is corrected '
                        'BEFORE the positions it subtracts, which are then still sums of several entries',
                        key='subtract-order')
        # items are (pos, subtrahends)
        app = [c for c in astx.calls(fn.node) if astx.callee_attr(c) in ('append', 'insert') and c.args and
               isinstance(c.args[-1], ast.Tuple) and len(c.args[-1].elts) == 2]
        if len(app) == 1:
            k, v = app[0].args[-1].elts
            if isinstance(v, ast.Subscript) and astx.path(v.value) == dparam and ssame(v.slice, k):
                out.ok(fn, astx.stmt_of(app[0]), 'stored items are (position, subtrahends of that position)')
            elif isinstance(k, ast.Subscript) and astx.path(k.value) == dparam:
                out.bad(fn, astx.stmt_of(app[0]), 'stored items are (subtrahends, position): the consumer unpacks '
                        '(position, subtrahends)', key='subtract-item')
            else:
                out.unsure(fn, astx.stmt_of(app[0]), 'stored item not recognised')
        else:
            out.unsure(fn, fn.node, 'construction of the sorted list not recognised')

    # ---- (3) sign convention: writer
    wfn = repo.func(COL, 'Coloring._get_sparse_coloring')
    enc = {}
    coo = [c for c in astx.calls(wfn.node) if astx.callee_attr(c) in ('coo_matrix', 'csr_matrix', 'csc_matrix')]
    rows_l = cols_l = None
    if len(coo) == 1 and coo[0].args and isinstance(coo[0].args[0], ast.Tuple) and len(coo[0].args[0].elts) == 2 and \
            isinstance(coo[0].args[0].elts[1], ast.Tuple) and len(coo[0].args[0].elts[1].elts) == 2:
        rows_l, cols_l = (astx.path(e) for e in coo[0].args[0].elts[1].elts)
    for st in wfn.node.body:
        if not isinstance(st, ast.If):
            continue
        d = _dir_of_block([st])
        if d is None:
            continue
        for lp in [s for s in astx.walk_stmts(st.body) if isinstance(s, ast.For) and isinstance(s.iter, ast.Call)
                   and astx.call_name(s.iter) == 'enumerate' and isinstance(s.target, ast.Tuple)]:
            cvar = lp.target.elts[0].id
            for s2 in lp.body:
                if isinstance(s2, ast.Assign) and len(s2.targets) == 1 and isinstance(s2.targets[0], ast.Name) and \
                        astx.mentions(s2.value, cvar):
                    sg = _signed(s2.value, cvar)
                    if sg is None:
                        out.unsure(wfn, s2, 'colour code expression not recognised')
                    else:
                        enc[d] = (sg, s2)
            # layout: the list receiving np.full(.., member) is the column list for fwd, the row list for rev
            for inner in [s for s in lp.body if isinstance(s, ast.For) and isinstance(s.target, ast.Name)]:
                mem = inner.target.id
                for s3 in inner.body:
                    if isinstance(s3, ast.Expr) and isinstance(s3.value, ast.Call) and astx.callee_attr(s3.value) == 'append' \
                            and isinstance(s3.value.args[0], ast.Call) and \
                            astx.call_name(s3.value.args[0]) in ('np.full', 'numpy.full') and \
                            len(s3.value.args[0].args) >= 2 and isinstance(s3.value.args[0].args[1], ast.Name) and \
                            s3.value.args[0].args[1].id == mem:
                        recv = astx.path(astx.receiver(s3.value))
                        want = cols_l if d == 'fwd' else rows_l
                        if rows_l is None or recv not in (rows_l, cols_l):
                            continue
                        if recv == want:
                            out.ok(wfn, s3, f"{d} colours: the {'column' if d == 'fwd' else 'row'} number {mem} fills "
                                   f"{recv}, its nonzero map the other coordinate")
                        else:
                            out.bad(wfn, s3, f"{d} colours: the {'column' if d == 'fwd' else 'row'} number {mem} is "
                                    f"stored as a {'row' if d == 'fwd' else 'column'} coordinate: the colour map is "
                                    'transposed for this direction', key='subtract-map-layout')
    if set(enc) != {'fwd', 'rev'}:
        out.unsure(wfn, wfn.node, 'colour codes of the fwd and rev blocks not both recognised')
        return
    (sf, kf), stf = enc['fwd']
    (sr, kr), str_ = enc['rev']
    if sf == sr:
        out.bad(wfn, str_, 'fwd and rev colours are coded with the same sign: the reader cannot tell fwd-coloured from '
                'rev-coloured entries', key='subtract-sign')
        return
    if kf < 1 or kr < 1:
        out.bad(wfn, stf if kf < 1 else str_, 'colour 0 is coded as 0, which a sign test cannot see', key='subtract-sign')
        return
    out.ok(wfn, stf, f'fwd colour c is coded {sf}(c+{kf}), rev colour c {sr}(c+{kr})')

    # ---- (3b) sign convention: reader, and (4) (row, col) positions
    rfn = repo.func(COL, 'Coloring._get_subtractions')
    prod = {}   # name of the pre-filter product -> direction of the colours it is grouped by (V: fwd, W: rev)
    for st in rfn.node.body:
        if isinstance(st, ast.Assign) and len(st.targets) == 1 and isinstance(st.targets[0], ast.Name):
            hv = any(astx.callee_attr(c) == '_getV' for c in astx.calls(st.value))
            hw = any(astx.callee_attr(c) == '_getW' for c in astx.calls(st.value))
            if hv != hw:
                prod[st.targets[0].id] = 'fwd' if hv else 'rev'

    def blk_dir(b):
        ds = {prod[n] for n in astx.names(b.test) if n in prod}
        return ds.pop() if len(ds) == 1 else None
    blocks = [st for st in rfn.node.body if isinstance(st, ast.If) and blk_dir(st) is not None
              and any(isinstance(s, ast.For) for s in astx.walk_stmts(st.body))]
    dirs = [blk_dir(b) for b in blocks]
    if sorted(dirs) != ['fwd', 'rev']:
        out.unsure(rfn, rfn.node, f'fwd/rev blocks of the reader not recognised ({dirs})')
        return
    for blk, d in zip(blocks, dirs):
        od = _FLIPD[d]
        loops_ = [s for s in astx.walk_stmts(blk.body) if isinstance(s, ast.For) and isinstance(s.iter, ast.Call)
                  and astx.call_name(s.iter) == 'range' and isinstance(s.target, ast.Name)]
        if len(loops_) != 1:
            out.unsure(rfn, blk, 'loop over colours not recognised')
            continue
        cvar = loops_[0].target.id
        eqs, sgn = [], []
        temps = {}    # temporaries of the block that hold an expression of the colour number (marker = color + 1)
        for s2 in astx.walk_stmts(blk.body):
            if isinstance(s2, ast.Assign) and len(s2.targets) == 1 and isinstance(s2.targets[0], ast.Name) and \
                    astx.mentions(s2.value, cvar) and _signed(s2.value, cvar) is not None:
                temps.setdefault(s2.targets[0].id, []).append(s2.value)
        for n in walk_body(blk.body):
            if isinstance(n, ast.Compare) and len(n.ops) == 1:
                l, r = n.left, n.comparators[0]
                if isinstance(n.ops[0], ast.Eq) and isinstance(l, ast.Name) and l.id in temps and not isinstance(r, ast.Constant):
                    l, r = r, l
                if isinstance(r, ast.Name) and r.id in temps and len(temps[r.id]) == 1:
                    r = temps[r.id][0]
                if isinstance(n.ops[0], ast.Eq) and astx.mentions(r, cvar) and isinstance(l, ast.Name):
                    eqs.append((n, _signed(r, cvar)))
                elif isinstance(n.ops[0], (ast.Lt, ast.Gt)) and isinstance(r, ast.Constant) and r.value == 0 and \
                        isinstance(l, ast.Name):
                    sgn.append((n, '-' if isinstance(n.ops[0], ast.Lt) else '+'))
                elif isinstance(n.ops[0], (ast.Lt, ast.Gt)) and isinstance(l, ast.Constant) and l.value == 0 and \
                        isinstance(r, ast.Name):
                    sgn.append((n, '+' if isinstance(n.ops[0], ast.Lt) else '-'))
        if len(eqs) != 1 or len(sgn) != 1 or eqs[0][1] is None:
            out.unsure(rfn, blk, f'colour-code tests of the {d} block not recognised')
            continue
        (eqn, got), (sn, gs) = eqs[0], sgn[0]
        want = enc[d][0]
        if got != want:
            out.bad(rfn, astx.stmt_of(eqn), f'{d} block looks for entries coded {got[0]}(c+{got[1]}) but '
                    f'_get_sparse_coloring codes {d} colour c as {want[0]}(c+{want[1]})', key=f'subtract-sign-{d}')
        elif gs != enc[od][0][0]:
            out.bad(rfn, astx.stmt_of(sn), f'{d} block collects subtrahends with `{astx.src(sn)}` but {od}-coloured entries '
                    f'are coded with sign {enc[od][0][0]}: entries of the same direction are subtracted from each other',
                    key=f'subtract-sign-{d}')
        else:
            out.ok(rfn, astx.stmt_of(eqn), f'{d} block: subtract-from entries == {want[0]}(c+{want[1]}), subtrahends are the '
                   f'{od}-coloured ({gs}) entries')
        # subtrahends are restricted to the members of the colour being corrected
        memb = None
        comp_memb = None
        for lc in [n for n in walk_body(blk.body) if isinstance(n, ast.ListComp) and isinstance(n.elt, ast.Tuple)
                   and len(n.generators) == 1]:
            for t in lc.generators[0].ifs:
                neg = False
                while isinstance(t, ast.UnaryOp) and isinstance(t.op, ast.Not):
                    neg, t = not neg, t.operand
                if isinstance(t, ast.Compare) and len(t.ops) == 1 and isinstance(t.ops[0], (ast.In, ast.NotIn)) and \
                        isinstance(t.left, ast.Name) and isinstance(t.comparators[0], ast.Name):
                    comp_memb = (lc, t, isinstance(t.ops[0], ast.In) != neg)
        for c in [n for n in walk_body(blk.body) if isinstance(n, ast.Call) and astx.callee_attr(n) == 'append'
                  and n.args and isinstance(n.args[0], ast.Tuple)]:
            ifs = [a for a in astx.ancestors(c) if isinstance(a, ast.If) and astx.in_body(a, loops_[0], 'body')]
            for a in ifs:
                t = a.test
                if isinstance(t, ast.Compare) and len(t.ops) == 1 and isinstance(t.ops[0], (ast.In, ast.NotIn)) and \
                        isinstance(t.left, ast.Name) and isinstance(t.comparators[0], ast.Name):
                    memb = (c, a, t)
        if memb is None and comp_memb is None:
            out.unsure(rfn, blk, f'{d} block: test that a subtrahend lies in the colour group not recognised')
        else:
            if memb is not None:
                c, a, t = memb
                tup = c.args[0]
                positive = isinstance(t.ops[0], ast.In) == astx.in_body(c, a, 'body')
            else:
                lc, t, positive = comp_memb
                tup = lc.elt
                a = astx.stmt_of(lc)
            setname = t.comparators[0].id
            defs = [s2 for s2 in astx.walk_stmts(blk.body) if isinstance(s2, ast.Assign) and
                    any(isinstance(x, ast.Name) and x.id == setname for x in s2.targets)]
            tok = slot_tokens([s2.value for s2 in defs])
            grp_ok = len(defs) == 1 and tok == {f'_{d}[0]'} and astx.mentions(defs[0].value, cvar)
            in_tuple = t.left.id in astx.names(tup)
            if not grp_ok:
                if len(defs) == 1 and tok and tok != {f'_{d}[0]'}:
                    out.bad(rfn, defs[0], f'{d} block tests membership in {sorted(tok)} instead of the members of {d} colour '
                            f'{cvar}', key=f'subtract-member-{d}')
                else:
                    out.unsure(rfn, a, 'colour group of the membership test not recognised')
            elif not positive:
                out.bad(rfn, a, f'{d} block subtracts the {od}-coloured entries that are NOT in the colour group: the entries '
                        'that really contaminate the compressed product stay in, foreign ones are taken out',
                        key=f'subtract-member-{d}')
            elif not in_tuple:
                out.bad(rfn, a, f'the tested index {t.left.id} is not the one recorded as subtrahend', key=f'subtract-member-{d}')
            else:
                out.ok(rfn, a, f'{d} block: only {od}-coloured entries inside the colour group are subtracted')
        # (row, col) positions
        roles, role = infer_roles(blk.body)
        tuples = []
        for c in [c for n in walk_body(blk.body) if isinstance(n, ast.Call) for c in [n]]:
            if astx.callee_attr(c) in ('append', 'setdefault', 'add') and c.args and isinstance(c.args[0], ast.Tuple) \
                    and len(c.args[0].elts) == 2:
                tuples.append(c.args[0])
        for lc in [n for n in walk_body(blk.body) if isinstance(n, ast.ListComp) and isinstance(n.elt, ast.Tuple)
                   and len(n.elt.elts) == 2]:
            tuples.append(lc.elt)
        bad_t = None
        unk = None
        for tp in tuples:
            ra, rb = role(tp.elts[0]), role(tp.elts[1])
            if (ra, rb) == ('row', 'col'):
                continue
            if ra in ('row', 'col') and rb in ('row', 'col'):
                bad_t = bad_t or (tp, ra, rb)
            else:
                unk = unk or tp
        for c in [n for n in walk_body(blk.body) if isinstance(n, ast.Call) and astx.callee_attr(n) in ('getrow', 'getcol')
                  and n.args and role(n.args[0]) in ('row', 'col')]:
            if role(c.args[0]) != astx.callee_attr(c)[3:]:
                bad_t = bad_t or (c, role(c.args[0]), astx.callee_attr(c))
        if bad_t:
            out.bad(rfn, astx.stmt_of(bad_t[0]), f'`{astx.src(bad_t[0])}` combines a {bad_t[1]} index with {bad_t[2]}: '
                    'jacobian positions are (row, col)', key=f'subtract-position-{d}')
        elif unk is not None or len(tuples) < 2:
            out.unsure(rfn, blk, 'row/col roles of the position tuples not resolved')
        else:
            out.ok(rfn, blk, f'{d} block: {len(tuples)} position tuples are (row, col)')


# =========================================================================== C03.coords
# functions of coloring.py that build/inspect sparse matrices from index arrays; value = parameters that are
# (row indices, column indices) of the matrix being processed
COORD_FUNCS = {
    'Coloring._expand_jac': (),
    '_compute_coloring': (),
    'MNCO_bidir': (),
    '_2col_adj_rows_cols': (),
    '_color_partition': (1, 2),
    '_Jc2col_matrix_direct': (1, 2),
    '_Jc2col_matrix_substitution': (1, 2),
}


@rule('C03.coords', floor=14)
def coords(repo, out):
    """Sparse matrices are built as (data, (row indices, column indices)) and queried with getrow(row) /
    getcol(col): a swapped pair silently transposes the pattern that is coloured or expanded."""
    for qn, rc in COORD_FUNCS.items():
        fn = repo.func(COL, qn)
        params = [a.arg for a in fn.node.args.args]
        seed = {}
        if rc:
            seed = {params[rc[0]]: 'row', params[rc[1]]: 'col'}
        roles, role0 = infer_roles(fn.node.body, seed)

        def role(e):
            if isinstance(e, ast.Attribute) and e.attr in ('_nzrows', '_nzcols'):
                return 'row' if e.attr == '_nzrows' else 'col'
            return role0(e)
        n_here = 0
        for c in astx.calls(fn.node):
            nm = astx.callee_attr(c)
            if nm in ('coo_matrix', 'csr_matrix', 'csc_matrix') and c.args and isinstance(c.args[0], ast.Tuple) and \
                    len(c.args[0].elts) == 2 and isinstance(c.args[0].elts[1], ast.Tuple) and \
                    len(c.args[0].elts[1].elts) == 2:
                a, b = c.args[0].elts[1].elts
                ra, rb = role(a), role(b)
                if ra not in ('row', 'col') or rb not in ('row', 'col'):
                    continue
                n_here += 1
                st = astx.stmt_of(c)
                if (ra, rb) == ('row', 'col'):
                    out.ok(fn, st, f'{nm}((.., ({astx.src(a)}, {astx.src(b)}))) is (rows, cols)')
                else:
                    out.bad(fn, st, f'{nm} receives ({astx.src(a)}, {astx.src(b)}) = ({ra} indices, {rb} indices) where '
                            '(rows, cols) is expected: the sparsity pattern is transposed', key='coords-ctor')
            elif nm in ('getrow', 'getcol') and len(c.args) == 1 and role(c.args[0]) in ('row', 'col'):
                n_here += 1
                st = astx.stmt_of(c)
                if role(c.args[0]) == nm[3:]:
                    out.ok(fn, st, f'{nm}({astx.src(c.args[0])}) is asked with a {nm[3:]} index')
                else:
                    out.bad(fn, st, f'{nm}() is asked with the {role(c.args[0])} index `{astx.src(c.args[0])}`',
                            key='coords-query')
        if not n_here:
            out.unsure(fn, fn.node, 'no sparse construction/query with resolvable (row, col) roles found')


# =========================================================================== C03.pairing
@rule('C03.pairing', floor=7)
def pairing(repo, out):
    """Colour groups stay paired with their own data: group member <-> its nonzero list, colour number <->
    its iteration metadata, loop mode <-> every mode-dependent call of the solve loop; partition colouring
    returns (groups, map) and keeps the columns that have entries."""
    # (1) color_nonzero_iter
    fn = repo.func(COL, 'Coloring.color_nonzero_iter')
    cx = Ctx(fn)
    dpar = cx.params[1]
    loops = [st for st in fn.node.body if isinstance(st, ast.For)]
    ys = [n for n in astx.walk(fn.node) if isinstance(n, ast.Yield)]
    if len(loops) == 1 and len(ys) == 1 and isinstance(ys[0].value, ast.Tuple) and len(ys[0].value.elts) == 2 and \
            isinstance(loops[0].target, ast.Name) and isinstance(ys[0].value.elts[1], ast.ListComp):
        lp, y = loops[0], ys[0]
        chunk = lp.target.id
        lc = y.value.elts[1]
        gen = lc.generators[0]
        at = cx.node(astx.stmt_of(y))
        mv = None
        if isinstance(lc.elt, ast.Subscript) and isinstance(lc.elt.value, ast.Name):
            mv, _ = cx.value(at, lc.elt.value.id)
        calls_ok = isinstance(mv, ast.Call) and astx.call_name(mv) == 'self.get_row_col_map' and \
            isinstance(lp.iter, ast.Call) and astx.call_name(lp.iter) == 'self.color_iter'
        if not calls_ok:
            out.unsure(fn, lp, 'group iterator / nonzero map lookups not recognised')
        else:
            a1, a2 = astx.arg(mv, 0, 'direction'), astx.arg(lp.iter, 0, 'direction')
            same_dir = all(isinstance(a, ast.Name) and a.id == dpar for a in (a1, a2))
            member = isinstance(gen.target, ast.Name) and isinstance(gen.iter, ast.Name) and gen.iter.id == chunk and \
                isinstance(lc.elt.slice, ast.Name) and lc.elt.slice.id == gen.target.id and not gen.ifs
            first = isinstance(y.value.elts[0], ast.Name) and y.value.elts[0].id == chunk
            if not same_dir:
                out.bad(fn, lp, f'groups and nonzero map are looked up for `{astx.src(a2)}` and `{astx.src(a1)}`: they must '
                        f'both belong to the requested direction {dpar}', key='pairing-nonzero-iter')
            elif not member or not first:
                out.bad(fn, astx.stmt_of(y), 'the yielded nonzero lists are not those of the members of the yielded group, '
                        'one per member in order', key='pairing-nonzero-iter')
            else:
                out.ok(fn, astx.stmt_of(y), 'yields (group, [map[c] for c in group]) of one direction')
    else:
        out.unsure(fn, fn.node, 'shape of color_nonzero_iter not recognised')

    # (2) itermeta alignment: builder appends once per colour, consumer indexes with the colour number
    bfn = repo.func(TJ, '_TotalJacInfo._create_in_idx_map')
    cxb = Ctx(bfn)
    g = cxb.g
    loops = [st for st in astx.walk_stmts(bfn.node.body) if isinstance(st, ast.For) and isinstance(st.iter, ast.Call)
             and astx.callee_attr(st.iter) == 'color_iter']
    if len(loops) != 1:
        out.unsure(bfn, bfn.node, 'loop over color_iter not found')
    else:
        lp = loops[0]
        hdr = cxb.node(lp)
        body = set(g.body_nodes(lp))
        lists = set()
        for st in astx.walk_stmts(bfn.node.body):
            if isinstance(st, ast.Assign):
                for t in st.targets:
                    if isinstance(t, ast.Subscript) and astx.const_str(t.slice) == 'itermeta':
                        lists |= {x.id for x in st.targets if isinstance(x, ast.Name)}
        apps = [n for n in body if n.kind == 'stmt' and isinstance(n.ast, ast.Expr) and isinstance(n.ast.value, ast.Call)
                and astx.callee_attr(n.ast.value) == 'append' and isinstance(astx.receiver(n.ast.value), ast.Name)
                and astx.receiver(n.ast.value).id in lists]
        entry = [m for m, lab in g.succ[hdr] if lab == 'true']
        if not lists:
            out.unsure(bfn, lp, "imeta['itermeta'] list not identified")
        elif not apps or g.path(entry, [hdr], avoid=apps, labels=cfgm.noexc) is not None:
            out.bad(bfn, lp, "a colour can be passed without appending its metadata to imeta['itermeta']: later colours read "
                    'the metadata (seeds, local indices) of another colour', key='pairing-itermeta')
        elif any(set(apps) & g.reach(g.normal_succ(a), avoid=[hdr], labels=cfgm.noexc) for a in apps):
            out.bad(bfn, apps[0].ast, 'metadata can be appended twice for one colour', key='pairing-itermeta')
        else:
            out.ok(bfn, apps[0].ast, 'exactly one itermeta entry per colour, in colour order')
    cfn = repo.func(TJ, '_TotalJacInfo.simul_coloring_iter')
    loops = [st for st in cfn.node.body if isinstance(st, ast.For)]
    ys = [n for n in astx.walk(cfn.node) if isinstance(n, ast.Yield)]
    if len(loops) == 1 and len(ys) == 1 and isinstance(loops[0].iter, ast.Call) and \
            astx.call_name(loops[0].iter) == 'enumerate' and isinstance(loops[0].target, ast.Tuple) and \
            isinstance(ys[0].value, ast.Tuple) and len(ys[0].value.elts) == 4:
        lp, y = loops[0], ys[0].value
        cnum, grp = (e.id for e in lp.target.elts)
        src = lp.iter.args[0]
        mpar = cfn.node.args.args[2].arg
        meta = y.elts[3]
        src_ok = isinstance(src, ast.Call) and astx.callee_attr(src) == 'color_iter' and len(src.args) == 1 and \
            isinstance(src.args[0], ast.Name) and src.args[0].id == mpar and not lp.iter.keywords and len(lp.iter.args) == 1
        if not src_ok:
            out.unsure(cfn, lp, 'colour enumeration not recognised')
        elif not (isinstance(y.elts[0], ast.Name) and y.elts[0].id == grp):
            out.bad(cfn, astx.stmt_of(ys[0]), f'the yielded index list is not the colour group {grp}', key='pairing-itermeta')
        elif isinstance(meta, ast.Subscript) and isinstance(meta.value, ast.Subscript) and \
                astx.const_str(meta.value.slice) == 'itermeta' and isinstance(meta.slice, ast.Name) and meta.slice.id == cnum:
            out.ok(cfn, astx.stmt_of(ys[0]), f"colour {cnum} is solved with imeta['itermeta'][{cnum}]")
        elif isinstance(meta, ast.Subscript) and isinstance(meta.value, ast.Subscript) and \
                astx.const_str(meta.value.slice) == 'itermeta':
            out.bad(cfn, astx.stmt_of(ys[0]), f"colour {cnum} is solved with imeta['itermeta'][{astx.src(meta.slice)}]: seeds of "
                    'another colour are applied', key='pairing-itermeta')
        else:
            out.unsure(cfn, astx.stmt_of(ys[0]), 'yielded metadata not recognised')
    else:
        out.unsure(cfn, cfn.node, 'shape of simul_coloring_iter not recognised')

    # (3) seeds / indices argument order in the coloured input setter
    sfn = repo.func(TJ, '_TotalJacInfo.simul_coloring_input_setter')
    mp = sfn.node.args.args[2].arg
    sv = [c for c in astx.calls(sfn.node) if astx.callee_attr(c) == 'set_val' and
          astx.path(astx.receiver(c)) == 'self.input_vec[*]']
    if len(sv) != 1 or len(sv[0].args) != 2:
        out.unsure(sfn, sfn.node, 'seed store `self.input_vec[mode].set_val(seeds, idxs)` not recognised')
    else:
        k0, k1 = (astx.const_str(a.slice) if isinstance(a, ast.Subscript) else None for a in sv[0].args)
        if (k0, k1) == ('seeds', 'local_in_idxs'):
            out.ok(sfn, astx.stmt_of(sv[0]), 'set_val(values=seeds, idxs=local_in_idxs)')
        elif (k0, k1) == ('local_in_idxs', 'seeds'):
            out.bad(sfn, astx.stmt_of(sv[0]), 'set_val receives the local indices as values and the seeds as indices',
                    key='pairing-seed-args')
        else:
            out.unsure(sfn, astx.stmt_of(sv[0]), 'set_val arguments not recognised')

    # (4) solve loop: every mode-dependent call uses the mode being iterated
    tfn = repo.func(TJ, '_TotalJacInfo.compute_totals')
    mloops = [st for st in astx.walk_stmts(tfn.node.body) if isinstance(st, ast.For) and
              astx.path(st.iter) == 'self.modes' and isinstance(st.target, ast.Name)]
    if len(mloops) != 1:
        out.unsure(tfn, tfn.node, '`for mode in self.modes` not found')
    else:
        ml = mloops[0]
        mv = ml.target.id
        inner = [st for st in astx.walk_stmts(ml.body) if isinstance(st, ast.For) and isinstance(st.target, ast.Tuple)
                 and len(st.target.elts) == 4]
        bound = {e.id for st in inner for e in st.target.elts[1:3] if isinstance(e, ast.Name)}
        names_iter = set()
        for st in astx.walk_stmts(ml.body):
            if isinstance(st, ast.Assign) and isinstance(st.targets[0], ast.Tuple) and len(st.targets[0].elts) == 2:
                names_iter |= {e.id for e in st.targets[0].elts if isinstance(e, ast.Name)}
        checked = 0
        wrong = None
        for c in [n for st in ml.body for n in astx.walk(st) if isinstance(n, ast.Call)]:
            nm = astx.call_name(c)
            is_target = (isinstance(c.func, ast.Name) and (c.func.id in bound or
                         (c.func.id in names_iter and c is getattr(astx.enclosing(c, (ast.For,)), 'iter', None)))) or \
                astx.callee_attr(c) == '_solve_linear'
            if not is_target:
                continue
            checked += 1
            uses = [a for a in c.args if isinstance(a, ast.Name) and a.id == mv]
            other = [a for a in c.args if astx.path(a) in ('self.mode', 'self._mode') or astx.const_str(a) in _FLIPD]
            if other or not uses:
                wrong = wrong or (c, other[0] if other else None)
        if wrong:
            c, a = wrong
            out.bad(tfn, astx.stmt_of(c), f'`{astx.src(c)}` does not receive the loop variable {mv}'
                    + (f' but `{astx.src(a)}`' if a is not None else '') + ': in a bidirectional colouring the second pass '
                    'seeds, solves or stores in the wrong direction', key='pairing-mode')
        elif checked >= 4:
            out.ok(tfn, ml, f'{checked} mode-dependent calls (index iterator, input setter, solve, jac setter) receive {mv}')
        else:
            out.unsure(tfn, ml, f'only {checked} mode-dependent calls recognised in the solve loop')

    # (5) _color_partition: returns (groups, map); direct filter keeps columns that have entries in the partition
    pfn = repo.func(COL, '_color_partition')
    cxp = Ctx(pfn)
    maps = set()
    for st in astx.walk_stmts(pfn.node.body):
        if isinstance(st, ast.Assign) and len(st.targets) == 1 and isinstance(st.targets[0], ast.Subscript) and \
                isinstance(st.targets[0].value, ast.Name) and isinstance(st.value, ast.Attribute) and \
                st.value.attr == 'indices' and isinstance(st.value.value, ast.Call) and \
                astx.callee_attr(st.value.value) == 'getcol':
            if ssame(st.targets[0].slice, st.value.value.args[0]):
                maps.add(st.targets[0].value.id)
            else:
                out.bad(pfn, st, 'nonzero rows of one column are stored under another column', key='pairing-partition-map')
    rets = [st for st in pfn.node.body if isinstance(st, ast.Return)]
    if len(maps) == 1 and len(rets) == 1 and isinstance(rets[0].value, (ast.List, ast.Tuple)) and \
            len(rets[0].value.elts) == 2 and all(isinstance(e, ast.Name) for e in rets[0].value.elts):
        m = next(iter(maps))
        a, b = (e.id for e in rets[0].value.elts)
        if b == m and a != m:
            out.ok(pfn, rets[0], f'returns [groups, {m}]')
        elif a == m:
            out.bad(pfn, rets[0], f'returns [{a}, {b}]: consumers read the groups from [0] and the nonzero map from [1]',
                    key='pairing-partition-return')
        else:
            out.unsure(pfn, rets[0], 'returned pair not recognised')
        filt = [n for n in astx.walk(pfn.node) if isinstance(n, ast.ListComp) and n.generators and n.generators[0].ifs and
                any(isinstance(t, ast.Compare) and isinstance(t.left, ast.Subscript) and astx.path(t.left.value) == m
                    for t in n.generators[0].ifs)]
        if len(filt) == 1:
            t = [t for t in filt[0].generators[0].ifs if isinstance(t, ast.Compare)][0]
            keeps_present = len(t.ops) == 1 and isinstance(t.ops[0], ast.IsNot) and \
                isinstance(t.comparators[0], ast.Constant) and t.comparators[0].value is None
            drops_present = len(t.ops) == 1 and isinstance(t.ops[0], ast.Is) and \
                isinstance(t.comparators[0], ast.Constant) and t.comparators[0].value is None
            member_ok = isinstance(filt[0].elt, ast.Name) and isinstance(t.left.slice, ast.Name) and \
                t.left.slice.id == filt[0].elt.id
            if keeps_present and member_ok:
                out.ok(pfn, astx.stmt_of(filt[0]), 'direct method keeps exactly the group members that have entries in the partition')
            elif drops_present:
                out.bad(pfn, astx.stmt_of(filt[0]), 'direct method drops the columns that have entries in the partition and '
                        'keeps the empty ones: nothing of the partition is solved', key='pairing-partition-filter')
            else:
                out.unsure(pfn, astx.stmt_of(filt[0]), 'group filter not recognised')
        else:
            out.unsure(pfn, pfn.node, 'group filter of the direct method not found')
    elif not any(i['status'] == 'violation' and i['func'] == pfn.qualname for i in out.items):
        out.unsure(pfn, pfn.node, 'nonzero map / return pair of _color_partition not recognised')


# =========================================================================== C03.applies
DRIVER = 'openmdao/core/driver.py'
SYSTEM = 'openmdao/core/system.py'


@rule('C03.applies', floor=1)
def applies(repo, out):
    """The driver's colouring is adopted by a _TotalJacInfo only for the driver's own of/wrt: never with custom
    of/wrt lists or index overrides (the colour groups and nonzero maps are laid out for the driver ordering)."""
    fn = repo.func(TJ, '_TotalJacInfo.__init__')
    cx = Ctx(fn)
    adopt = [st for st in astx.walk_stmts(fn.node.body) if isinstance(st, ast.Assign) and
             astx.path(st.value) == 'driver._coloring_info']
    if len(adopt) != 1:
        out.unsure(fn, fn.node, f'{len(adopt)} adoption sites of driver._coloring_info found')
        return
    st = adopt[0]
    parts, outer = _guard_formula(st, cx)

    def orig_param(name, at):
        """parameter that a local snapshot (orig_of = of) stands for"""
        if cx.is_param(name, at):
            return name
        v, d = cx.value(at, name)
        if isinstance(v, ast.Name) and cx.is_param(v.id, d):
            return v.id
        return None

    def atom_of(e):
        at = cx.at(e)
        if isinstance(e, ast.Compare) and len(e.ops) == 1 and isinstance(e.ops[0], (ast.Is, ast.IsNot)) and \
                isinstance(e.comparators[0], ast.Constant) and e.comparators[0].value is None and \
                isinstance(e.left, ast.Name):
            p = orig_param(e.left.id, at)
            if p in ('of', 'wrt', 'of_indices', 'wrt_indices'):
                return f'{p}_none' if isinstance(e.ops[0], ast.Is) else ('not', f'{p}_none')
        if isinstance(e, ast.Name) and e.id == 'has_custom_derivs':
            return 'custom'
        if isinstance(e, ast.Name) and e.id != 'driver':
            v, d = cx.value(at, e.id)
            if isinstance(v, (ast.BoolOp, ast.Compare, ast.UnaryOp)) and d is not None:
                return boolx.from_ast(v, atom_of)      # a named sub-condition: expand it
        if isinstance(e, ast.Name) and e.id == 'driver' and cx.is_param('driver', at) or \
                isinstance(e, ast.Name) and e.id == 'driver':
            return 'driver'
        return 'free:' + sdump(e)
    fs = []
    for test, pos, _ in parts:
        f = boolx.from_ast(test, atom_of)
        fs.append(f if pos else boolx.Not(f))
    G = boolx.And(*fs) if fs else boolx.TRUE
    A = boolx.A
    req = boolx.And(A('driver'), boolx.Or(boolx.Not(A('custom')), boolx.And(A('of_none'), A('wrt_none'))),
                    A('of_indices_none'), A('wrt_indices_none'))
    okg, n, cex = boolx.implies(G, req, extra_atoms=['driver', 'custom', 'of_none', 'wrt_none', 'of_indices_none',
                                                     'wrt_indices_none'])
    out.count('rows', n)
    if okg:
        out.ok(fn, st, 'driver colouring adopted only when of/wrt are the driver\'s (no custom lists, no index overrides)')
    else:
        shown = {k: v for k, v in cex.items() if not k.startswith('free:')}
        out.bad(fn, outer or st, 'the driver colouring is adopted for a request that is not the driver\'s own of/wrt ('
                + boolx.fmt_val(shown) + '): colour groups and nonzero maps computed for the driver ordering are applied '
                'to a different jacobian layout', key='applies-guard')


# =========================================================================== C03.stale
@rule('C03.stale', floor=1)
def stale(repo, out):
    """Driver (re)setup drops a previously generated total colouring whenever one may exist (dynamic or static)."""
    fn = repo.func(DRIVER, 'Driver._setup_driver')
    cx = Ctx(fn)
    resets = [s for s in astx.walk_stmts(fn.node.body) if isinstance(s, ast.Assign) and
              any(cx.rpath(t, cx.node(s)) == 'self._coloring_info.coloring' for t in s.targets
                  if isinstance(t, ast.Attribute)) and
              isinstance(s.value, ast.Constant) and s.value.value is None]
    if not resets:
        out.bad(fn, fn.node, 'setup never resets self._coloring_info.coloring: a colouring generated for the previous model '
                'structure is reused after re-setup', key='stale-reset')
        return

    def atom_of(e):
        at = cx.at(e)
        p = cx.rpath(e, at) if isinstance(e, (ast.Name, ast.Attribute)) else None
        if p == 'self._coloring_info.dynamic':
            return 'dynamic'
        if p == 'coloring_mod._use_total_sparsity':
            return 'enabled'
        if isinstance(e, ast.Name):
            v, d = cx.value(at, e.id)
            if isinstance(v, (ast.BoolOp, ast.Compare, ast.UnaryOp)):
                return boolx.from_ast(v, atom_of)
        if isinstance(e, ast.Compare) and len(e.ops) == 1 and isinstance(e.ops[0], (ast.Is, ast.IsNot)) and \
                isinstance(e.comparators[0], ast.Constant) and e.comparators[0].value is None and \
                cx.rpath(e.left, at) == 'self._coloring_info.static':
            return ('not', 'static') if isinstance(e.ops[0], ast.Is) else 'static'
        return 'free:' + sdump(e)
    Gs = []
    for st in resets:
        parts, _ = _guard_formula(st, cx)
        fs = []
        for test, pos, _ in parts:
            f = boolx.from_ast(test, atom_of)
            fs.append(f if pos else boolx.Not(f))
        Gs.append(boolx.And(*fs) if fs else boolx.TRUE)
    G = boolx.Or(*Gs)
    A = boolx.A
    need = boolx.And(A('enabled'), boolx.Or(A('dynamic'), A('static')))
    okg, n, cex = boolx.implies(need, G, extra_atoms=['enabled', 'dynamic', 'static'])
    out.count('rows', n)
    g = cx.g
    getters = g.calling('_get_static_coloring')
    late = [r for st in resets for r in g.nodes_of(st)
            if any(r in g.reach(g.normal_succ(x), labels=cfgm.noexc) for x in getters)]
    if not okg:
        out.bad(fn, resets[0], 'the colouring is kept across setup when ' + boolx.fmt_val(
            {k: v for k, v in cex.items() if not k.startswith('free:')}) + ': a colouring generated for the previous '
            'sparsity pattern is applied to the new jacobian', key='stale-reset')
    elif late and len(late) == len(resets):
        out.bad(fn, resets[0], 'the colouring is reset only after the static colouring was re-installed',
                key='stale-reset')
    else:
        out.ok(fn, resets[0], 'colouring reset on setup whenever dynamic or static colouring is configured')


# =========================================================================== C03.sparsity
_ABS = ('np.abs', 'numpy.abs', 'abs', 'np.absolute', 'numpy.absolute', 'np.fabs', 'numpy.fabs')
_PATTERN_ONLY = ('np.nonzero', 'numpy.nonzero', 'np.count_nonzero', 'np.flatnonzero', 'len', 'np.shape')


@rule('C03.sparsity', floor=6)
def sparsity(repo, out):
    """Sampled jacobians enter the sparsity accumulators as magnitudes on every path (no sign cancellation), and
    relative sampling perturbations are never zero."""
    for rel, qn, sample_of in ((COL, '_get_total_jac_sparsity', 'call:compute_totals'),
                               (COL, '_ColSparsityJac.set_col', 'param:2')):
        fn = repo.func(rel, qn)
        if sample_of.startswith('param:'):
            samples = {fn.node.args.args[int(sample_of[6:]) + 1].arg}
        else:
            samples = {t.id for st in astx.walk_stmts(fn.node.body) if isinstance(st, ast.Assign)
                       and isinstance(st.value, ast.Call) and astx.callee_attr(st.value) in ('compute_totals', '_compute_totals')
                       for t in st.targets if isinstance(t, ast.Name)}
        if not samples:
            out.unsure(fn, fn.node, 'sampled jacobian not identified')
            continue
        n_here = 0
        for st in astx.walk_stmts(fn.node.body):
            if not isinstance(st, (ast.Assign, ast.AugAssign)):
                continue
            for n in astx.walk(st.value):
                if not (isinstance(n, ast.Name) and n.id in samples):
                    continue
                wrap = None
                for a in astx.ancestors(n):
                    if a is st:
                        break
                    if isinstance(a, ast.Call) and astx.call_name(a) in _ABS + _PATTERN_ONLY:
                        wrap = astx.call_name(a)
                        break
                    if isinstance(a, ast.Attribute) and a.attr in ('shape', 'size', 'dtype', 'ndim'):
                        wrap = 'meta'
                        break
                    if isinstance(a, ast.Compare):
                        wrap = 'meta'
                        break
                if wrap in _PATTERN_ONLY or wrap == 'meta':
                    continue
                n_here += 1
                if wrap in _ABS:
                    out.ok(fn, st, f'{n.id} enters the accumulator through {wrap}()')
                else:
                    out.bad(fn, st, f'the signed sample {n.id} is stored/accumulated without abs(): samples of opposite sign '
                            'cancel, structural nonzeros fall below the tolerance and vanish from the sparsity that is '
                            'coloured', key='sparsity-abs')
        if not n_here:
            out.unsure(fn, fn.node, 'no accumulation of the sampled jacobian found')

    # relative perturbations: zero entries are replaced before/after scaling by perturb_size, before use
    for rel, qn in ((EXEC, 'ExecComp._compute_coloring'), (SYSTEM, 'System._perturbation_iter')):
        fn = repo.func(rel, qn)
        cx = Ctx(fn)
        g = cx.g
        scal = [n for n in g.nodes if n.kind == 'stmt' and isinstance(n.ast, ast.AugAssign) and
                isinstance(n.ast.op, ast.Mult) and isinstance(n.ast.target, ast.Name) and
                astx.mentions(n.ast.value, 'perturb_size')]
        if len(scal) != 1:
            out.unsure(fn, fn.node, f'{len(scal)} `<perturbation> *= perturb_size` statements found')
            continue
        sc = scal[0]
        pv = sc.ast.target.id
        d = cx.unique_def(sc, pv) if len(cx.rd.defs(sc, pv)) == 1 else None
        # the definition reaching the scaling through the zero-fix is the fix itself only if it rebinds; it is a
        # subscript store, so the reaching definition is the copy
        if d is None or not (d.kind == 'stmt' and isinstance(d.ast, ast.Assign) and isinstance(d.ast.value, ast.Call)
                             and astx.callee_attr(d.ast.value) in ('copy', 'array', 'asarray')):
            out.unsure(fn, sc.ast, f'origin of the perturbation array {pv} not recognised')
            continue

        def is_fix(n):
            if n.kind != 'stmt' or not isinstance(n.ast, ast.Assign) or len(n.ast.targets) != 1:
                return False
            t = n.ast.targets[0]
            if not (isinstance(t, ast.Subscript) and isinstance(t.value, ast.Name) and t.value.id == pv):
                return False
            c = t.slice
            zero_mask = isinstance(c, ast.Compare) and len(c.ops) == 1 and isinstance(c.ops[0], ast.Eq) and \
                {sdump(c.left), sdump(c.comparators[0])} & {sdump(ast.Name(id=pv, ctx=ast.Load()))} and \
                any(isinstance(x, ast.Constant) and x.value == 0 for x in (c.left, c.comparators[0]))
            try:
                val = ast.literal_eval(n.ast.value)
            except (ValueError, TypeError, SyntaxError):
                val = None
            nonzero = (isinstance(val, (int, float)) and val != 0) or astx.mentions(n.ast.value, 'perturb_size')
            return bool(zero_mask) and nonzero
        fixes = g.where(is_fix)
        users = [n for n in g.nodes if n not in fixes and n is not sc and n is not d and n.kind in ('stmt', 'test', 'iter', 'with')
                 and any(isinstance(x, ast.Name) and x.id == pv and isinstance(x.ctx, ast.Load)
                         for e in n.exprs() for x in astx.walk(e))]
        if not users:
            out.unsure(fn, sc.ast, f'{pv} is never used')
            continue
        w = g.path(g.normal_succ(d), users, avoid=fixes, labels=cfgm.noexc)
        if w is None:
            out.ok(fn, fixes[0].ast, f'zero entries of {pv} are replaced before the perturbation is used')
        else:
            out.bad(fn, sc.ast, f'the relative perturbation {pv} = value * perturb_size is used without replacing its zero '
                    'entries: inputs that are exactly 0.0 are never moved, all samples are taken at the same point and '
                    'derivatives that vanish there are recorded as structural zeros', key='sparsity-zero-perturbation')


# =========================================================================== C03.approx-data (view on a C12 clause)
class _Only:
    """Forward to `out` only the verdicts about one function (reuse of a clause owned by another module)."""

    def __init__(self, out, qualname):
        self._out, self._qn = out, qualname

    def _mine(self, where):
        qn = getattr(where, 'qualname', None) or (where[1] if isinstance(where, tuple) else None)
        return qn == self._qn

    def ok(self, where, node, why=''):
        if self._mine(where):
            self._out.ok(where, node, why)

    def bad(self, where, node, why, key=None):
        if self._mine(where):
            self._out.bad(where, node, why, key)

    def unsure(self, where, node, why):
        if self._mine(where):
            self._out.unsure(where, node, why)

    def count(self, *a, **k):
        pass

    def note(self, *a, **k):
        pass


@rule('C03.approx-data', floor=2)
def approx_data(repo, out):
    """Coloured approximations: the step/form data shared by all colour groups comes from a COLOURED wrt (and is
    bound whenever a group is built), so the compressed evaluation is differenced with the settings declared for
    the coloured columns and reconstructs their entries (clause shared with C12.colored-wrt)."""
    try:
        from . import C12 as _c12
    except Exception as e:   # pragma: no cover
        raise AnalysisError(f'C12 rule module not importable: {e}')
    _c12.colored_wrt(repo, _Only(out, 'ApproximationScheme._init_colored_approximations'))


# =========================================================================== C03.setter-scope
@rule('C03.setter-scope', floor=1)
def setter_scope(repo, out):
    """The coloured jac setter writes J only at the nonzero positions of the solved index: it never hands the index
    to a setter that stores a whole row/column (entries of the other partition, or entries still to be corrected by
    subtraction, would be overwritten)."""
    fn = repo.func(TJ, '_TotalJacInfo.simul_coloring_jac_setter')
    cls = fn.cls.name
    ALLOWED = {'_jac_setter_dist': 'MPI scatter/allreduce of the column/row that was just written'}

    def writes_J(f, depth=0, seen=()):
        for st in astx.walk_stmts(f.node.body):
            for t in astx.assigned_targets(st) if isinstance(st, (ast.Assign, ast.AugAssign)) else []:
                base = t
                while isinstance(base, ast.Subscript):
                    base = base.value
                if astx.path(base) == 'self.J' and isinstance(t, ast.Subscript):
                    return True
        if depth >= 3:
            return False
        for c in astx.calls(f.node):
            if astx.path(astx.receiver(c)) == 'self':
                nm = astx.callee_attr(c)
                g2 = repo.lookup(f.rel, cls, nm)
                if g2 is not None and nm not in seen and writes_J(g2, depth + 1, seen + (nm,)):
                    return True
        return False
    offenders = []
    for c in astx.calls(fn.node):
        if astx.path(astx.receiver(c)) != 'self':
            continue
        nm = astx.callee_attr(c)
        if nm in ALLOWED:
            continue
        g2 = repo.lookup(fn.rel, cls, nm)
        if g2 is not None and writes_J(g2):
            offenders.append((c, nm))
    if offenders:
        c, nm = offenders[0]
        out.bad(fn, astx.stmt_of(c), f'the coloured jac setter delegates to {nm}, which stores a whole row/column of the '
                'jacobian instead of the nonzero positions of this colour: entries owned by the other direction, or fwd/rev '
                'entries that _apply_subtractions corrects afterwards, are overwritten (subtraction is then applied twice)',
                key='setter-scope')
    else:
        out.ok(fn, fn.node, 'all jacobian writes of the coloured setter are its own map-restricted stores '
               '(+ the tabled MPI scatter)')


# =========================================================================== C03.context
def _const_loop_keys(cx, node, var):
    """Constant string keys that loop variable `var` ranges over at `node` (for k in KEYS / for k, v in zip(KEYS, ..))."""
    for anc in astx.ancestors(node.ast):
        if not isinstance(anc, ast.For):
            continue
        it = None
        if isinstance(anc.target, ast.Name) and anc.target.id == var:
            it = anc.iter
        elif isinstance(anc.target, ast.Tuple) and anc.target.elts and isinstance(anc.target.elts[0], ast.Name) and \
                anc.target.elts[0].id == var and isinstance(anc.iter, ast.Call) and astx.call_name(anc.iter) == 'zip' and anc.iter.args:
            it = anc.iter.args[0]
        if it is None:
            continue
        if isinstance(it, ast.Name):
            v, _ = cx.value(cx.node(anc), it.id)
            it = v
        if isinstance(it, (ast.Tuple, ast.List)) and it.elts and all(astx.const_str(e) for e in it.elts):
            return [astx.const_str(e) for e in it.elts]
        return []
    return []


@rule('C03.context', floor=4)
def context(repo, out):
    """_compute_total_coloring_context restores every piece of problem state it sets (randomised subjacs, the
    computing-coloring flag) on normal AND exceptional exit of the with-body."""
    fn = repo.func(COL, '_compute_total_coloring_context')
    cx = Ctx(fn)
    g = cx.g
    ys = [n for n in g.nodes if n.kind == 'stmt' and isinstance(n.ast, ast.Expr) and isinstance(n.ast.value, ast.Yield)]
    if len(ys) != 1:
        raise AnalysisError(f'{fn.ident}: expected exactly one yield')
    y = ys[0]
    before = g.reach([g.entry], avoid=[y], labels=cfgm.noexc)
    after = g.reach([m for m, _ in g.succ[y]])

    def state_stores(nodes):
        """resolved access path (local aliases of parameter attributes followed) -> store nodes"""
        res = {}
        for n in nodes:
            if n.kind == 'stmt' and isinstance(n.ast, ast.Assign):
                for t in astx.assigned_targets(n.ast):
                    if not isinstance(t, (ast.Attribute, ast.Subscript)):
                        continue
                    rp = cx.rpath(t, n)
                    if rp and '[*]' not in rp and rp.split('.')[0].split('[')[0] in cx.params:
                        res.setdefault(rp, []).append(n)
                    elif rp and rp.endswith('[*]') and rp.count('[*]') == 1 and isinstance(t, ast.Subscript) and \
                            isinstance(t.slice, ast.Name) and rp.split('.')[0] in cx.params:
                        # M[key] inside `for key in KEYS` / `for key, v in zip(KEYS, ...)` with a constant KEYS tuple
                        # a loop over a non-empty constant tuple always runs its body: passing the loop header counts
                        lp_ = [a for a in astx.ancestors(n.ast) if isinstance(a, ast.For)]
                        direct = bool(lp_) and n.ast in lp_[0].body and not any(
                            isinstance(x, (ast.Break, ast.Continue, ast.Return)) for x in astx.walk_stmts(lp_[0].body))
                        hdrs = [h for h in (g.nodes_of(lp_[0]) if direct else []) if h in nodes]
                        for k in _const_loop_keys(cx, n, t.slice.id):
                            res.setdefault(f'{rp[:-3]}[{k!r}]', []).extend([n] + hdrs)
            elif n.kind == 'stmt' and isinstance(n.ast, ast.Expr) and isinstance(n.ast.value, ast.Call) and \
                    astx.callee_attr(n.ast.value) == 'update' and not n.ast.value.args:
                # mapping.update(key=value, ...) stores mapping['key']
                base = cx.rpath(astx.receiver(n.ast.value), n)
                if base and base.split('.')[0] in cx.params:
                    for k in n.ast.value.keywords:
                        if k.arg:
                            res.setdefault(f"{base}[{k.arg!r}]", []).append(n)
        return res
    sets = state_stores(before)
    rest = state_stores(after)
    if not sets:
        out.unsure(fn, fn.node, 'no state set before the yield')
        return
    for key, ns in sets.items():
        tgt = key
        rs = rest.get(key, [])
        w = g.path([m for m, _ in g.succ[y]], [g.exit, g.raise_exit], avoid=rs)
        if not rs:
            out.bad(fn, ns[0].ast, f'{tgt} is set for the sparsity computation and never restored',
                    key='context-restore')
            continue
        if w is not None:
            exc = any(lab == 'exc' for a, b in zip(w, w[1:]) for m, lab in g.succ[a] if m is b) or w[-1] is g.raise_exit
            out.bad(fn, rs[0].ast, f'{tgt} is not restored when the with-body ' +
                    ('raises' if exc else 'finishes on some path') + ': after a failed sparsity computation the problem keeps '
                    'randomised subjacobians / the computing-coloring flag, later totals are garbage and the colouring is '
                    'never retried', key='context-restore')
            continue
        # a value saved before the yield must be the one written back
        saved_ok = True
        seen_ast = set()
        for r in rs:
            if id(r.ast) in seen_ast:
                continue
            seen_ast.add(id(r.ast))
            if not isinstance(r.ast, ast.Assign):
                continue
            v = r.ast.value
            if isinstance(v, ast.Name):
                sv, sd = cx.value(r, v.id)
                if sv is not None and sd in before and cx.rpath(sv, sd) not in (None, key) and \
                        isinstance(sv, (ast.Attribute, ast.Subscript)):
                    saved_ok = False
                    out.bad(fn, r.ast, f'{tgt} is restored from {v.id}, which saved `{astx.src(sv)}`',
                            key='context-restore')
        if saved_ok:
            out.ok(fn, rs[0].ast, f'{tgt} is restored on normal and exceptional exit')


# =========================================================================== C03.load-mirror
def _alpha(stmts, attr_map):
    """Structural key of statements up to consistent renaming of local names and the given attribute mapping."""
    import copy
    ren = {}
    out_ = []
    for st in stmts:
        st2 = copy.copy(st)
        parts = []
        for n in ast.walk(st):
            if isinstance(n, ast.Name):
                parts.append(('N', ren.setdefault(n.id, len(ren))))
            elif isinstance(n, ast.Attribute):
                parts.append(('A', attr_map.get(n.attr, n.attr)))
            elif isinstance(n, ast.Constant):
                parts.append(('C', repr(n.value)))
            else:
                parts.append((type(n).__name__,))
        out_.append(tuple(parts))
    return tuple(out_)


@rule('C03.load-mirror', floor=2)
def load_mirror(repo, out):
    """Coloring.load converts the old on-disk group layout [ungrouped, group, group, ...] the same way for the fwd
    and the rev colouring: each ungrouped index becomes its own colour and exactly the remaining groups follow."""
    fn = repo.func(COL, 'Coloring.load')
    blocks = {}
    for st in astx.walk_stmts(fn.node.body):
        if isinstance(st, ast.If) and isinstance(st.test, ast.Attribute) and st.test.attr in ('_fwd', '_rev') and \
                any(isinstance(t, ast.Attribute) and t.attr == st.test.attr
                    for s2 in st.body for t in astx.assigned_targets(s2)):
            blocks[st.test.attr] = st
    if set(blocks) != {'_fwd', '_rev'}:
        out.unsure(fn, fn.node, 'conversion blocks of the old file layout not found for both directions')
        return
    kf = _alpha(blocks['_fwd'].body, {})
    kr = _alpha(blocks['_rev'].body, {'_rev': '_fwd'})
    # absolute clause per block: singles from old[k], remaining groups old[k+1:]
    verdicts = {}
    for d, blk in blocks.items():
        single = rest = None
        body_ = blk.body
        # conversion extracted into a helper called with this direction's slot: follow it
        if len(blk.body) == 1 and isinstance(blk.body[0], ast.Assign) and isinstance(blk.body[0].value, ast.Call) and \
                len(blk.body[0].value.args) == 1 and not blk.body[0].value.keywords:
            call = blk.body[0].value
            a0 = call.args[0]
            h = repo.try_func(COL, 'Coloring.' + (astx.callee_attr(call) or ''))
            if h is not None:
                if not (isinstance(a0, ast.Attribute) and a0.attr == d):
                    out.bad(fn, blk, f'the {d} colouring is rebuilt from `{astx.src(a0)}`', key='load-mirror' + d)
                    verdicts[d] = 'reported'
                    continue
                hp = [a.arg for a in h.node.args.args if a.arg not in ('self', 'cls')]
                # names standing for <param>[0] (the group list of the direction)
                grp_names = {x.targets[0].id for x in astx.walk_stmts(h.node.body) if isinstance(x, ast.Assign)
                             and len(x.targets) == 1 and isinstance(x.targets[0], ast.Name)
                             and isinstance(x.value, ast.Subscript) and isinstance(x.value.value, ast.Name)
                             and hp and x.value.value.id == hp[0] and isinstance(x.value.slice, ast.Constant)
                             and x.value.slice.value == 0}
                body_ = h.node.body if grp_names else blk.body
        for n in walk_body(body_):
            # explicit loop form:  for c in old[k]: new.append([c])
            if isinstance(n, ast.For) and isinstance(n.iter, ast.Subscript) and isinstance(n.iter.slice, ast.Constant) and \
                    isinstance(n.target, ast.Name) and len(n.body) == 1 and isinstance(n.body[0], ast.Expr) and \
                    isinstance(n.body[0].value, ast.Call) and astx.callee_attr(n.body[0].value) == 'append' and \
                    len(n.body[0].value.args) == 1 and isinstance(n.body[0].value.args[0], ast.List) and \
                    len(n.body[0].value.args[0].elts) == 1 and isinstance(n.body[0].value.args[0].elts[0], ast.Name) and \
                    n.body[0].value.args[0].elts[0].id == n.target.id:
                single = n.iter
            if isinstance(n, ast.ListComp) and isinstance(n.elt, ast.List) and len(n.elt.elts) == 1 and \
                    isinstance(n.generators[0].iter, ast.Subscript) and isinstance(n.generators[0].iter.slice, ast.Constant):
                single = n.generators[0].iter
            if isinstance(n, ast.Call) and astx.callee_attr(n) in ('extend',) and n.args and \
                    isinstance(n.args[0], ast.Subscript) and isinstance(n.args[0].slice, ast.Slice):
                rest = n.args[0]
        if single is None or rest is None:
            verdicts[d] = None
            continue
        lo = rest.slice.lower
        lo = 0 if lo is None else (lo.value if isinstance(lo, ast.Constant) else None)
        same_src = ssame(single.value, rest.value) and rest.slice.upper is None and rest.slice.step is None
        verdicts[d] = (same_src and lo == single.slice.value + 1, single, rest)
    for d, blk in blocks.items():
        v = verdicts[d]
        if v == 'reported':
            continue
        if v is None:
            if kf == kr:
                out.unsure(fn, blk, f'conversion idiom of the {d} block not recognised (blocks are mirror images)')
            else:
                out.bad(fn, blk, 'the fwd and rev conversions of the old file layout differ although the layout is the same '
                        'for both directions', key='load-mirror' + d)
        elif v[0]:
            out.ok(fn, blk, f'{d}: ungrouped indices {astx.src(v[1])} become single colours, followed by {astx.src(v[2])}')
        else:
            out.bad(fn, astx.stmt_of(v[2]), f'{d}: after turning {astx.src(v[1])} into single colours the loader appends '
                    f'{astx.src(v[2])}: ' + ('the ungrouped list itself is kept as one more colour, so its indices belong to '
                                             'two colours and are solved together although they conflict'
                                             if isinstance(v[2].slice.lower, ast.Constant) and v[2].slice.lower.value == 0
                                             or v[2].slice.lower is None else 'groups of the file are dropped'),
                    key='load-mirror' + d)


# =========================================================================== self-test
_SUB_BLOCK = ("                if self.simul_coloring is not None and self.simul_coloring._subtractions:\n"
              "                    self.simul_coloring._apply_subtractions(self.J)\n")
_RET = "        return self.J_final\n\n    def _compute_totals_approx"

_GREEDY_OLD = ("    for icol, colnzrows in _order_by_ID(col_adj_matrix):\n"
               "        neighbor_colors = colors[colnzrows]\n"
               "        for color, grp in enumerate(color_groups):\n"
               "            if color not in neighbor_colors:\n"
               "                grp.append(icol)\n"
               "                colors[icol] = color\n"
               "                break\n"
               "        else:\n"
               "            colors[icol] = len(color_groups)\n"
               "            color_groups.append([icol])\n")
_GREEDY_NEW = ("    for icol, neighbors in _order_by_ID(col_adj_matrix):\n"
               "        neighbor_colors = colors[neighbors]\n"
               "        ncolors = len(color_groups)\n"
               "        chosen = ncolors\n"
               "        for color in range(ncolors):\n"
               "            if color not in neighbor_colors:\n"
               "                chosen = color\n"
               "                break\n"
               "\n"
               "        if chosen == ncolors:\n"
               "            color_groups.append([icol])\n"
               "        else:\n"
               "            color_groups[chosen].append(icol)\n"
               "        colors[icol] = chosen\n")
_TOSUB1_OLD = ("                        tosub = []\n"
               "                        for subc in spcols[spvals < 0]:  # get nz vals for rev colors in this row\n"
               "                            if subc in color_cols:  # make sure it's in the same color group\n"
               "                                tosub.append((nzrow, subc))\n"
               "                        if tosub:\n"
               "                            subfromcol = subfrom[0]\n"
               "                            subtractions.setdefault((nzrow, subfromcol), []).extend(tosub)\n")
_TOSUB1_NEW = ("                        tosub = [(nzrow, subc) for subc in spcols[spvals < 0]\n"
               "                                 if subc in color_cols]\n"
               "                        if tosub:\n"
               "                            subtractions.setdefault((nzrow, subfrom[0]), []).extend(tosub)\n")
_TOSUB2_OLD = ("                        tosub = []\n"
               "                        for subr in sprows[spvals > 0]:  # get nz vals for fwd colors in this column\n"
               "                            if subr in color_rows:  # make sure it's in the same color group\n"
               "                                tosub.append((subr, nzcol))\n"
               "                        if tosub:\n"
               "                            subfromrow = subfrom[0]\n"
               "                            subtractions.setdefault((subfromrow, nzcol), []).extend(tosub)\n")
_TOSUB2_NEW = ("                        tosub = [(subr, nzcol) for subr in sprows[spvals > 0]\n"
               "                                 if subr in color_rows]\n"
               "                        if tosub:\n"
               "                            subtractions.setdefault((subfrom[0], nzcol), []).extend(tosub)\n")

_APPLIES_OLD = ("                if (\n                    driver and\n"
                "                        ((orig_of is None and orig_wrt is None) or not has_custom_derivs) and\n"
                "                        (of_indices is None and wrt_indices is None)\n                    ):\n"
                "                    # we're using driver ofs/wrts\n"
                "                    if coloring_info is None:\n"
                "                        self.coloring_info = coloring_info = driver._coloring_info\n")
_APPLIES_NEW = ("                uses_driver_vois = (orig_of is None and orig_wrt is None) or not has_custom_derivs\n"
                "                no_sub_indices = of_indices is None and wrt_indices is None\n"
                "                if driver and uses_driver_vois and no_sub_indices and coloring_info is None:\n"
                "                    self.coloring_info = coloring_info = driver._coloring_info\n")
_EXEC_SCATTER_OLD = ("                loc_i = icol - in_slices[in_name].start\n"
                     "                for out_name in out_names:\n"
                     "                    key = (out_name, in_name)\n"
                     "                    if key in partials:\n"
                     "                        # set the column in the Jacobian entry\n"
                     "                        part = scratch[out_slices[out_name]]\n"
                     "                        partials[key][:, loc_i] = part\n"
                     "                        part[:] = 0.\n")
_EXEC_SCATTER_NEW = ("                self._scatter_colored_column(partials, scratch, in_name,\n"
                     "                                             icol - in_slices[in_name].start)\n")
_EXEC_HELPER = ("    def _scatter_colored_column(self, partials, scratch, in_name, loc_i):\n"
                "        out_slices = self._out_slices\n"
                "        for out_name in self._var_rel_names['output']:\n"
                "            key = (out_name, in_name)\n"
                "            if key not in partials:\n"
                "                continue\n"
                "            part = scratch[out_slices[out_name]]\n"
                "            partials[key][:, loc_i] = part\n"
                "            part[:] = 0.\n\n")
_CTX_OLD = ("    try:\n        yield\n    finally:\n"
            "        problem._metadata['coloring_randgen'] = None\n        problem._computing_coloring = False\n"
            "        problem._metadata['randomize_subjacs'] = saved_rand_subjacs\n"
            "        problem._metadata['randomize_seeds'] = saved_rand_seeds\n")

_STALE_OLD = ("            if self._coloring_info.dynamic or self._coloring_info.static is not None:\n"
              "                self._coloring_info.coloring = None\n")
_FINISH_OLD = (_SUB_BLOCK + "\n                self._apply_unit_scaling(self.J_dict)\n\n                # Driver scaling.\n"
               "                if self.has_scaling:\n                    self._driver._autoscaler.apply_jac_scaling(self.J_dict)\n")
_FINISH_HELPER = ("    def _finish_jac(self):\n        coloring = self.simul_coloring\n        if coloring is not None:\n"
                  "            if coloring._subtractions:\n                coloring._apply_subtractions(self.J)\n\n"
                  "        jac_dict = self.J_dict\n        self._apply_unit_scaling(jac_dict)\n"
                  "        if self.has_scaling:\n            self._driver._autoscaler.apply_jac_scaling(jac_dict)\n\n")
_FINISH_HELPER_BAD = ("    def _finish_jac(self):\n        jac_dict = self.J_dict\n        self._apply_unit_scaling(jac_dict)\n"
                      "        coloring = self.simul_coloring\n        if coloring is not None:\n"
                      "            if coloring._subtractions:\n                coloring._apply_subtractions(self.J)\n\n"
                      "        if self.has_scaling:\n            self._driver._autoscaler.apply_jac_scaling(jac_dict)\n\n")
_SETTER_OLD = ("        if fwd:\n            for i in inds:\n                row = row_col_map[i]\n"
               "                J[row, i] = reduced_derivs[row]\n\n                if dist:\n"
               "                    self._jac_setter_dist(i, mode)\n        else:  # rev\n            for i in inds:\n"
               "                col = row_col_map[i]\n                J[i, col] = reduced_derivs[col]\n"
               "                if dist:\n                    self._jac_setter_dist(i, mode)\n")
_SETTER_NEW = ("        for i in inds:\n            nzs = row_col_map[i]\n"
               "            jac_key = (nzs, i) if fwd else (i, nzs)\n            J[jac_key] = reduced_derivs[nzs]\n\n"
               "            if dist:\n                self._jac_setter_dist(i, mode)\n")
_LOAD_OLD = ("            if coloring._fwd:\n                old = coloring._fwd[0]\n                newgrps = [[c] for c in old[0]]\n"
             "                newgrps.extend(old[1:])\n                coloring._fwd = (newgrps, coloring._fwd[1])\n"
             "            if coloring._rev:\n                old = coloring._rev[0]\n                newgrps = [[c] for c in old[0]]\n"
             "                newgrps.extend(old[1:])\n                coloring._rev = (newgrps, coloring._rev[1])\n")
_LOAD_NEW = ("            if coloring._fwd:\n                coloring._fwd = Coloring._update_old_color_groups(coloring._fwd)\n"
             "            if coloring._rev:\n                coloring._rev = Coloring._update_old_color_groups(coloring._rev)\n")
_LOAD_HELPER = ("    @staticmethod\n    def _update_old_color_groups(direction_info):\n        old_groups = direction_info[0]\n"
                "        new_groups = []\n        for c in old_groups[0]:\n            new_groups.append([c])\n"
                "        new_groups.extend(old_groups[1:])\n        return (new_groups, direction_info[1])\n\n")

_CTXK_SET_OLD = ("    saved_rand_subjacs = problem._metadata['randomize_subjacs']\n    saved_rand_seeds = problem._metadata['randomize_seeds']\n\n"
                 "    if coloring_info is not None:\n        problem._metadata['randomize_subjacs'] = coloring_info.randomize_subjacs\n"
                 "        problem._metadata['randomize_seeds'] = coloring_info.randomize_seeds\n")
_CTXK_SET_NEW = ("    rand_keys = ('randomize_subjacs', 'randomize_seeds')\n    saved_rand = tuple(problem._metadata[key] for key in rand_keys)\n\n"
                 "    if coloring_info is not None:\n        for key in rand_keys:\n            problem._metadata[key] = getattr(coloring_info, key)\n")

selftest(
    'C03',
    # ---- order
    Mutant('order-F1-prefix-shape', TJ, _SUB_BLOCK, '', 'C03.order',
           also=[(TJ, _RET, "        if self.simul_coloring is not None and self.simul_coloring._subtractions:\n"
                  "            self.simul_coloring._apply_subtractions(self.J)\n\n" + _RET)]),
    Mutant('order-sub-before-solves', TJ, _SUB_BLOCK, '', 'C03.order',
           also=[(TJ, "                # Main loop over columns (fwd) or rows (rev) of the jacobian\n",
                  _SUB_BLOCK + "                # Main loop over columns (fwd) or rows (rev) of the jacobian\n")]),
    Mutant('order-sub-twice', TJ, _SUB_BLOCK, _SUB_BLOCK + _SUB_BLOCK, 'C03.order'),
    Mutant('order-sub-after-unit-scaling', TJ,
           _SUB_BLOCK + "\n                self._apply_unit_scaling(self.J_dict)\n",
           "                self._apply_unit_scaling(self.J_dict)\n\n" + _SUB_BLOCK, 'C03.order'),
    Mutant('order-sub-deleted', TJ, _SUB_BLOCK, '', 'C03.order'),
    Mutant('order-guard-has-scaling', TJ,
           'if self.simul_coloring is not None and self.simul_coloring._subtractions:',
           'if self.simul_coloring is not None and self.simul_coloring._subtractions and self.has_scaling:',
           'C03.order'),
    Mutant('order-guard-negated', TJ,
           'if self.simul_coloring is not None and self.simul_coloring._subtractions:',
           'if self.simul_coloring is not None and not self.simul_coloring._subtractions:', 'C03.order'),
    Mutant('order-wrong-operand', TJ, 'self.simul_coloring._apply_subtractions(self.J)',
           'self.simul_coloring._apply_subtractions(self.J_final)', 'C03.order'),
    Mutant('order-sub-under-debug', TJ, _SUB_BLOCK,
           "                if debug_print:\n"
           "                    if self.simul_coloring is not None and self.simul_coloring._subtractions:\n"
           "                        self.simul_coloring._apply_subtractions(self.J)\n", 'C03.order'),
    Twin('order-twin-nested-guard', TJ, _SUB_BLOCK,
         "                sc = self.simul_coloring\n"
         "                if sc is not None:\n"
         "                    if sc._subtractions:\n"
         "                        sc._apply_subtractions(self.J)\n"),
    Twin('order-twin-flipped-guard', TJ, _SUB_BLOCK,
         "                if self.simul_coloring is None or not self.simul_coloring._subtractions:\n"
         "                    pass\n"
         "                else:\n"
         "                    self.simul_coloring._apply_subtractions(self.J)\n"),
    Mutant('approx-scale-before-linearize', TJ,
           "                # Linearize Model\n                model._linearize(sub_do_ln=model._linear_solver._linearize_children())\n",
           "                self._apply_unit_scaling(self.J_dict)\n                model._linearize(sub_do_ln=model._linear_solver._linearize_children())\n",
           'C03.order-approx',
           also=[(TJ, "            # Unit scaling\n            self._apply_unit_scaling(totals)\n", '')]),
    # ---- one-colour
    Mutant('colour-no-break', COL, "                colors[icol] = color\n                break\n",
           "                colors[icol] = color\n", 'C03.one-colour'),
    Mutant('colour-len-after-append', COL,
           "            colors[icol] = len(color_groups)\n            color_groups.append([icol])\n",
           "            color_groups.append([icol])\n            colors[icol] = len(color_groups)\n", 'C03.one-colour'),
    Mutant('colour-inverted-test', COL, 'if color not in neighbor_colors:', 'if color in neighbor_colors:',
           'C03.one-colour'),
    Mutant('colour-own-colour-tested', COL, 'neighbor_colors = colors[colnzrows]', 'neighbor_colors = colors[icol]',
           'C03.one-colour'),
    Mutant('colour-store-dropped', COL, "                grp.append(icol)\n                colors[icol] = color\n",
           "                grp.append(icol)\n", 'C03.one-colour'),
    Mutant('colour-new-group-not-recorded', COL,
           "            colors[icol] = len(color_groups)\n            color_groups.append([icol])\n",
           "            colors[icol] = len(color_groups)\n", 'C03.one-colour'),
    Mutant('colour-wrong-index-stored', COL, "                colors[icol] = color\n", "                colors[icol] = color + 1\n",
           'C03.one-colour'),
    Twin('colour-twin-reordered', COL, "                grp.append(icol)\n                colors[icol] = color\n",
         "                colors[icol] = color\n                grp.append(icol)\n"),
    Twin('colour-twin-len-minus-one', COL,
         "            colors[icol] = len(color_groups)\n            color_groups.append([icol])\n",
         "            color_groups.append([icol])\n            colors[icol] = len(color_groups) - 1\n"),
    Twin('colour-twin-inline-neighbours', COL, 'if color not in neighbor_colors:', 'if not (color in colors[colnzrows]):'),
    # ---- order-id
    Mutant('id-no-retire', COL,
           "        colored_degrees[col] = -ncols  # ensure that this col will never have max degree again\n", '',
           'C03.order-id'),
    Mutant('id-wrong-neighbours', COL, 'colnzrows = col_adj_matrix.getcol(col).indices',
           'colnzrows = col_adj_matrix.getcol(_).indices', 'C03.order-id'),
    Mutant('id-retire-minus-one', COL, 'colored_degrees[col] = -ncols  #', 'colored_degrees[col] = -1  #', 'C03.order-id'),
    Twin('id-twin-retire-first', COL,
         "        colored_degrees[colnzrows] += 1\n        colored_degrees[col] = -ncols  # ensure that this col will never have max degree again\n",
         "        colored_degrees[col] = -ncols\n        colored_degrees[colnzrows] += 1\n"),
    # ---- slots
    Mutant('slot-rowcolmap-swapped', COL, "        if direction == 'fwd':\n            return self._fwd[1]",
           "        if direction == 'fwd':\n            return self._rev[1]", 'C03.slots'),
    Mutant('slot-rowcolmap-groups', COL, "            return self._rev[1]", "            return self._rev[0]", 'C03.slots'),
    Mutant('slot-color-array-nz', COL, 'colors_nz = color_array[self._nzcols]', 'colors_nz = color_array[self._nzrows]',
           'C03.slots'),
    Mutant('slot-color-array-shape', COL, "                color_array = np.zeros(self._shape[0], dtype=int)",
           "                color_array = np.zeros(self._shape[1], dtype=int)", 'C03.slots'),
    Mutant('slot-color-iter-swapped', COL, "            colors = self._fwd[0]\n        elif direction == 'rev':\n            colors = self._rev[0]",
           "            colors = self._rev[0]\n        elif direction == 'rev':\n            colors = self._fwd[0]", 'C03.slots'),
    Mutant('slot-tangent-size', COL, 'size = self._shape[1] if fwd else self._shape[0]',
           'size = self._shape[0] if fwd else self._shape[1]', 'C03.slots'),
    Mutant('slot-simul-color-mode', TJ, "simul_coloring._fwd if mode == 'fwd' else simul_coloring._rev",
           "simul_coloring._fwd if mode == 'rev' else simul_coloring._rev", 'C03.slots'),
    Mutant('slot-getV-shape', COL, 'shape=(self._shape[1], len(self._fwd[0]))', 'shape=(self._shape[0], len(self._fwd[0]))',
           'C03.slots'),
    Mutant('slot-init-swapped', COL, "            self._nzrows = coo.row\n            self._nzcols = coo.col",
           "            self._nzrows = coo.col\n            self._nzcols = coo.row", 'C03.slots'),
    Mutant('slot-expand-nz', COL, 'data = compressed_j[self._nzrows, colors_coo]', 'data = compressed_j[self._nzcols, colors_coo]',
           'C03.slots'),
    Twin('slot-twin-flipped-dispatch', COL,
         "        if direction == 'fwd':\n            return self._fwd[1]\n        elif direction == 'rev':\n            return self._rev[1]",
         "        if direction == 'rev':\n            return self._rev[1]\n        elif direction == 'fwd':\n            return self._fwd[1]"),
    Twin('slot-twin-not-fwd', COL, 'size = self._shape[1] if fwd else self._shape[0]',
         'size = self._shape[0] if not fwd else self._shape[1]'),
    # ---- modes
    Mutant('modes-both-fwd-only', COL, "            return ('fwd', 'rev')\n        elif self._fwd:", "            return ('fwd',)\n        elif self._fwd:",
           'C03.modes'),
    Mutant('modes-elif-swapped', COL, "        elif self._fwd:\n            return ('fwd',)", "        elif self._fwd:\n            return ('rev',)",
           'C03.modes'),
    Mutant('modes-init-single', TJ, 'modes = self.simul_coloring.modes()', 'modes = [self.mode]', 'C03.modes'),
    Twin('modes-twin-commuted', COL, 'if self._fwd and self._rev:\n            return', 'if self._rev and self._fwd:\n            return'),
    # ---- setter twins
    Mutant('twin-simul-fwd-swapped', TJ, 'J[row, i] = reduced_derivs[row]', 'J[i, row] = reduced_derivs[row]', 'C03.setter-twins'),
    Mutant('twin-simul-rev-gather', TJ, 'J[i, col] = reduced_derivs[col]', 'J[i, col] = reduced_derivs[i]', 'C03.setter-twins'),
    Mutant('twin-simul-map-mode', TJ, 'row_col_map = self.simul_coloring.get_row_col_map(mode)',
           'row_col_map = self.simul_coloring.get_row_col_map(self.mode)', 'C03.setter-twins'),
    Mutant('twin-simul-stale-list', TJ, '                row = row_col_map[i]', '                row = row_col_map[inds[0]]',
           'C03.setter-twins'),
    Mutant('twin-single-rev', TJ, 'self.J[i, jac_idxs] = deriv_val[deriv_idxs]', 'self.J[jac_idxs, i] = deriv_val[deriv_idxs]',
           'C03.setter-twins'),
    Mutant('twin-directional-rev', TJ, 'J[i, :] = reduced_derivs', 'J[:, i] = reduced_derivs', 'C03.setter-twins'),
    Mutant('twin-colored-jac-iter', COL, 'yield compressed_j[i, nzpart], nzpart, jac_irow',
           'yield compressed_j[nzpart, i], nzpart, jac_irow', 'C03.setter-twins'),
    Mutant('twin-expand-jac', COL, 'data = compressed_j[colors_coo, self._nzcols]', 'data = compressed_j[self._nzcols, colors_coo]',
           'C03.setter-twins'),
    Twin('twin-twin-inline-mode-test', TJ, "        if fwd:\n            for i in inds:\n                row = row_col_map[i]",
         "        if mode == 'fwd':\n            for i in inds:\n                row = row_col_map[i]"),
    Twin('twin-twin-renamed-local', TJ, "                row = row_col_map[i]\n                J[row, i] = reduced_derivs[row]",
         "                nzr = row_col_map[i]\n                J[nzr, i] = reduced_derivs[nzr]"),
    Twin('twin-twin-flipped-branches', TJ,
         "        if mode == 'fwd':\n            self.J[jac_idxs, i] = deriv_val[deriv_idxs]\n        else:  # rev\n            self.J[i, jac_idxs] = deriv_val[deriv_idxs]",
         "        if mode != 'fwd':\n            self.J[i, jac_idxs] = deriv_val[deriv_idxs]\n        else:\n            self.J[jac_idxs, i] = deriv_val[deriv_idxs]"),
    # ---- gather
    Mutant('gather-approx', APPROX, 'scratch[nzrows[i]] = res[nzrows[i]]', 'scratch[nzrows[i]] = res[nzrows[0]]', 'C03.gather'),
    Mutant('gather-exec', EXEC, 'scratch[rows] = imag_oar[rows]', 'scratch[rows] = imag_oar[icol]', 'C03.gather'),
    # ---- seeds
    Mutant('seeds-threshold', TJ, 'if len(ilist) > 1:', 'if len(ilist) > 2:', 'C03.seeds'),
    Mutant('seeds-key', TJ, "iterdict['seeds'] = seed[ilist][active]", "iterdict['seed'] = seed[ilist][active]", 'C03.seeds'),
    Mutant('seeds-unfiltered', TJ, "iterdict['local_in_idxs'] = locs[active]", "iterdict['local_in_idxs'] = locs", 'C03.seeds'),
    Mutant('seeds-delegate-two', TJ, "        if len(inds) == 1:\n            return self.single_input_setter(inds[0], None, mode)",
           "        if len(inds) <= 2:\n            return self.single_input_setter(inds[0], None, mode)", 'C03.seeds'),
    Twin('seeds-twin-ge-two', TJ, 'if len(ilist) > 1:', 'if len(ilist) >= 2:'),
    Twin('seeds-twin-commuted', TJ, "        if len(inds) == 1:\n            return self.single_input_setter(inds[0], None, mode)",
         "        if 1 == len(inds):\n            return self.single_input_setter(inds[0], None, mode)"),
    # ---- compute
    Mutant('compute-ctor-after-T', COL, "    coloring = Coloring(sparsity=J)\n\n    if rev:\n        J = J.T\n",
           "    if rev:\n        J = J.T\n\n    coloring = Coloring(sparsity=J)\n", 'C03.compute'),
    Mutant('compute-slot-swapped', COL,
           "        coloring._rev = (col_groups, col2rows)\n    else:  # fwd\n        coloring._fwd = (col_groups, col2rows)",
           "        coloring._fwd = (col_groups, col2rows)\n    else:  # fwd\n        coloring._rev = (col_groups, col2rows)", 'C03.compute'),
    Mutant('compute-tuple-swapped', COL, 'coloring._rev = (col_groups, col2rows)', 'coloring._rev = (col2rows, col_groups)',
           'C03.compute'),
    Mutant('compute-map-roles', COL, 'for r, c in sorted(zip(nzrows, nzcols)):', 'for c, r in sorted(zip(nzrows, nzcols)):',
           'C03.compute'),
    Mutant('compute-fallback-flipped', COL, 'if coloring.total_solves() > fallback.total_solves():',
           'if coloring.total_solves() < fallback.total_solves():', 'C03.compute'),
    Mutant('compute-no-rev-fallback', COL, "fallback = _compute_coloring(J, 'rev')", "fallback = _compute_coloring(J, 'fwd')",
           'C03.compute'),
    Mutant('compute-rev-flag', COL, "    rev = mode == 'rev'\n\n    coloring = Coloring", "    rev = mode == 'fwd'\n\n    coloring = Coloring",
           'C03.compute'),
    Mutant('compute-no-transpose', COL, "    if rev:\n        J = J.T\n\n    _, ncols = J.shape", "    _, ncols = J.shape", 'C03.compute'),
    Mutant('compute-late-transpose', COL, "    if rev:\n        J = J.T\n\n    _, ncols = J.shape\n",
           "    _, ncols = J.shape\n", 'C03.compute',
           also=[(COL, "    col_groups = _get_full_disjoint_cols(J)\n", "    col_groups = _get_full_disjoint_cols(J)\n    if rev:\n        J = J.T\n")]),
    Twin('compute-twin-inline-transpose', COL, "    if rev:\n        J = J.T\n\n    _, ncols = J.shape",
         "    if mode == 'rev':\n        J = J.transpose()\n\n    _, ncols = J.shape"),
    Twin('compute-twin-commuted-fallback', COL, 'if coloring.total_solves() >= fallback.total_solves():',
         'if fallback.total_solves() <= coloring.total_solves():'),
    # ---- partition
    Mutant('part-keep-wrong', COL, 'keep = M_rows != r  # remove row r from M', 'keep = M_cols != r  # remove row r from M',
           'C03.partition'),
    Mutant('part-store-own-coordinate', COL, 'Jf_rows[r] = M_cols[M_rows == r]', 'Jf_rows[r] = M_rows[M_rows == r]', 'C03.partition'),
    Mutant('part-no-retire', COL, "            M_col_nonzeros[c] = skip  # make sure we don't pick this one again\n", '', 'C03.partition'),
    Mutant('part-filter-one', COL, "        M_rows = M_rows[keep]\n        M_cols = M_cols[keep]\n", "        M_rows = M_rows[keep]\n",
           'C03.partition'),
    Mutant('part-rev-args-swapped', COL, '_color_partition(J.T, Jrc, Jrr,', '_color_partition(J.T, Jrr, Jrc,', 'C03.partition'),
    Mutant('part-rev-not-transposed', COL, '_color_partition(J.T, Jrc, Jrr,', '_color_partition(J, Jrc, Jrr,', 'C03.partition'),
    Mutant('part-fwd-into-rev-slot', COL, 'coloring._fwd = _color_partition(J, Jfr, Jfc,', 'coloring._rev = _color_partition(J, Jfr, Jfc,',
           'C03.partition'),
    Twin('part-twin-subs-args-swapped', COL, 'coloring._get_subtractions(Jf, Jr)', 'coloring._get_subtractions(Jr, Jf)'),
    Mutant('part-subs-direct', COL, 'if not direct and row_i > 0 and col_i > 0:', 'if direct and row_i > 0 and col_i > 0:',
           'C03.partition'),
    Mutant('part-Jr-coo-swapped', COL, 'Jr = coo_matrix((np.ones(Jrr.size), (Jrr, Jrc)), shape=J.shape)',
           'Jr = coo_matrix((np.ones(Jrr.size), (Jrc, Jrr)), shape=J.shape)', 'C03.partition'),
    Mutant('part-colour-guard-fwd-off-by-one', COL, "    if row_i > 0:\n        coloring._fwd = _color_partition(",
           "    if row_i > 1:\n        coloring._fwd = _color_partition(", 'C03.partition'),
    Mutant('part-colour-guard-rev-off-by-one', COL, "    if col_i > 0:\n        coloring._rev = _color_partition(",
           "    if col_i > 1:\n        coloring._rev = _color_partition(", 'C03.partition'),
    Mutant('part-build-guard-off-by-one', COL, "    if col_i > 0:\n        # build Jr and do rev coloring",
           "    if col_i > 1:\n        # build Jr and do rev coloring", 'C03.partition'),
    Mutant('part-colour-guard-wrong-counter', COL, "    if row_i > 0:\n        coloring._fwd = _color_partition(",
           "    if col_i > 0:\n        coloring._fwd = _color_partition(", 'C03.partition'),
    Twin('part-twin-guard-ge-one', COL, "    if row_i > 0:\n        coloring._fwd = _color_partition(",
         "    if row_i >= 1:\n        coloring._fwd = _color_partition("),
    Twin('part-twin-guard-truthy', COL, "    if col_i > 0:\n        coloring._rev = _color_partition(",
         "    if col_i:\n        coloring._rev = _color_partition("),
    Twin('part-twin-guard-commuted', COL, 'if not direct and row_i > 0 and col_i > 0:', 'if row_i > 0 and col_i > 0 and not direct:'),
    Twin('part-twin-mask-commuted', COL, 'keep = M_rows != r  # remove row r from M', 'keep = r != M_rows'),
    Twin('part-twin-filter-order', COL, "        M_rows = M_rows[keep]\n        M_cols = M_cols[keep]\n",
         "        M_cols = M_cols[keep]\n        M_rows = M_rows[keep]\n"),
    # ---- adjacency
    Mutant('adj-direct-and', COL, 'if Jrow[col1] or Jrow[col2]:', 'if Jrow[col1] and Jrow[col2]:', 'C03.adjacency'),
    Mutant('adj-direct-one-sided', COL, 'if Jrow[col1] or Jrow[col2]:', 'if Jrow[col1]:', 'C03.adjacency'),
    Mutant('adj-direct-partrow-pairs', COL, 'combinations(fullrow, 2)', 'combinations(partrow, 2)', 'C03.adjacency'),
    Mutant('adj-subst-overlap-dropped', COL, "                        overlap.add((row, col1))\n", "                        pass\n", 'C03.adjacency'),
    Mutant('adj-subst-inverted', COL, "                if Jrow[col1]:\n                    if Jrow[col2]:  # both",
           "                if not Jrow[col1]:\n                    if Jrow[col2]:  # both", 'C03.adjacency'),
    Mutant('adj-not-symmetric', COL, 'cols = np.hstack(allnzc + allnzr)', 'cols = np.hstack(allnzr + allnzc)', 'C03.adjacency'),
    Mutant('adj-single-dropped', COL, "        elif partrow.size == 1:\n            nzr.append(partrow[0])\n            nzc.append(partrow[0])\n", '',
           'C03.adjacency'),
    Mutant('adj-full-wrong-column', COL, 'adjcols.append(np.full(row_nzcols.size, c))', 'adjcols.append(np.full(row_nzcols.size, row))',
           'C03.adjacency'),
    Mutant('adj-subst-pairs-over-partition', COL, 'combinations(J.getrow(row).indices, 2)', 'combinations(partrow_cols, 2)',
           'C03.adjacency'),
    Mutant('adj-direct-reset-before-pairs', COL, "            Jrow[partrow] = True\n            for col1, col2 in combinations(fullrow, 2):",
           "            Jrow[partrow] = True\n            Jrow[partrow] = False\n            for col1, col2 in combinations(fullrow, 2):",
           'C03.adjacency'),
    Mutant('part-subs-negated-partition-test', COL, 'if not direct and row_i > 0 and col_i > 0:',
           'if not direct and row_i > 0 and not col_i > 0:', 'C03.partition'),
    Twin('adj-twin-commuted-or', COL, 'if Jrow[col1] or Jrow[col2]:', 'if Jrow[col2] or Jrow[col1]:'),
    Twin('adj-twin-flat-chain', COL,
         "                if Jrow[col1]:\n                    if Jrow[col2]:  # both are in the partition, so cols are dependent\n"
         "                        nzr.append(col1)\n                        nzc.append(col2)\n                    else:\n"
         "                        # one is in the partition, the other is not\n                        overlap.add((row, col1))\n"
         "                elif Jrow[col2]:\n",
         "                if Jrow[col1] and Jrow[col2]:\n                    nzr.append(col1)\n                    nzc.append(col2)\n"
         "                elif Jrow[col1]:\n                    overlap.add((row, col1))\n"
         "                elif Jrow[col2]:\n"),
    # ---- subtract
    Mutant('sub-plus', COL, 'J[pos] -= tosub', 'J[pos] += tosub', 'C03.subtract'),
    Mutant('sub-assign', COL, 'J[pos] -= tosub', 'J[pos] = tosub', 'C03.subtract'),
    Mutant('sub-apply-reversed', COL, 'for pos, subs in self._subtractions:', 'for pos, subs in reversed(self._subtractions):',
           'C03.subtract'),
    Mutant('sub-sort-no-reverse', COL, "    sorted_subs = sorted_subs[::-1]\n\n", '', 'C03.subtract'),
    Mutant('sub-edge-flipped', COL, 'graph.add_edge(pos, sub)', 'graph.add_edge(sub, pos)', 'C03.subtract'),
    Mutant('sub-reader-sign', COL, 'for subc in spcols[spvals < 0]:', 'for subc in spcols[spvals > 0]:', 'C03.subtract'),
    Mutant('sub-reader-off-by-one', COL, 'subfrom = spcols[spvals == (color + 1)]', 'subfrom = spcols[spvals == color]', 'C03.subtract'),
    Mutant('sub-writer-sign', COL, 'v = -(color + 1)', 'v = (color + 1)', 'C03.subtract'),
    Mutant('sub-writer-zero-code', COL, "                v = color + 1\n", "                v = color\n", 'C03.subtract'),
    Mutant('sub-position-swapped', COL, 'tosub.append((nzrow, subc))', 'tosub.append((subc, nzrow))', 'C03.subtract'),
    Mutant('sub-key-swapped', COL, 'subtractions.setdefault((subfromrow, nzcol), [])', 'subtractions.setdefault((nzcol, subfromrow), [])',
           'C03.subtract'),
    Mutant('sub-map-layout', COL, "                    Jrows.append(nzrows[c])\n                    Jcols.append(np.full(nzrows[c].size, c))",
           "                    Jcols.append(nzrows[c])\n                    Jrows.append(np.full(nzrows[c].size, c))", 'C03.subtract'),
    Mutant('sub-wrong-list', COL, 'tosub = sum(J[k] for k in subs)', 'tosub = sum(J[k] for k in pos)', 'C03.subtract'),
    Twin('sub-twin-edge-and-order-flipped', COL, 'graph.add_edge(pos, sub)', 'graph.add_edge(sub, pos)',
         also=[(COL, "    sorted_subs = sorted_subs[::-1]\n\n", '')]),
    Twin('sub-twin-commuted-sign-test', COL, 'for subc in spcols[spvals < 0]:', 'for subc in spcols[0 > spvals]:'),
    Twin('sub-twin-commuted-code', COL, "                v = color + 1\n", "                v = 1 + color\n"),
    Twin('sub-twin-inline-sum', COL, "            tosub = sum(J[k] for k in subs)\n            J[pos] -= tosub\n",
         "            J[pos] -= sum(J[k] for k in subs)\n"),
    # ---- coords
    Mutant('coords-expand', COL, 'return csc_matrix((data, (self._nzrows, self._nzcols)), shape=self._shape)',
           'return csc_matrix((data, (self._nzcols, self._nzrows)), shape=self._shape)', 'C03.coords'),
    Mutant('coords-partition-csc', COL, 'csc = csc_matrix((np.ones(Jprows.size), (Jprows, Jpcols)), shape=J.shape)',
           'csc = csc_matrix((np.ones(Jprows.size), (Jpcols, Jprows)), shape=J.shape)', 'C03.coords'),
    Mutant('coords-getrow-for-col', COL, 'col2row[col] = csc.getcol(col).indices', 'col2row[col] = csc.getrow(col).indices', 'C03.coords'),
    Mutant('coords-compute', COL, 'J = coo_matrix((np.ones(nzrows.size), (nzrows, nzcols)), shape=J.shape)',
           'J = coo_matrix((np.ones(nzrows.size), (nzcols, nzrows)), shape=J.shape)', 'C03.coords'),
    Mutant('id-no-mark', COL, "    colored_degrees[col_adj_matrix.indices] = 1  # make sure zero cols aren't considered\n", '',
           'C03.order-id'),
    # ---- pairing
    Mutant('pair-nonzero-iter-range', COL, '[nz_rows[c] for c in col_chunk]', '[nz_rows[c] for c in range(len(col_chunk))]',
           'C03.pairing'),
    Mutant('pair-nonzero-iter-dir', COL, 'nz_rows = self.get_row_col_map(direction)', "nz_rows = self.get_row_col_map('fwd')",
           'C03.pairing'),
    Mutant('pair-itermeta-conditional', TJ, "                iterdict['seed_vars'] = tuple(all_vois)\n                itermeta.append(iterdict)",
           "                iterdict['seed_vars'] = tuple(all_vois)\n                if cache:\n                    itermeta.append(iterdict)",
           'C03.pairing'),
    Mutant('pair-itermeta-zero', TJ, "imeta['itermeta'][color]", "imeta['itermeta'][0]", 'C03.pairing'),
    Mutant('pair-seed-args', TJ, "set_val(itermeta['seeds'], itermeta['local_in_idxs'])",
           "set_val(itermeta['local_in_idxs'], itermeta['seeds'])", 'C03.pairing'),
    Mutant('pair-mode-self', TJ, 'jac_setter(inds, mode, imeta)', 'jac_setter(inds, self.mode, imeta)', 'C03.pairing'),
    Mutant('pair-partition-return', COL, 'return [col_groups, col2row]', 'return [col2row, col_groups]', 'C03.pairing'),
    Mutant('pair-partition-filter', COL, 'if col2row[c] is not None]', 'if col2row[c] is None]', 'C03.pairing'),
    Twin('pair-twin-renamed-colour', TJ, 'for color, ilist in enumerate(coloring.color_iter(mode)):',
         'for k, ilist in enumerate(coloring.color_iter(mode)):',
         also=[(TJ, "imeta['itermeta'][color]", "imeta['itermeta'][k]")]),
    # ---- gather (cleanliness)
    Mutant('gather-no-zero-approx', APPROX, "                for i, col in enumerate(jcols):\n                    scratch[:] = 0.0\n",
           "                for i, col in enumerate(jcols):\n", 'C03.gather'),
    Mutant('gather-no-zero-exec', EXEC, "            scratch[:] = 0.\n", '', 'C03.gather'),
    Mutant('gather-no-cleanup-exec', EXEC, "                        part[:] = 0.\n", '', 'C03.gather'),
    Mutant('colour-enumerate-from-one', COL, 'for color, grp in enumerate(color_groups):', 'for color, grp in enumerate(color_groups, 1):',
           'C03.one-colour'),
    Mutant('id-argmin', COL, 'col = colored_degrees.argmax()', 'col = colored_degrees.argmin()', 'C03.order-id'),
    Mutant('compute-shape-before-T', COL, "    if rev:\n        J = J.T\n\n    _, ncols = J.shape\n",
           "    _, ncols = J.shape\n\n    if rev:\n        J = J.T\n", 'C03.compute'),
    Mutant('sub-member-negated', COL, 'if subc in color_cols:', 'if subc not in color_cols:', 'C03.subtract'),
    Mutant('sub-member-other-dir', COL, 'color_rows = set(self._rev[0][color])', 'color_rows = set(self._fwd[0][color])', 'C03.subtract'),
    Twin('order-twin-aliased-J', TJ, _SUB_BLOCK,
         "                Jarr = self.J\n"
         "                if self.simul_coloring is not None and self.simul_coloring._subtractions:\n"
         "                    self.simul_coloring._apply_subtractions(Jarr)\n"),
    Twin('colour-twin-renamed-group', COL, "        for color, grp in enumerate(color_groups):\n            if color not in neighbor_colors:\n                grp.append(icol)",
         "        for color, members in enumerate(color_groups):\n            if color not in neighbor_colors:\n                members.append(icol)"),
    Twin('part-twin-renamed-mask', COL, "            keep = M_rows != r  # remove row r from M", "            sel = M_rows != r",
         also=[(COL, "            keep = M_cols != c  # remove column c from M", "            sel = M_cols != c"),
               (COL, "        M_rows = M_rows[keep]\n        M_cols = M_cols[keep]\n", "        M_rows = M_rows[sel]\n        M_cols = M_cols[sel]\n")]),
    Twin('compute-twin-reordered', COL, "    nzrows, nzcols = J.row, J.col\n    col_groups = _get_full_disjoint_cols(J)\n",
         "    col_groups = _get_full_disjoint_cols(J)\n    nzrows, nzcols = J.row, J.col\n"),
    Twin('sub-twin-renamed-loop-vars', COL, "        for pos, subs in self._subtractions:\n            tosub = sum(J[k] for k in subs)\n            J[pos] -= tosub\n",
         "        for where, ks in self._subtractions:\n            acc = sum(J[q] for q in ks)\n            J[where] -= acc\n"),
    # ---- idiom classes accepted after the robustness round (each with breaking edits made on the refactored shape)
    Twin('colour-twin-sentinel-search', COL, _GREEDY_OLD, _GREEDY_NEW),
    Mutant('colour-sentinel-inverted-test', COL, _GREEDY_OLD, _GREEDY_NEW, 'C03.one-colour',
           also=[(COL, "            if color not in neighbor_colors:\n                chosen = color", "            if color in neighbor_colors:\n                chosen = color")]),
    Mutant('colour-sentinel-commit-swapped', COL, _GREEDY_OLD, _GREEDY_NEW, 'C03.one-colour',
           also=[(COL, "        if chosen == ncolors:", "        if chosen != ncolors:")]),
    Mutant('colour-sentinel-wrong-store', COL, _GREEDY_OLD, _GREEDY_NEW, 'C03.one-colour',
           also=[(COL, "        colors[icol] = chosen\n", "        colors[icol] = ncolors\n")]),
    Mutant('colour-sentinel-store-in-branch', COL, _GREEDY_OLD, _GREEDY_NEW, 'C03.one-colour',
           also=[(COL, "            color_groups[chosen].append(icol)\n        colors[icol] = chosen\n",
                  "            color_groups[chosen].append(icol)\n            colors[icol] = chosen\n")]),
    Twin('id-twin-hoisted-locals', COL, "    for _ in range(np.nonzero(colored_degrees)[0].size):\n",
         "    num_nonzero_cols = np.nonzero(colored_degrees)[0].size\n    never_max = -ncols\n\n    for _ in range(num_nonzero_cols):\n",
         also=[(COL, "        colored_degrees[col] = -ncols  #", "        colored_degrees[col] = never_max  #")]),
    Mutant('id-hoisted-count-before-mark', COL, "    colored_degrees[col_adj_matrix.indices] = 1  # make sure zero cols aren't considered\n\n    for _ in range(np.nonzero(colored_degrees)[0].size):\n",
           "    num_nonzero_cols = np.nonzero(colored_degrees)[0].size\n    colored_degrees[col_adj_matrix.indices] = 1\n\n    for _ in range(num_nonzero_cols):\n",
           'C03.order-id'),
    Twin('sub-twin-accumulation-loop', COL, "            tosub = sum(J[k] for k in subs)\n",
         "            tosub = 0\n            for k in subs:\n                tosub = tosub + J[k]\n"),
    Mutant('sub-accumulation-loop-plus', COL, "            tosub = sum(J[k] for k in subs)\n            J[pos] -= tosub\n",
           "            tosub = 0\n            for k in subs:\n                tosub = tosub + J[k]\n            J[pos] += tosub\n", 'C03.subtract'),
    Twin('sub-twin-comprehension', COL, _TOSUB1_OLD, _TOSUB1_NEW, also=[(COL, _TOSUB2_OLD, _TOSUB2_NEW)]),
    Mutant('sub-comprehension-member-negated', COL, _TOSUB1_OLD, _TOSUB1_NEW.replace('if subc in color_cols', 'if subc not in color_cols'),
           'C03.subtract'),
    Mutant('sub-comprehension-position-swapped', COL, _TOSUB2_OLD, _TOSUB2_NEW.replace('[(subr, nzcol) for', '[(nzcol, subr) for'),
           'C03.subtract'),
    Twin('gather-twin-temporaries', APPROX, "                for i, col in enumerate(jcols):\n                    scratch[:] = 0.0\n                    scratch[nzrows[i]] = res[nzrows[i]]\n",
         "                for icol, col in enumerate(jcols):\n                    col_nzrows = nzrows[icol]\n                    scratch[:] = 0.0\n                    scratch[col_nzrows] = res[col_nzrows]\n"),
    Mutant('gather-temporaries-wrong-rows', APPROX, "                for i, col in enumerate(jcols):\n                    scratch[:] = 0.0\n                    scratch[nzrows[i]] = res[nzrows[i]]\n",
           "                for icol, col in enumerate(jcols):\n                    col_nzrows = nzrows[icol]\n                    first_nzrows = nzrows[0]\n                    scratch[:] = 0.0\n                    scratch[col_nzrows] = res[first_nzrows]\n",
           'C03.gather'),
    # ---- round-2 seeds: applicability of the driver colouring, stale colouring, sparsity sampling
    Mutant('applies-or-custom', TJ, '((orig_of is None and orig_wrt is None) or not has_custom_derivs) and',
           '((orig_of is None or orig_wrt is None) or not has_custom_derivs) and', 'C03.applies'),
    Mutant('applies-index-override-ignored', TJ, "                        (of_indices is None and wrt_indices is None)\n",
           "                        (of_indices is None or wrt_indices is None)\n", 'C03.applies'),
    Mutant('applies-custom-ignored', TJ, '((orig_of is None and orig_wrt is None) or not has_custom_derivs) and',
           '((orig_of is None and orig_wrt is None) or has_custom_derivs) and', 'C03.applies'),
    Twin('applies-twin-demorgan', TJ, '((orig_of is None and orig_wrt is None) or not has_custom_derivs) and',
         '(not has_custom_derivs or not (orig_wrt is not None or orig_of is not None)) and'),
    Mutant('stale-dynamic-kept', DRIVER, 'if self._coloring_info.dynamic or self._coloring_info.static is not None:',
           'if self._coloring_info.static is not None:', 'C03.stale'),
    Mutant('stale-and', DRIVER, 'if self._coloring_info.dynamic or self._coloring_info.static is not None:',
           'if self._coloring_info.dynamic and self._coloring_info.static is not None:', 'C03.stale'),
    Mutant('stale-no-reset', DRIVER, "            if self._coloring_info.dynamic or self._coloring_info.static is not None:\n                self._coloring_info.coloring = None\n",
           '', 'C03.stale'),
    Twin('stale-twin-commuted', DRIVER, 'if self._coloring_info.dynamic or self._coloring_info.static is not None:',
         'if self._coloring_info.static is not None or self._coloring_info.dynamic:'),
    Twin('stale-twin-unconditional', DRIVER, "            if self._coloring_info.dynamic or self._coloring_info.static is not None:\n                self._coloring_info.coloring = None\n",
         "            self._coloring_info.coloring = None\n"),
    Mutant('sparsity-first-sample-signed', COL, "                fullJ = np.abs(J)\n", "                fullJ = J\n", 'C03.sparsity'),
    Mutant('sparsity-accumulate-signed', COL, "                fullJ += np.abs(J)\n", "                fullJ += J\n", 'C03.sparsity'),
    Mutant('sparsity-column-signed', COL, 'self._scratch[nzs] += np.abs(column[nzs])', 'self._scratch[nzs] += column[nzs]',
           'C03.sparsity'),
    Twin('sparsity-twin-absolute', COL, "                fullJ = np.abs(J)\n", "                fullJ = np.absolute(J)\n"),
    Twin('sparsity-twin-temporary', COL, "                fullJ += np.abs(J)\n", "                Jmag = np.abs(J)\n                fullJ += Jmag\n"),
    Mutant('sparsity-zero-perturbation-exec', EXEC, "        in_offsets[in_offsets == 0.0] = 1.0\n", '', 'C03.sparsity'),
    Mutant('sparsity-zero-perturbation-system', SYSTEM, "            perturb[perturb == 0.0] = 1.0\n", '', 'C03.sparsity'),
    Mutant('sparsity-zero-fix-after-use', EXEC, "        in_offsets[in_offsets == 0.0] = 1.0\n", '', 'C03.sparsity',
           also=[(EXEC, "        if not self._relcopy:\n            self._inputs.set_val(starting_inputs)\n\n        sparsity, sp_info",
                  "        in_offsets[in_offsets == 0.0] = 1.0\n        if not self._relcopy:\n            self._inputs.set_val(starting_inputs)\n\n        sparsity, sp_info")]),
    Twin('sparsity-twin-fix-after-scaling', EXEC, "        in_offsets[in_offsets == 0.0] = 1.0\n        in_offsets *= info['perturb_size']\n",
         "        in_offsets *= info['perturb_size']\n        in_offsets[0.0 == in_offsets] = info['perturb_size']\n"),
    # ---- stored seed C03_3: shared approximation data taken from the first table entry instead of the first coloured wrt
    Mutant('approx-data-from-first-table-entry', APPROX,
           '        for wrt, meta in self._wrt_meta.items():\n            if wrt_matches is None or wrt in wrt_matches:\n'
           '                # data is the same for all colored approxs so we only need the first\n'
           '                data = self._get_approx_data(system, wrt, meta)\n                break\n'
           '        else:\n            return  # this scheme has no colored wrt\n',
           '        # data is the same for all colored approxs so we only need the first\n'
           '        wrt, meta = next(iter(self._wrt_meta.items()))\n        data = self._get_approx_data(system, wrt, meta)\n',
           'C03.approx-data'),
    Mutant('approx-data-filter-negated', APPROX, '            if wrt_matches is None or wrt in wrt_matches:\n                # data is the same',
           '            if wrt_matches is None or wrt not in wrt_matches:\n                # data is the same', 'C03.approx-data'),
    Twin('approx-data-twin-demorgan-filter', APPROX, '            if wrt_matches is None or wrt in wrt_matches:\n                # data is the same',
         '            if not (wrt_matches is not None and wrt not in wrt_matches):\n                # data is the same'),
    # ---- second robustness round: named sub-conditions in the adoption guard, scratch clean-up in a helper
    Twin('applies-twin-named-subconditions', TJ, _APPLIES_OLD, _APPLIES_NEW),
    Mutant('applies-named-subcondition-or', TJ, _APPLIES_OLD,
           _APPLIES_NEW.replace('(orig_of is None and orig_wrt is None) or not', '(orig_of is None or orig_wrt is None) or not'),
           'C03.applies'),
    Twin('gather-twin-helper-cleanup', EXEC, _EXEC_SCATTER_OLD, _EXEC_SCATTER_NEW,
         also=[(EXEC, "    def compute_partials(self, inputs, partials):\n", _EXEC_HELPER + "    def compute_partials(self, inputs, partials):\n")]),
    Mutant('gather-helper-without-cleanup', EXEC, _EXEC_SCATTER_OLD, _EXEC_SCATTER_NEW, 'C03.gather',
           also=[(EXEC, "    def compute_partials(self, inputs, partials):\n",
                  _EXEC_HELPER.replace("            part[:] = 0.\n", "") + "    def compute_partials(self, inputs, partials):\n")]),
    # ---- third seeding round
    Mutant('setter-scope-single-index-shortcut', TJ,
           "        row_col_map = self.simul_coloring.get_row_col_map(mode)\n        fwd = mode == 'fwd'\n        dist = self.comm.size > 1\n",
           "        if len(inds) == 1:\n            self.single_jac_setter(inds[0], mode, meta)\n            return\n\n"
           "        row_col_map = self.simul_coloring.get_row_col_map(mode)\n        fwd = mode == 'fwd'\n        dist = self.comm.size > 1\n",
           'C03.setter-scope'),
    Mutant('setter-scope-scatter-in-loop', TJ, "                J[i, col] = reduced_derivs[col]\n",
           "                J[i, col] = reduced_derivs[col]\n                self.simple_single_jac_scatter(i, mode)\n", 'C03.setter-scope'),
    Twin('setter-scope-twin-empty-colour-return', TJ,
         "        row_col_map = self.simul_coloring.get_row_col_map(mode)\n        fwd = mode == 'fwd'\n        dist = self.comm.size > 1\n",
         "        if len(inds) == 0:\n            return\n\n"
         "        row_col_map = self.simul_coloring.get_row_col_map(mode)\n        fwd = mode == 'fwd'\n        dist = self.comm.size > 1\n"),
    Mutant('context-no-finally', COL, _CTX_OLD,
           "    yield\n\n    problem._metadata['coloring_randgen'] = None\n    problem._computing_coloring = False\n"
           "    problem._metadata['randomize_subjacs'] = saved_rand_subjacs\n    problem._metadata['randomize_seeds'] = saved_rand_seeds\n",
           'C03.context'),
    Mutant('context-flag-not-restored', COL, "        problem._metadata['coloring_randgen'] = None\n        problem._computing_coloring = False\n",
           "        problem._metadata['coloring_randgen'] = None\n", 'C03.context'),
    Mutant('context-restore-swapped', COL, "        problem._metadata['randomize_subjacs'] = saved_rand_subjacs\n        problem._metadata['randomize_seeds'] = saved_rand_seeds\n",
           "        problem._metadata['randomize_subjacs'] = saved_rand_seeds\n        problem._metadata['randomize_seeds'] = saved_rand_subjacs\n",
           'C03.context'),
    Mutant('context-restore-only-on-success', COL, _CTX_OLD,
           "    try:\n        yield\n    except Exception:\n        raise\n    else:\n"
           "        problem._metadata['coloring_randgen'] = None\n        problem._computing_coloring = False\n"
           "        problem._metadata['randomize_subjacs'] = saved_rand_subjacs\n        problem._metadata['randomize_seeds'] = saved_rand_seeds\n",
           'C03.context'),
    Twin('context-twin-alias-and-tuple-restore', COL,
         "    problem._metadata['coloring_randgen'] = np.random.default_rng(41)  # set seed for consistency\n",
         "    md = problem._metadata\n    md['coloring_randgen'] = np.random.default_rng(41)\n",
         also=[(COL, "    saved_rand_subjacs = problem._metadata['randomize_subjacs']\n    saved_rand_seeds = problem._metadata['randomize_seeds']\n",
                "    saved = (md['randomize_subjacs'], md['randomize_seeds'])\n"),
               (COL, "        problem._metadata['coloring_randgen'] = None\n", "        md['coloring_randgen'] = None\n"),
               (COL, "        problem._metadata['randomize_subjacs'] = saved_rand_subjacs\n        problem._metadata['randomize_seeds'] = saved_rand_seeds\n",
                "        md['randomize_subjacs'], md['randomize_seeds'] = saved\n")]),
    Mutant('context-alias-no-finally', COL,
           "    problem._metadata['coloring_randgen'] = np.random.default_rng(41)  # set seed for consistency\n",
           "    md = problem._metadata\n    md['coloring_randgen'] = np.random.default_rng(41)\n", 'C03.context',
           also=[(COL, _CTX_OLD, "    yield\n\n    md['coloring_randgen'] = None\n    problem._computing_coloring = False\n"
                  "    md['randomize_subjacs'] = saved_rand_subjacs\n    md['randomize_seeds'] = saved_rand_seeds\n")]),
    Twin('context-twin-reordered-restores', COL, "        problem._metadata['coloring_randgen'] = None\n        problem._computing_coloring = False\n",
         "        problem._computing_coloring = False\n        problem._metadata['coloring_randgen'] = None\n"),
    Mutant('load-rev-keeps-ungrouped-list', COL, 'newgrps.extend(old[1:])', 'newgrps.extend(old[0:])', 'C03.load-mirror', nth=1),
    Mutant('load-fwd-keeps-ungrouped-list', COL, 'newgrps.extend(old[1:])', 'newgrps.extend(old[0:])', 'C03.load-mirror', nth=0),
    Mutant('load-rev-drops-group', COL, 'newgrps.extend(old[1:])', 'newgrps.extend(old[2:])', 'C03.load-mirror', nth=1),
    Twin('load-twin-renamed-local', COL,
         "                old = coloring._rev[0]\n                newgrps = [[c] for c in old[0]]\n                newgrps.extend(old[1:])\n",
         "                prev = coloring._rev[0]\n                newgrps = [[r] for r in prev[0]]\n                newgrps.extend(prev[1:])\n"),
    # ---- third robustness round
    Twin('stale-twin-alias-demorgan', DRIVER, _STALE_OLD,
         "            ci = self._coloring_info\n            if not (not ci.dynamic and ci.static is None):\n                ci.coloring = None\n"),
    Mutant('stale-alias-dynamic-kept', DRIVER, _STALE_OLD,
           "            ci = self._coloring_info\n            if not (ci.static is None):\n                ci.coloring = None\n", 'C03.stale'),
    Twin('context-twin-update-and-tuple', COL,
         "        problem._metadata['randomize_subjacs'] = coloring_info.randomize_subjacs\n        problem._metadata['randomize_seeds'] = coloring_info.randomize_seeds\n",
         "        problem._metadata.update(randomize_subjacs=coloring_info.randomize_subjacs,\n                                 randomize_seeds=coloring_info.randomize_seeds)\n"),
    Mutant('context-update-not-restored', COL,
           "        problem._metadata['randomize_subjacs'] = coloring_info.randomize_subjacs\n        problem._metadata['randomize_seeds'] = coloring_info.randomize_seeds\n",
           "        problem._metadata.update(randomize_subjacs=coloring_info.randomize_subjacs,\n                                 randomize_seeds=coloring_info.randomize_seeds)\n",
           'C03.context', also=[(COL, "        problem._metadata['randomize_seeds'] = saved_rand_seeds\n", "")]),
    Twin('sub-twin-entry-indexed', COL, "        for pos, subs in self._subtractions:\n            tosub = sum(J[k] for k in subs)\n",
         "        for entry in self._subtractions:\n            pos = entry[0]\n            tosub = 0\n            for k in entry[1]:\n                tosub = tosub + J[k]\n"),
    Mutant('sub-entry-indexed-plus', COL, "        for pos, subs in self._subtractions:\n            tosub = sum(J[k] for k in subs)\n            J[pos] -= tosub\n",
           "        for entry in self._subtractions:\n            pos = entry[0]\n            tosub = 0\n            for k in entry[1]:\n                tosub = tosub + J[k]\n            J[pos] += tosub\n",
           'C03.subtract'),
    Twin('order-twin-finish-helper', TJ, _FINISH_OLD, "                self._finish_jac()\n",
         also=[(TJ, "    def compute_totals(self, progress_out_stream=None):\n", _FINISH_HELPER + "    def compute_totals(self, progress_out_stream=None):\n")]),
    Mutant('order-finish-helper-scales-first', TJ, _FINISH_OLD, "                self._finish_jac()\n", 'C03.order',
           also=[(TJ, "    def compute_totals(self, progress_out_stream=None):\n", _FINISH_HELPER_BAD + "    def compute_totals(self, progress_out_stream=None):\n")]),
    Mutant('order-finish-helper-before-solves', TJ, _FINISH_OLD, "", 'C03.order',
           also=[(TJ, "    def compute_totals(self, progress_out_stream=None):\n", _FINISH_HELPER + "    def compute_totals(self, progress_out_stream=None):\n"),
                 (TJ, "                # Main loop over columns (fwd) or rows (rev) of the jacobian\n",
                  "                self._finish_jac()\n                # Main loop over columns (fwd) or rows (rev) of the jacobian\n")]),
    Twin('twin-twin-merged-loops', TJ, _SETTER_OLD, _SETTER_NEW),
    Mutant('twin-merged-loops-axes-swapped', TJ, _SETTER_OLD, _SETTER_NEW.replace('(nzs, i) if fwd else (i, nzs)', '(i, nzs) if fwd else (nzs, i)'),
           'C03.setter-twins'),
    Mutant('twin-merged-loops-wrong-gather', TJ, _SETTER_OLD, _SETTER_NEW.replace('reduced_derivs[nzs]', 'reduced_derivs[i]'),
           'C03.setter-twins'),
    Twin('load-twin-helper', COL, _LOAD_OLD, _LOAD_NEW,
         also=[(COL, "    @staticmethod\n    def load(fname):\n", _LOAD_HELPER + "    @staticmethod\n    def load(fname):\n")]),
    Mutant('load-helper-keeps-ungrouped-list', COL, _LOAD_OLD, _LOAD_NEW, 'C03.load-mirror',
           also=[(COL, "    @staticmethod\n    def load(fname):\n", _LOAD_HELPER.replace('old_groups[1:]', 'old_groups[0:]') + "    @staticmethod\n    def load(fname):\n")]),
    Mutant('load-helper-wrong-slot', COL, _LOAD_OLD, _LOAD_NEW.replace('groups(coloring._rev)', 'groups(coloring._fwd)'), 'C03.load-mirror',
           also=[(COL, "    @staticmethod\n    def load(fname):\n", _LOAD_HELPER + "    @staticmethod\n    def load(fname):\n")]),
    # ---- fourth robustness round
    Twin('context-twin-key-loop', COL, _CTXK_SET_OLD, _CTXK_SET_NEW,
         also=[(COL, "        problem._metadata['randomize_subjacs'] = saved_rand_subjacs\n        problem._metadata['randomize_seeds'] = saved_rand_seeds\n",
                "        for key, saved_val in zip(rand_keys, saved_rand):\n            problem._metadata[key] = saved_val\n")]),
    Mutant('context-key-loop-no-finally', COL, _CTXK_SET_OLD, _CTXK_SET_NEW, 'C03.context',
           also=[(COL, _CTX_OLD, "    yield\n\n    problem._metadata['coloring_randgen'] = None\n    problem._computing_coloring = False\n"
                  "    for key, saved_val in zip(rand_keys, saved_rand):\n        problem._metadata[key] = saved_val\n")]),
    Mutant('context-key-loop-conditional-restore', COL, _CTXK_SET_OLD, _CTXK_SET_NEW, 'C03.context',
           also=[(COL, "        problem._metadata['randomize_subjacs'] = saved_rand_subjacs\n        problem._metadata['randomize_seeds'] = saved_rand_seeds\n",
                  "        for key, saved_val in zip(rand_keys, saved_rand):\n            if coloring_info is None:\n                problem._metadata[key] = saved_val\n")]),
    Twin('sub-twin-marker-temporary', COL, "                        subfrom = spcols[spvals == (color + 1)]\n",
         "                        fwd_marker = color + 1\n                        subfrom = spcols[spvals == fwd_marker]\n",
         also=[(COL, "                nzrows, _ = JrVcol.nonzero()  # any nz columns in this row overlap with fwd colors\n",
                "                nzrows = JrVcol.nonzero()[0]\n")]),
    Mutant('sub-marker-temporary-off-by-one', COL, "                        subfrom = spcols[spvals == (color + 1)]\n",
           "                        fwd_marker = color\n                        subfrom = spcols[spvals == fwd_marker]\n", 'C03.subtract'),
    Mutant('sub-nonzero-index-position-swapped', COL, "                nzrows, _ = JrVcol.nonzero()  # any nz columns in this row overlap with fwd colors\n",
           "                nzrows = JrVcol.nonzero()[0]\n", 'C03.subtract',
           also=[(COL, 'tosub.append((nzrow, subc))', 'tosub.append((subc, nzrow))')]),
    Twin('coords-twin-renamed', COL, "    nzrows, nzcols = J.row, J.col\n    col_groups = _get_full_disjoint_cols(J)",
         "    nzrows, nzcols = J.row, J.col\n    col_groups = _get_full_disjoint_col_matrix_cols(_2col_adj_rows_cols(J))"),
)
